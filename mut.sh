#!/bin/bash
# mut.sh <seeded-id> [check-id ...] [-- extra check args]: apply a seeded change to /repo, run the checks (evidence and
# replays redirected to .work so that the registered ones are not overwritten), undo it straight afterwards.
id=$1; shift
pid=${id%%_*}
checks=${@:-$pid}
cd /verif
if [ -n "$(git -C /repo status --porcelain --untracked-files=no)" ]; then echo "/repo is not clean"; exit 2; fi
if grep -q '"apply": "c-patch"' seeded/$id/meta.json 2>/dev/null; then echo "c-patch: use seedsweep.py"; exit 2; fi
git -C /repo apply /verif/seeded/$id/patch.diff || exit 2
for c in $checks; do
  VERIF_EVID=/verif/.work/mut_evid VERIF_REPLAYS=/verif/.work/mut_replays ./check $c --tier quick 2>&1 | tail -2 | cut -c1-500
done
git -C /repo checkout -- .
