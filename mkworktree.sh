#!/bin/sh
# usage: mkworktree.sh <dir>   -- scratch worktree of /repo HEAD with the (git-ignored) build outputs copied in
set -e
d="$1"
git -C /repo worktree add --detach -f "$d" HEAD >/dev/null 2>&1
cp /repo/regions/_geometry/*.so /repo/regions/_geometry/*.c "$d/regions/_geometry/" 2>/dev/null || true
[ -f /repo/regions/version.py ] && cp /repo/regions/version.py "$d/regions/version.py" || true
[ -f /repo/regions/_version.py ] && cp /repo/regions/_version.py "$d/regions/" || true
cd "$d" && PYTHONPATH="$d" /venv/bin/python -c "import regions,sys; assert regions.__file__.startswith('$d'), regions.__file__; print('worktree ok', regions.__file__)"
