"""Parser for TLA+ values as printed by TLC (-dump files, error traces, -simulate files).

records  [a |-> 1, b |-> "x"]  -> dict
tuples   <<1, 2>>              -> list
sets     {1, 2}                -> list tagged as TlaSet (a list subclass)
funcs    (1 :> "a" @@ 2 :> "b")-> dict (keys as parsed; ints stay ints)
strings, ints, TRUE/FALSE, model values (bare identifiers -> str)
"""
import re

_TOK = re.compile(r'''
    (?P<ws>\s+)
  | (?P<str>"(?:[^"\\]|\\.)*")
  | (?P<int>-?\d+)
  | (?P<op><<|>>|\|->|:>|@@|\[|\]|\{|\}|\(|\)|,)
  | (?P<id>[A-Za-z_][A-Za-z0-9_]*)
''', re.X)


class TlaSet(list):
    pass


def _tokens(text):
    pos = 0
    n = len(text)
    out = []
    m = _TOK.match
    while pos < n:
        mo = m(text, pos)
        if mo is None:
            raise ValueError(f'cannot tokenize TLA+ value at {text[pos:pos+40]!r}')
        pos = mo.end()
        k = mo.lastgroup
        if k == 'ws':
            continue
        out.append((k, mo.group()))
    return out


def _unescape(s):
    return s[1:-1].replace('\\"', '"').replace('\\\\', '\\').replace('\\n', '\n').replace('\\t', '\t')


def parse_value(text):
    toks = _tokens(text)
    val, i = _parse(toks, 0)
    if i != len(toks):
        raise ValueError(f'trailing tokens in TLA+ value: {toks[i:i+5]}')
    return val


def _parse(t, i):
    k, v = t[i]
    if k == 'int':
        return int(v), i + 1
    if k == 'str':
        return _unescape(v), i + 1
    if k == 'id':
        if v == 'TRUE':
            return True, i + 1
        if v == 'FALSE':
            return False, i + 1
        return v, i + 1
    if v == '<<':
        out = []
        i += 1
        if t[i][1] == '>>':
            return out, i + 1
        while True:
            x, i = _parse(t, i)
            out.append(x)
            if t[i][1] == ',':
                i += 1
                continue
            if t[i][1] == '>>':
                return out, i + 1
            raise ValueError('bad tuple')
    if v == '{':
        out = TlaSet()
        i += 1
        if t[i][1] == '}':
            return out, i + 1
        while True:
            x, i = _parse(t, i)
            out.append(x)
            if t[i][1] == ',':
                i += 1
                continue
            if t[i][1] == '}':
                return out, i + 1
            raise ValueError('bad set')
    if v == '[':
        out = {}
        i += 1
        if t[i][1] == ']':
            return out, i + 1
        while True:
            name = t[i][1]
            if t[i + 1][1] != '|->':
                raise ValueError('bad record')
            x, i = _parse(t, i + 2)
            out[name] = x
            if t[i][1] == ',':
                i += 1
                continue
            if t[i][1] == ']':
                return out, i + 1
            raise ValueError('bad record end')
    if v == '(':
        out = {}
        i += 1
        while True:
            key, i = _parse(t, i)
            if t[i][1] != ':>':
                raise ValueError('bad function')
            x, i = _parse(t, i + 1)
            if isinstance(key, list):
                key = tuple(key)
            out[key] = x
            if t[i][1] == '@@':
                i += 1
                continue
            if t[i][1] == ')':
                return out, i + 1
            raise ValueError('bad function end')
    raise ValueError(f'unexpected token {t[i]}')


_STATE_HDR = re.compile(r'^State (\d+):.*$', re.M)
_VAR = re.compile(r'^/\\ ([A-Za-z_][A-Za-z0-9_]*) = ', re.M)


def parse_state_block(block):
    """block: text '/\\ a = ...\n/\\ b = ...' -> dict var -> value."""
    out = {}
    ms = list(_VAR.finditer(block))
    for j, mo in enumerate(ms):
        end = ms[j + 1].start() if j + 1 < len(ms) else len(block)
        out[mo.group(1)] = parse_value(block[mo.end():end])
    return out


def parse_dump(path, limit=None, only=None, stride=1):
    """Yield dict per state from a TLC -dump file (only blocks containing `only`, if given)."""
    with open(path) as f:
        text = f.read()
    hdrs = list(_STATE_HDR.finditer(text))
    for j, mo in enumerate(hdrs):
        if limit is not None and j >= limit:
            return
        end = hdrs[j + 1].start() if j + 1 < len(hdrs) else len(text)
        if stride > 1 and j % stride:
            continue            # skipped without parsing
        blk = text[mo.end():end]
        if only is not None and only not in blk:
            continue
        yield parse_state_block(blk)


def parse_error_trace(stdout):
    """Extract the states of a TLC counterexample from its stdout."""
    hdrs = list(re.finditer(r'^State (\d+): (.*)$', stdout, re.M))
    out = []
    for j, mo in enumerate(hdrs):
        end = hdrs[j + 1].start() if j + 1 < len(hdrs) else len(stdout)
        blk = stdout[mo.end():end]
        # cut at first blank line
        blk = blk.split('\n\n')[0]
        try:
            out.append({'action': mo.group(2), 'state': parse_state_block(blk)})
        except ValueError:
            out.append({'action': mo.group(2), 'state': blk})
    return out
