"""Concretiser (abstract DS9 lines of Ds9.tla -> text, in several interchangeable styles) and projection of the
regions the real reader returns back to the model's canonical values."""
import math

import numpy as np

STYLES = [dict(sep='\n', paren=True, upper=False, header=True, delim='{}'),
          dict(sep=';', paren=True, upper=False, header=False, delim='{}'),
          dict(sep='\n', paren=False, upper=True, header=True, delim='""'),
          dict(sep=';', paren=False, upper=False, header=False, delim="''"),
          dict(sep='\n', paren=True, upper=True, header=False, delim='{}'),
          # DS9's own way of writing text regions ("# text(x,y) text={..}"), a blank after every comma
          dict(sep='\n', paren=True, upper=False, header=True, delim='{}', hashtext=True, commasp=True),
          dict(sep='\n', paren=True, upper=True, header=False, delim='""', hashtext=True)]


# comments are comments whatever their first word is (only the exact forms '# text(' / '# composite(' are region lines)
COMMENTS = ['# just a comment circle(1,2,3)', '# old: circle(1,2,3); circle(4,5,6)', '# text labels for the sources follow', '# composite of two fields', '# textual note', '#', '# text: see the catalogue',
            '# Region file format: DS9 version 4.1']
COMMENT = [0]
UNSUPPORTED_FRAMES = ['physical', 'wcs', 'detector', 'wcsa', 'linear', 'amplifier', 'wcs0', 'tile', 'wcsz']
UNSUP = [0]


def sexa(v, style):
    sign = '-' if v < 0 else ''
    t = abs(v)
    a, m, s = t // 3600000, (t % 3600000) // 60000, (t % 60000) / 1000.0
    if style == 'colon':
        return f'{sign}{a}:{m:02d}:{s:06.3f}'
    if style == 'hms':
        return f'{sign}{a}h{m}m{s:.3f}s'
    return f'{sign}{a}d{m}m{s:.3f}s'


def spelled(x, sp):
    """the decimal number x (integer-valued for the spellings other than 'fixed') in one of its spellings"""
    if sp == 'dot':
        return f'{int(x)}.'
    if sp == 'int':
        return f'{int(x)}'
    if sp == 'exp':
        return f'{x:.4e}'
    if sp == 'plus' and x >= 0:
        return f'+{x:.3f}'
    return f'{x:.3f}'


def tok(t):
    n, v = t['n'], t['v']
    if t.get('sp', 'fixed') != 'fixed':
        if v % 1000:
            raise ValueError('spellings are for integer values')
        return spelled(v / 1000, t['sp']) + {'plain': '', 'd': 'd', 'i': 'i', 'asec': '"', 'amin': "'"}[n]
    if n == 'plain':
        return f'{v / 1000:.3f}'
    if n == 'd':
        return f'{v / 1000:.3f}d'
    if n == 'i':
        return f'{v / 1000:.3f}i'
    if n == 'r':
        return f'{v / 1e6:.6f}r'
    if n in ('colon', 'hms', 'dms'):
        return sexa(v, n)
    if n == 'asec':
        return f'{v / 1000:.3f}"'
    if n == 'amin':
        return f"{v / 1000:.3f}'"
    raise ValueError(n)


def props(p, st):
    out = []
    up = st.get('upper', False)
    for k0 in sorted(p):
        if k0 == 'zz':
            continue
        v = p[k0]
        k = k0.upper() if up else k0          # keywords are case-insensitive, values are not
        if k0 == 'text':
            # the style's delimiter if the text does not contain it, else the first of {} "" '' that it does not contain
            for d in (st['delim'], '{}', '""', "''"):
                if d[0] not in v and d[1] not in v:
                    break
            else:
                raise ValueError(f'text {v!r} cannot be written with any DS9 delimiter')
            out.append(f'{k}={d[0]}{v}{d[1]}')
        elif k0 in ('tag', 'tag2'):
            out.append(f"{'TAG' if up else 'tag'}={{{v}}}")
        else:
            out.append(f'{k}={v}')
    return ' '.join(out)


def line(l, st):
    k = l['k']
    up = (lambda s: s.upper()) if st['upper'] else (lambda s: s)
    if k == 'frame':
        if l['name'] == 'physical':
            # every unsupported frame word stands for the same abstract line (warned about, clears the active frame)
            UNSUP[0] += 1
            return up(UNSUPPORTED_FRAMES[UNSUP[0] % len(UNSUPPORTED_FRAMES)])
        return up(l['name'])
    if k == 'global':
        return 'global ' + props(l['props'], st)
    if k == 'comment':
        COMMENT[0] += 1
        return COMMENTS[COMMENT[0] % len(COMMENTS)]
    if k == 'blank':
        return ''
    if k == 'badshape':
        return up('vector') + '(10,20,5,30)' + (' ||' if l.get('cont') else '') + (' # vector=1' if st['paren'] else '')
    if k == 'badword':
        return 'foobar(1,2,3)'
    if k == 'composite':
        return up('composite') + '(10,20,0) || composite=1 ' + props(l['props'], st)
    if k == 'region':
        toks = [tok(t) for t in l['toks']]
        comma = ', ' if st.get('commasp') else ','
        body = ('(' + comma.join(toks) + ')') if st['paren'] else (' ' + ' '.join(toks))
        if l['shape'] == 'text' and st.get('hashtext') and l['sign'] == '' and not l['cont']:
            # the form DS9 itself writes for text regions; the properties follow without a second '#'
            pr = props(l['props'], st)
            return '# ' + up('text') + body + ((' ' + pr) if pr else '')
        s = l['sign'] + up(l['shape']) + body
        if l['cont']:
            s += ' ||'
        pr = props(l['props'], st)
        if pr:
            s += ' # ' + pr
        if l['shape'] == 'text' and st['upper'] is False and st['paren'] and st['sep'] == '\n' and st['header']:
            pass
        return s
    raise ValueError(k)


def render(lines, st):
    # a comment occupies a whole physical line: it starts one and runs to its end
    body = ''
    for j, l in enumerate(lines):
        if j:
            body += '\n' if 'comment' in (lines[j - 1]['k'], l['k']) else st['sep']
        body += line(l, st)
    head = '# Region file format: DS9 version 4.1\n' if st['header'] else ''
    return head + body + '\n'


# ---------------------------------------------------------------------------------------------------------------
def value(v):
    """model [u, v] -> (kind, float) with kind 'deg' or 'pix'."""
    if v['u'] == 'mas':
        return 'deg', v['v'] / 3.6e6
    if v['u'] == 'urad':
        return 'deg', math.degrees(v['v'] / 1e6)
    if v['u'] == 'mpix':
        return 'pix', v['v'] / 1000.0
    return 'none', 0.0


CLS = {'circle': 'Circle', 'ellipse': 'Ellipse', 'rectangle': 'Rectangle', 'cannulus': 'CircleAnnulus', 'eannulus': 'EllipseAnnulus',
       'rannulus': 'RectangleAnnulus', 'polygon': 'Polygon', 'line': 'Line', 'point': 'Point', 'text': 'Text'}
SIZES = {'circle': ['radius'], 'ellipse': ['width', 'height'], 'rectangle': ['width', 'height'], 'cannulus': ['inner_radius', 'outer_radius'],
         'eannulus': ['inner_width', 'outer_width', 'inner_height', 'outer_height'], 'rannulus': ['inner_width', 'outer_width', 'inner_height', 'outer_height']}


def compare(model, real, rel=1e-9):
    """None if the real region is the one the model defines, else a (clause, description)."""
    from regions import PixelRegion
    ispix = isinstance(real, PixelRegion)
    want_cls = CLS[model['cls']] + ('PixelRegion' if model['frame'] == 'image' else 'SkyRegion')
    if type(real).__name__ != want_cls:
        return 'class', f'{type(real).__name__}, expected {want_cls}'
    # positions
    if model['cls'] == 'polygon':
        co = real.vertices
        xs, ys = (np.atleast_1d(co.x), np.atleast_1d(co.y)) if ispix else (co.spherical.lon.deg, co.spherical.lat.deg)
        got = [v for pair in zip(xs, ys) for v in pair]
    elif model['cls'] == 'line':
        got = []
        for co in (real.start, real.end):
            got += [co.x, co.y] if ispix else [co.spherical.lon.deg, co.spherical.lat.deg]
    else:
        co = real.center
        got = [co.x, co.y] if ispix else [co.spherical.lon.deg, co.spherical.lat.deg]
    if not ispix:
        fr = (real.vertices if model['cls'] == 'polygon' else real.start if model['cls'] == 'line' else real.center).frame.name
        if fr != model['frame']:
            return 'frame', f'{fr}, expected {model["frame"]}'
    if len(got) != len(model['pos']):
        return 'positions', f'{len(got)} coordinates, expected {len(model["pos"])}'
    for i, (g, m) in enumerate(zip(got, model['pos'])):
        kind, w = value(m)
        if kind == 'deg' and i % 2 == 0:
            d = abs(((float(g) - w + 180.0) % 360.0) - 180.0)
        else:
            d = abs(float(g) - w)
        if d > rel * max(1.0, abs(w)):
            return f'position[{i}]', f'{float(g)!r}, the format defines {w!r} ({kind})'
    for name, m in zip(SIZES.get(model['cls'], []), model['sizes']):
        kind, w = value(m)
        g = getattr(real, name)
        g = float(g) if ispix else float(g.to_value('deg'))
        if abs(g - w) > rel * abs(w):
            return f'size:{name}', f'{g!r}, the format defines {w!r} ({kind})'
    if model['ang']['u'] != 'none':
        kind, w = value(model['ang'])
        g = float(real.angle.to_value('deg'))
        if abs(g - w) > 1e-9 * max(1.0, abs(w)):
            return 'angle', f'{g!r} deg, the format defines {w!r} deg'
    p = model['props']
    inc = real.meta.get('include', 'absent')
    if inc not in (0, 1) or int(inc) != int(p['include']):
        return 'include', f'meta include={inc!r}, expected {p["include"]}'
    if 'text' in p:
        g = real.text if model['cls'] == 'text' else real.meta.get('text')
        if g != p['text']:
            return 'text', f'{g!r}, expected {p["text"]!r}'
    want_tags = [p[k] for k in ('tag', 'tag2') if k in p]
    if want_tags and real.meta.get('tag') != want_tags:
        return 'tag', f'{real.meta.get("tag")!r}, expected {want_tags!r}'
    g = real.visual.get('edgecolor', real.visual.get('color'))
    if g != p.get('color'):
        return 'color', f'{g!r}, expected {p.get("color")!r} (precedence global < composite < inline; composite properties end with the composite)'
    if 'text' not in p and (real.meta.get('text') is not None):
        return 'text', f'unexpected text {real.meta.get("text")!r}'
    if 'tag' not in p and real.meta.get('tag') is not None:
        return 'tag', f'unexpected tag {real.meta.get("tag")!r}'
    if 'width' in p and model['cls'] not in ('point', 'text'):
        if real.visual.get('linewidth') != int(p['width']):
            return 'width', f'{real.visual.get("linewidth")!r}, expected {p["width"]}'
    return None


# ---------------------------------------------------------------------------------------------------------------
# an independent tokenizer for text produced by the writer (line kinds and key=value pairs only)
FRAMEWORDS = {'image', 'icrs', 'fk5', 'j2000', 'fk4', 'b1950', 'galactic', 'ecliptic', 'physical'}


def _props(s):
    out = {}
    i, n = 0, len(s)
    while i < n:
        while i < n and s[i] == ' ':
            i += 1
        j = s.find('=', i)
        if j < 0:
            break
        key = s[i:j].strip()
        i = j + 1
        if i < n and s[i] in '{"\'':
            close = {'{': '}', '"': '"', "'": "'"}[s[i]]
            e = s.find(close, i + 1)
            val = s[i + 1:e]
            i = e + 1
        else:
            e = s.find(' ', i)
            e = n if e < 0 else e
            val = s[i:e]
            i = e
        if key == 'tag':
            out.setdefault('tag', []).append(val)
        else:
            out[key] = val
    return out


def tokenize(text):
    """-> list of abstract lines: frame / global / region (shape, numbers as strings, props)."""
    lines = []
    for raw in text.split('\n'):
        raw = raw.strip()
        if not raw or raw.startswith('#'):
            continue
        if raw.startswith('global '):
            lines.append({'k': 'global', 'props': _props(raw[7:])})
            continue
        parts = raw.split(';', 1) if (raw.split(';', 1)[0].strip() in FRAMEWORDS and ';' in raw) else [raw]
        if len(parts) == 2:
            lines.append({'k': 'frame', 'name': parts[0].strip()})
            raw = parts[1].strip()
        if raw in FRAMEWORDS:
            lines.append({'k': 'frame', 'name': raw})
            continue
        body, _, meta = raw.partition(' # ')
        shape, _, rest = body.partition('(')
        nums = rest.rstrip(') ').split(',')
        lines.append({'k': 'region', 'shape': shape.strip(), 'nums': [x.strip() for x in nums], 'props': _props(meta)})
    return lines
