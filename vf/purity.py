"""Pool of real objects, library operations and deep fingerprints for C13 (binding of Purity.tla).

Also runnable as a child process:  python -m vf.purity <json>  performs the last library operation of a
history first in a fresh interpreter and prints the projected result."""
import hashlib
import io
import json
import os
import sys
import tempfile

import numpy as np

CATS = ['pix', 'ann', 'cmp', 'sky', 'lst', 'skyann']
FORMATS = ['ds9', 'crtf', 'fits']


def h(b):
    return hashlib.sha1(b if isinstance(b, bytes) else str(b).encode()).hexdigest()[:16]


def fp(v, depth=0):
    """Deterministic, process-independent deep fingerprint."""
    from astropy.coordinates import SkyCoord
    from astropy.table import Table
    from astropy.units import Quantity
    from regions import PixCoord, RegionBoundingBox, RegionMask, Regions
    from regions.core.core import Region
    if v is None or isinstance(v, (bool, int, str)):
        return repr(v)
    if isinstance(v, float):
        return v.hex() if v == v and abs(v) != float('inf') else repr(v)
    if isinstance(v, np.generic):
        return fp(v.item())
    if isinstance(v, Quantity):
        return ('Q', str(v.unit), fp(np.asarray(v.value)))
    if isinstance(v, np.ndarray):
        return ('arr', str(v.dtype), v.shape, h(np.ascontiguousarray(v).tobytes()))
    if isinstance(v, PixCoord):
        return ('PixCoord', fp(np.asarray(v.x)), fp(np.asarray(v.y)))
    if isinstance(v, SkyCoord):
        return ('SkyCoord', v.frame.name, fp(np.asarray(v.spherical.lon.deg)), fp(np.asarray(v.spherical.lat.deg)))
    if isinstance(v, Region):
        out = [type(v).__name__]
        for p in v._params or ():
            a = getattr(v, p)
            out.append((p, a.__name__ if callable(a) and hasattr(a, '__name__') else fp(a, depth + 1)))
        out.append(('meta', type(v.meta).__name__, sorted((str(k), fp(x)) for k, x in dict(v.meta).items())))
        out.append(('visual', type(v.visual).__name__, sorted((str(k), fp(x)) for k, x in dict(v.visual).items())))
        return tuple(out)
    if isinstance(v, Regions):
        return ('Regions', tuple(fp(r, depth + 1) for r in v.regions))
    if isinstance(v, RegionBoundingBox):
        return ('bbox', v.ixmin, v.ixmax, v.iymin, v.iymax)
    if isinstance(v, RegionMask):
        return ('mask', fp(v.bbox), fp(np.asarray(v.data)))
    if isinstance(v, Table):
        return ('table', tuple(v.colnames), tuple(fp(np.asarray(v[c])) if v[c].dtype.kind != 'O' else repr(list(v[c])) for c in v.colnames),
                repr(sorted((k, str(x)) for k, x in v.meta.items())))
    if isinstance(v, dict):
        return ('dict', tuple(sorted((str(k), fp(x, depth + 1)) for k, x in v.items())))
    if isinstance(v, (list, tuple)):
        return (type(v).__name__, tuple(fp(x, depth + 1) for x in v))
    if isinstance(v, BaseException):
        return ('exc', type(v).__name__)
    if type(v).__module__.startswith('matplotlib'):
        return fp_artist(v)
    return ('obj', type(v).__name__)


def fp_artist(a):
    out = [type(a).__name__]
    try:
        if hasattr(a, 'get_path'):
            p = a.get_patch_transform().transform_path(a.get_path()) if hasattr(a, 'get_patch_transform') else a.get_path()
            out.append(fp(np.asarray(p.vertices)))
        if hasattr(a, 'get_xydata'):
            out.append(fp(np.asarray(a.get_xydata())))
        if hasattr(a, 'get_position'):
            out.append(repr(tuple(float(x) for x in a.get_position())))
        for g in ('get_edgecolor', 'get_linewidth', 'get_color', 'get_text', 'get_alpha', 'get_zorder', 'get_markeredgecolor', 'get_fill'):
            if hasattr(a, g):
                out.append((g, repr(getattr(a, g)())))
    except Exception as ex:  # noqa
        out.append(('exc', type(ex).__name__))
    return tuple(out)


def module_state():
    """Fingerprint of module-level containers of the package (registry, parser tables, templates)."""
    out = []
    for name in sorted(sys.modules):
        if not name.startswith('regions.') or '.tests' in name:
            continue
        if name == 'regions._utils.verif':
            continue            # the event buffer of our own guarded tracing hooks is not library state
        mod = sys.modules[name]
        if mod is None:
            continue
        for k, v in sorted(vars(mod).items()):
            if k.startswith('__'):
                continue
            if isinstance(v, (dict, list, set, frozenset, tuple)):
                try:
                    r = repr(sorted(v.items(), key=repr)) if isinstance(v, dict) else repr(sorted(v, key=repr)) if isinstance(v, (set, frozenset)) else repr(v)
                except Exception:
                    r = 'unrepr'
                out.append((name, k, h(r)))
            elif isinstance(v, type) and getattr(v, '__module__', '') == name:
                # class-level containers (parser tables, templates) of the classes the module defines
                for ck, cv in sorted(vars(v).items()):
                    if ck.startswith('__') or not isinstance(cv, (dict, list, set, frozenset, tuple)):
                        continue
                    try:
                        r = repr(sorted(cv.items(), key=repr)) if isinstance(cv, dict) else repr(sorted(cv, key=repr)) if isinstance(cv, (set, frozenset)) else repr(cv)
                    except Exception:
                        r = 'unrepr'
                    out.append((name, f'{k}.{ck}', h(r)))
    from regions.core.registry import RegionsRegistry
    out.append(('registry', repr(sorted(map(repr, RegionsRegistry.registry.keys())))))
    return tuple(out)


class Pool:
    def __init__(self, seed):
        import random

        import astropy.units as u
        from astropy.coordinates import SkyCoord

        import regions as R
        from regions import PixCoord, RegionMeta, RegionVisual

        from . import wcsutil
        rnd = random.Random(seed)
        self.rnd = rnd
        self.shared_dir = os.path.join(os.environ.get('VERIF_WORK') or os.path.join(os.path.dirname(os.path.dirname(os.path.abspath(__file__))), '.work'), f'c13shared_{os.getpid()}')
        self.wcs = wcsutil.make_wcs(rnd.choice([1e-3, 2e-4]), rnd.choice([(1, 0, 1), (3, 4, 5), (-12, 5, 13)]), 1,
                                    rnd.choice(['icrs', 'fk5', 'galactic']), rnd.choice(['TAN', 'SIN']), (40.0, 30.0), (10.0, 10.0))
        self.image = np.arange(30 * 40, dtype=float).reshape(30, 40)
        self.pix = PixCoord(np.linspace(-5, 30, 36).reshape(6, 6), np.linspace(0, 25, 36).reshape(6, 6))
        self.skyc = self.wcs.pixel_to_world(self.pix.x.ravel(), self.pix.y.ravel())
        # the same kind of query with integer-typed coordinates (unsigned and signed): the caller's object keeps its arrays AND their types
        self.pix_u = PixCoord(np.arange(4, 28, dtype=np.uint16).reshape(4, 6), (np.arange(24, dtype=np.uint16).reshape(4, 6) * 7) % 23)
        self.pix_i = PixCoord(np.arange(-3, 21, dtype=np.int32), (np.arange(24, dtype=np.int32) * 5) % 19)
        # options a caller keeps: a FITS header handed to the writer
        from astropy.io import fits
        self.header = fits.Header([('OBSERVER', 'verif'), ('OBJECT', 'M 31')])

        def mv():
            m = RegionMeta({'label': rnd.choice(['a b', 'x']), 'tag': rnd.choice([[], ['t1'], ['t2', 't1'], ['zz', 'group a', 'b1']])}) if rnd.random() < 0.7 else RegionMeta()
            if rnd.random() < 0.4:
                m['include'] = rnd.choice([True, False, 1, 0])
            v = RegionVisual({'color': rnd.choice(['red', 'blue']), 'linewidth': 2}) if rnd.random() < 0.7 else RegionVisual()
            return {'meta': m, 'visual': v}
        c = lambda: PixCoord(rnd.randint(5, 25) / 2 + 5, rnd.randint(5, 25) / 2)  # noqa
        from astropy.coordinates import Angle
        # angles are handed over in several units and as Angle objects (an operation may not convert them in place)
        ang = lambda: rnd.choice([lambda v: v * u.deg, lambda v: (v * u.deg).to(u.rad), lambda v: (v * u.deg).to(u.arcmin),  # noqa
                                  lambda v: Angle(v, 'deg'), lambda v: v * u.deg])(rnd.choice([0, 30, 36.87, -70]))
        sc = lambda: self.wcs.pixel_to_world(rnd.uniform(5, 25), rnd.uniform(5, 20))  # noqa
        sz = lambda: rnd.choice([3, 7.5, 12]) * u.arcsec  # noqa
        pixmakers = [
            lambda: R.CirclePixelRegion(c(), rnd.choice([2, 3.5]), **mv()),
            lambda: R.EllipsePixelRegion(c(), 6, 3, angle=ang(), **mv()),
            lambda: R.RectanglePixelRegion(c(), 5, 2.5, angle=ang(), **mv()),
            lambda: R.PolygonPixelRegion(PixCoord([8.0, 14, 11, 9], [3.0, 4, 9, 7]), **mv()),
            lambda: R.RegularPolygonPixelRegion(c(), 5, 4, angle=ang(), **mv()),
            lambda: R.PointPixelRegion(c(), **mv()),
            lambda: R.LinePixelRegion(c(), c(), **mv()),
            lambda: R.TextPixelRegion(c(), 'some text', meta=mv()['meta'], visual=RegionVisual({'rotation': 30.0, 'color': 'blue'})),
        ]
        annmakers = [
            lambda: R.CircleAnnulusPixelRegion(c(), 2, 4.5, **mv()),
            lambda: R.EllipseAnnulusPixelRegion(c(), 2, 5, 1.5, 4, angle=ang(), **mv()),
            lambda: R.RectangleAnnulusPixelRegion(c(), 2, 5, 1.5, 4, angle=ang(), **mv()),
        ]
        skymakers = [
            lambda: R.CircleSkyRegion(sc(), sz(), **mv()),
            lambda: (lambda s: R.EllipseSkyRegion(sc(), 2 * s, s, angle=ang(), **mv()))(sz()),
            lambda: (lambda s: R.RectangleSkyRegion(sc(), 2 * s, s, angle=ang(), **mv()))(sz()),
            lambda: R.PolygonSkyRegion(self.wcs.pixel_to_world(np.array([8.0, 14, 11]), np.array([3.0, 4, 9])), **mv()),
            lambda: R.PointSkyRegion(sc(), **mv()),
            lambda: R.LineSkyRegion(sc(), sc(), **mv()),
            lambda: R.TextSkyRegion(sc(), 'sky text', meta=mv()['meta'], visual=RegionVisual({'rotation': 30.0, 'color': 'blue'})),
        ]
        skyann = [
            lambda s=None: (lambda s: R.CircleAnnulusSkyRegion(sc(), s, 2 * s, **mv()))(sz()),
            lambda s=None: (lambda s: R.EllipseAnnulusSkyRegion(sc(), s, 3 * s, 0.5 * s, 2 * s, angle=ang(), **mv()))(sz()),
            lambda s=None: (lambda s: R.RectangleAnnulusSkyRegion(sc(), s, 3 * s, 0.5 * s, 2 * s, angle=ang(), **mv()))(sz()),
        ]
        self.objs = {}
        self.objs['pix'] = rnd.choice(pixmakers)()
        self.objs['ann'] = rnd.choice(annmakers)()
        a, b = rnd.choice(pixmakers[:5])(), rnd.choice(pixmakers[:5])()
        self.parts = [a, b]
        self.objs['cmp'] = {0: a & b, 1: a | b, 2: a ^ b}[rnd.randint(0, 2)]
        self.objs['sky'] = rnd.choice(skymakers)()
        self.objs['skyann'] = rnd.choice(skyann)()
        members = [rnd.choice(pixmakers)() for _ in range(rnd.randint(1, 3))] + [rnd.choice(skymakers + skyann)() for _ in range(rnd.randint(0, 2))]
        if rnd.random() < 0.5:
            members = [m for m in members if isinstance(m, R.PixelRegion)] or [pixmakers[0]()]
        # regions as a DS9 file without any property gives them (style 'ds9', nothing else in visual), and a text region built by hand with
        # empty visual: the defaults they are drawn / written with belong to nobody
        import warnings
        with warnings.catch_warnings():
            warnings.simplefilter('ignore')
            members += list(R.Regions.parse('image\ncircle(10,12,3)\npoint(4,5)\nline(1,2,8,9)\ntext(6,7) # text={t}\n', format='ds9'))[:rnd.randint(2, 4)]
        members.append(R.TextPixelRegion(PixCoord(7.0, 8.0), 'plain', meta=RegionMeta({'label': 'lbl'})))
        rnd.shuffle(members)
        self.objs['lst'] = R.Regions(members)
        # argument objects the caller keeps and passes again: they are inputs too
        self.rot_angle = rnd.choice([20, 33.5]) * u.deg
        self.rot_center = PixCoord(3.0, 4.0)
        self.other_pix = pixmakers[0]()
        self.other_sky = skymakers[0]()
        self.tmp = None
        self.masks = {}
        from astropy.table import QTable
        tbl = QTable()
        tbl['SHAPE'] = ['CIRCLE', '!Box   ', 'Ellipse']
        tbl['X'] = [[10.0, 0], [20.0, 0], [30.5, 0]] * u.pix
        tbl['Y'] = [[12.0, 0], [22.0, 0], [32.5, 0]] * u.pix
        tbl['R'] = [[4.0, 0], [6.0, 3.0], [5.0, 2.0]] * u.pix
        tbl['ROTANG'] = [0.0, 30.0, 45.0] * u.deg
        self.foreign = {
            'crtf_ellipse': '#CRTFv0\nellipse[[10deg, 20deg], [3arcsec, 2arcsec], 30deg], coord=J2000\nrotbox[[10deg, 20deg], [3arcsec, 2arcsec], 10deg]\n',
            'crtf_noangle': '#CRTFv0\nellipse[[10deg, 20deg], [3arcsec, 2arcsec]], coord=J2000\n',
            'crtf_rotbox_noangle': '#CRTFv0\nrotbox[[10deg, 20deg], [3arcsec, 2arcsec]]\n',
            'crtf_two_globals': '#CRTFv0\nglobal coord=GALACTIC, color=blue\nglobal linewidth=2\ncircle[[10deg, 20deg], 3arcsec]\n',
            'ds9_upper': 'IMAGE\nCIRCLE(1,2,3) # TEXT={a; b} TAG={t1} TAG={group 2}\nvector(1,2,3,4)\nbox(1,2,3,4,5)\n',
            'ds9_multi': 'fk5;annulus(1,2,1",2",3");ellipse(1,2,1",2",2",4",30)\nphysical;circle(1,2,3)\n',
            'fits_table': tbl,
        }

    def wcs_behaviour(self):
        """What the caller's WCS object does, not only what its header says: images of fixed sky positions, among them positions on the far
        side of the sphere (outside the domain of the projection: NaN as long as the object checks its bounds)."""
        ra0, dec0 = (float(v) for v in self.wcs.wcs.crval)
        world = np.array([[ra0, dec0], [ra0 + 0.01, dec0 - 0.01], [ra0 + 180.0, -dec0], [ra0 + 130.0, dec0 / 2]])
        try:
            pixv = self.wcs.wcs.s2p(world, 0)['pixcrd']
        except Exception as ex:  # noqa
            return 'raised ' + type(ex).__name__
        return repr(np.round(pixv, 6).tolist())

    def fingerprint(self):
        return (tuple((k, fp(v)) for k, v in sorted(self.objs.items())), fp(self.parts), fp(self.other_pix), fp(self.other_sky),
                fp(self.image), fp(self.pix), fp(self.skyc), h(self.wcs.to_header_string()), self.wcs_behaviour(), fp(self.rot_angle), fp(self.rot_center), fp(self.foreign['fits_table']),
                fp(self.pix_u), fp(self.pix_i), self.header.tostring(sep='|'))

    # ---- operations -------------------------------------------------------------------------------
    def mutate(self, o):
        """The user changes an object between calls: a meta/visual entry and one geometric parameter."""
        import astropy.units as u
        obj = self.objs[o]
        self.masks.clear()            # a mask is a snapshot of the region it was made from
        if o == 'lst':
            obj = obj.regions[0]
        obj.meta['label'] = 'changed by user'
        obj.visual['color'] = 'green'
        if o == 'cmp':
            obj = obj.region1
        if hasattr(obj, 'angle'):
            obj.angle = obj.angle + 25 * u.deg
        elif hasattr(obj, 'radius'):
            obj.radius = obj.radius * 1.5
        elif hasattr(obj, 'outer_radius'):
            obj.outer_radius = obj.outer_radius * 1.5
        elif hasattr(obj, 'center') and hasattr(obj.center, 'x'):
            from regions import PixCoord
            obj.center = PixCoord(obj.center.x + 1.5, obj.center.y - 0.5)

    def rebuilt(self, o):
        """An equal object constructed afresh from the current parameter values (no hidden state can survive this)."""
        from regions import Regions
        obj = self.objs[o]
        if isinstance(obj, Regions):
            return Regions([rebuild(r) for r in obj.regions])
        return rebuild(obj)

    def run(self, op, o, k):
        """Perform library operation `op` on pool object `o` (k = position in the history, selects variants)."""
        import astropy.units as u

        import regions as R
        from regions import PixCoord, Regions
        obj = self.objs[o]
        is_list = isinstance(obj, Regions)
        regs = list(obj.regions) if is_list else [obj]

        def each(f):
            out = []
            for r in regs:
                try:
                    out.append(f(r))
                except (NotImplementedError, ValueError, TypeError, AttributeError, KeyError) as ex:
                    out.append(ex)
            return out
        ispix = lambda r: isinstance(r, R.PixelRegion)  # noqa
        if op == 'contains':
            q = [self.pix, self.pix_u, self.pix_i][k % 3]
            return each(lambda r: r.contains(q) if ispix(r) else r.contains(self.skyc, self.wcs))
        if op == 'to_mask':
            mode, sub = [('center', 1), ('subpixels', 3), ('exact', 1)][k % 3]
            return each(lambda r: (r if ispix(r) else r.to_pixel(self.wcs)).to_mask(mode=mode, subpixels=sub))
        if op == 'area':
            return each(lambda r: r.area if ispix(r) else r.to_pixel(self.wcs).area)
        if op == 'bounding_box':
            return each(lambda r: r.bounding_box if ispix(r) else r.to_pixel(self.wcs).bounding_box)
        if op == 'convert':
            return each(lambda r: r.to_sky(self.wcs) if ispix(r) else r.to_pixel(self.wcs))
        if op == 'rotate':
            return each(lambda r: (r if ispix(r) else r.to_pixel(self.wcs)).rotate(self.rot_center, self.rot_angle))
        if op == 'copy':
            return obj.copy() if is_list else each(lambda r: r.copy())
        if op == 'combine':
            return each(lambda r: [r & (self.other_pix if ispix(r) else self.other_sky), r | (self.other_pix if ispix(r) else self.other_sky),
                                   r ^ (self.other_pix if ispix(r) else self.other_sky)])
        if op == 'as_artist':
            if k == 1:
                # with keywords of the caller's own: they belong to this call only
                return each(lambda r: (r if ispix(r) else r.to_pixel(self.wcs)).as_artist(origin=(1, 2), alpha=0.25, zorder=9))
            return each(lambda r: (r if ispix(r) else r.to_pixel(self.wcs)).as_artist(origin=(1, 2)))
        if op.startswith('serialize_'):
            fmt = op.split('_')[1]
            return self._ser(obj, fmt, k)
        if op == 'write':
            fmt = FORMATS[k % 3]
            d = tempfile.mkdtemp(prefix='c13', dir=os.environ.get('VERIF_WORK', None))
            path = os.path.join(d, 'out.' + {'ds9': 'reg', 'crtf': 'crtf', 'fits': 'fits'}[fmt])
            try:
                try:
                    if fmt == 'fits' and CATS.index(o) % 2 == 0:
                        obj.write(path, format=fmt, overwrite=True, header=self.header)      # the caller's own header object
                    else:
                        obj.write(path, format=fmt, overwrite=True)
                    with open(path, 'rb') as f:
                        data = f.read()
                    if fmt == 'fits':      # the header carries no date, but compare the parsed table instead of bytes
                        from astropy.table import Table
                        return fp(Table.read(path))
                    return data.decode()
                except (ValueError, TypeError, KeyError, AttributeError) as ex:
                    return ex
            finally:
                import shutil
                shutil.rmtree(d, ignore_errors=True)
        if op == 'reread':
            # written under ONE name that every such call re-uses (the extension names no format, the format is given on writing and
            # found from the content on reading): what comes back depends on what the file holds now, not on what it held before
            fmt = FORMATS[k % 3]
            os.makedirs(self.shared_dir, exist_ok=True)
            path = os.path.join(self.shared_dir, 'regions.dat')
            import warnings
            try:
                with warnings.catch_warnings():
                    warnings.simplefilter('ignore')
                    obj.write(path, format=fmt, overwrite=True)
                    return [fmt, Regions.read(path)]
            except (ValueError, TypeError, KeyError, AttributeError, OSError) as ex:
                return ex
        if op == 'parse':
            fmt = FORMATS[k % 3]
            ser = self._ser(obj, fmt, k)
            if isinstance(ser, BaseException):
                return ser
            try:
                return Regions.parse(ser, format=fmt)
            except (ValueError, TypeError, KeyError, AttributeError) as ex:
                return ex
        if op == 'parse_foreign':
            # text / tables that did not come from this package's writers: unusual but legal forms, and forms the reader refuses.
            # Whatever the answer is (regions or an exception), it may depend on nothing but the input, and the input stays as it was.
            name = sorted(self.foreign)[(CATS.index(o) + k) % len(self.foreign)]
            src = self.foreign[name]
            fmt = name.split('_')[0]
            import warnings
            try:
                with warnings.catch_warnings():
                    warnings.simplefilter('ignore')
                    return [name, Regions.parse(src, format=fmt)]
            except Exception as ex:  # noqa
                return [name, ex]
        if op == 'slice':
            lst = obj if is_list else Regions([obj])
            return [lst[0:2], lst[::-1], lst[0], len(lst)]
        if op == 'mask_apply':
            # the RegionMask of a region is kept and used again by later calls (until the user edits the region): applying it
            # - with or without a user mask of bad pixels - may leave nothing behind in it
            um = (np.add.outer(np.arange(self.image.shape[0]), np.arange(self.image.shape[1])) % 3 == 0)

            def app(r):
                key = id(r)
                ent = self.masks.get(key)
                if ent is None or ent[0] is not r:
                    ent = self.masks[key] = (r, (r if ispix(r) else r.to_pixel(self.wcs)).to_mask(mode=['center', 'exact', 'subpixels'][len(type(r).__name__) % 3]      # fixed per class: the mask outlives this call
                                                                                                 if type(r).__name__.startswith(('Circle', 'Ellipse')) and 'Annulus' not in type(r).__name__
                                                                                                 else 'center'))
                m = ent[1]
                return [m.multiply(self.image), m.cutout(self.image), m.get_values(self.image, mask=um), m.to_image(self.image.shape), m.get_values(self.image),
                        m.to_image(self.image.shape, dtype=int)]
            return each(app)
        raise AssertionError(op)

    def _ser(self, obj, fmt, k):
        import warnings
        try:
            with warnings.catch_warnings():
                warnings.simplefilter('ignore')
                if fmt == 'ds9':
                    return obj.serialize(format='ds9', precision=[8, 3, 5][k % 3])
                if fmt == 'crtf':
                    return obj.serialize(format='crtf', radunit=['deg', 'arcsec', 'arcmin'][k % 3], fmt=['.6f', '.6f', '.3f', '.8f'][k % 4])
                return obj.serialize(format='fits')
        except (ValueError, TypeError, KeyError, AttributeError) as ex:
            return ex


def rebuild(r):
    from regions.core.compound import CompoundPixelRegion, CompoundSkyRegion
    if isinstance(r, (CompoundPixelRegion, CompoundSkyRegion)):
        r1 = rebuild(r.region1)
        shared = r.meta is r.region1.meta
        return type(r)(r1, rebuild(r.region2), r.operator, meta=r1.meta if shared else r.meta.copy(),
                       visual=r1.visual if r.visual is r.region1.visual else r.visual.copy())
    return type(r)(**{p: getattr(r, p) for p in r._params}, meta=r.meta.copy(), visual=r.visual.copy())


def child_main(arg):
    req = json.loads(arg)
    sys.path.insert(0, os.environ.get('VERIF_REPO', '/repo'))
    os.environ.setdefault('MPLBACKEND', 'Agg')
    import warnings
    warnings.simplefilter('ignore')
    pool = Pool(req['pool_seed'])
    for o in req['mutated']:
        pool.mutate(o)
    try:
        res = pool.run(req['op'], req['obj'], req['k'])
        print('RESULT ' + h(repr(fp(res))) + ' ' + repr(fp(res))[:300])
    except Exception as ex:  # noqa: an exception is a result like any other for C13
        print('RESULT raised ' + type(ex).__name__)


if __name__ == '__main__':
    child_main(sys.argv[1])
