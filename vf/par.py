"""Fork-based parallel replay: the items (model states, cases) are split over worker processes; each worker
runs `fn(rec, item)` against a recording context whose calls (case / violation / sample / bump) are played
back onto the real Ctx in the parent, in item order, so verdicts, evidence counts and known-finding matching
are exactly those of a sequential run."""
import multiprocessing as mp
import os
import traceback

from .ctx import _jsonable


class Recorder:
    def __init__(self, ctx):
        self.pid, self.tier, self.seed = ctx.pid, ctx.tier, ctx.seed
        self.calls = []
        self.traces = 0
        self.evaluations = 0
        self.dontcare = 0
        self._samples = 0
        self._sig = {}

    def case(self, key=None, nontrivial=True, n=1):
        if nontrivial and key is not None and not isinstance(key, (str, int, tuple)):
            import json
            key = json.dumps(_jsonable(key), sort_keys=True)
        self.calls.append(('case', key, nontrivial, n))

    def sample(self, s, cap=6):
        if self._samples < cap:
            self._samples += 1
            self.calls.append(('sample', _jsonable(s), cap))

    def note(self, k, v):
        self.calls.append(('note', k, _jsonable(v)))

    def bump(self, k, n=1):
        self.calls.append(('bump', k, n))

    def emit(self, obj):
        """Hand an arbitrary (picklable) object back to the parent: collected in ctx.emitted, in item order."""
        self.calls.append(('emit', obj))

    def violation(self, sig, what, case):
        # keep the payload small: after a few of a signature only the signature travels
        self._sig[sig] = self._sig.get(sig, 0) + 1
        self.calls.append(('violation', sig, what, _jsonable(case) if self._sig[sig] <= 3 else {'omitted': 'same signature'}))
        return True


def _work(args):
    fn, ctxinfo, chunk, base = args
    rec = Recorder(ctxinfo)
    try:
        for k, item in enumerate(chunk):
            fn(rec, item, base + k)
    except Exception:  # noqa
        return ('error', traceback.format_exc())
    return ('ok', rec.calls, rec.traces, rec.dontcare)


class _Info:
    def __init__(self, ctx):
        self.pid, self.tier, self.seed = ctx.pid, ctx.tier, ctx.seed


def pmap(ctx, fn, items, nproc=None, chunk=400):
    """fn(ctx_like, item, index) for every item; returns the number of items processed."""
    items = list(items)
    nproc = nproc or min(14, os.cpu_count() or 4)
    if len(items) < 2 * chunk or nproc <= 1:
        for k, it in enumerate(items):
            fn(ctx, it, k)
        return len(items)
    jobs = [(fn, _Info(ctx), items[a:a + chunk], a) for a in range(0, len(items), chunk)]
    with mp.get_context('fork').Pool(nproc) as pool:
        for res in pool.imap(_work, jobs):
            if res[0] == 'error':
                raise RuntimeError('worker failed:\n' + res[1])
            _, calls, traces, dontcare = res
            ctx.traces += traces
            ctx.dontcare += dontcare
            for c in calls:
                if c[0] == 'case':
                    ctx.case(c[1], c[2], c[3])
                elif c[0] == 'sample':
                    ctx.sample(c[1], c[2])
                elif c[0] == 'note':
                    ctx.note(c[1], c[2])
                elif c[0] == 'bump':
                    ctx.bump(c[1], c[2])
                elif c[0] == 'violation':
                    ctx.violation(c[1], c[2], c[3])
    return len(items)


# ---------------------------------------------------------------------------------------------------------------
_DUMP = {}


def _work_dump(args):
    fn, ctxinfo, a, b = args
    from .tlaparse import parse_state_block
    rec = Recorder(ctxinfo)
    text, spans = _DUMP['text'], _DUMP['spans']
    try:
        for j in range(a, b):
            s, e = spans[j]
            fn(rec, parse_state_block(text[s:e]), j)
    except Exception:  # noqa
        return ('error', traceback.format_exc())
    return ('ok', rec.calls, rec.traces, rec.dontcare)


def _merge(ctx, res):
    if res[0] == 'error':
        raise RuntimeError('worker failed:\n' + res[1])
    _, calls, traces, dontcare = res
    ctx.traces += traces
    ctx.dontcare += dontcare
    for c in calls:
        if c[0] == 'case':
            ctx.case(c[1], c[2], c[3])
        elif c[0] == 'sample':
            ctx.sample(c[1], c[2])
        elif c[0] == 'note':
            ctx.note(c[1], c[2])
        elif c[0] == 'bump':
            ctx.bump(c[1], c[2])
        elif c[0] == 'violation':
            ctx.violation(c[1], c[2], c[3])
        elif c[0] == 'emit':
            if not hasattr(ctx, 'emitted'):
                ctx.emitted = []
            ctx.emitted.append(c[1])


def pmap_dump(ctx, fn, path, only=None, stride=1, nproc=None, chunk=500):
    """fn(ctx_like, state, index) for every state of a TLC dump whose block contains `only` (every stride-th of
    them).  The dump text is read once in the parent and shared with the forked workers, which also do the
    parsing.  Returns the number of states handed to fn."""
    from .tlaparse import _STATE_HDR
    with open(path) as f:
        text = f.read()
    hdrs = [(mo.end(), mo.start()) for mo in _STATE_HDR.finditer(text)]
    spans = []
    for j, (s, _) in enumerate(hdrs):
        e = hdrs[j + 1][1] if j + 1 < len(hdrs) else len(text)
        if only is None or text.find(only, s, e) >= 0:
            spans.append((s, e))
    spans = spans[::stride]
    _DUMP['text'], _DUMP['spans'] = text, spans
    nproc = nproc or min(14, os.cpu_count() or 4)
    try:
        if len(spans) < 2 * chunk or nproc <= 1:
            _merge(ctx, _work_dump((fn, _Info(ctx), 0, len(spans))))
        else:
            jobs = [(fn, _Info(ctx), a, min(a + chunk, len(spans))) for a in range(0, len(spans), chunk)]
            with mp.get_context('fork').Pool(nproc) as pool:
                for res in pool.imap(_work_dump, jobs):
                    _merge(ctx, res)
    finally:
        _DUMP.clear()
    return len(spans)
