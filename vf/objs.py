"""Binding of Objects.tla to real region objects: token catalogue, materialisation of a model state,
execution of a model action, projection of the real post-state."""
import operator

import numpy as np


def catalogue():
    import astropy.units as u
    from astropy.coordinates import Angle, SkyCoord
    from regions import (CirclePixelRegion, CircleSkyRegion, PixCoord, RectanglePixelRegion, RectangleSkyRegion)
    sA = SkyCoord(10.0, 20.0, unit='deg', frame='icrs')
    sB = SkyCoord(30.0, -5.0, unit='deg', frame='galactic')
    return {
        'f1_5': 1.5, 'i2': 2, 'f3_5': 3.5, 'i3': 3, 'npf2_5': np.float64(2.5), 'f4': 4.0, 'i5': 5,
        'zero': 0, 'neg': -2.0, 'nan': float('nan'), 'inf': float('inf'), 'str': 'abc', 'none': None,
        'list': [1.0, 2.0], 'arr0d': np.array(2.0), 'arr1d': np.array([1.0, 2.0]),
        'qpix': 2 * u.pix, 'qm': 1 * u.m, 'qdimless': u.Quantity(0.5), 'qpercent': 3 * u.percent,
        'pA': PixCoord(1, 2), 'pB': PixCoord(3.5, -1.0), 'pAc': PixCoord(1 + 1e-7, 2), 'pAf': PixCoord(1.001, 2),
        'pFar': PixCoord(2000.0, 3.0), 'pFarC': PixCoord(2000.005, 3.0), 'pO': PixCoord(0.0, 0.0), 'pOc': PixCoord(4e-6, 0.0), 'parr3': PixCoord([0, 4, 2], [0, 0, 3]),
        'parr4': PixCoord([0.0, 4, 4, 0], [0.0, 0, 3, 3]), 'p2d': PixCoord([[0, 1], [2, 3]], [[0, 1], [2, 3]]),
        'tuple': (1, 2),
        'sA': sA, 'sB': sB, 'sAobs': SkyCoord(10.0, 20.0, unit='deg', frame='icrs', obstime='J2010'), 'sAnear': SkyCoord(10.0 * u.deg, 20.0 * u.deg, distance=2 * u.kpc, frame='icrs'), 'sAfar': SkyCoord(10.0 * u.deg, 20.0 * u.deg, distance=5 * u.kpc, frame='icrs'), 'sarr3': SkyCoord([1, 2, 3], [4, 5, 5.5], unit='deg'),
        'sarr4': SkyCoord([1, 2, 3, 2], [4, 5, 5.5, 6], unit='deg', frame='fk5'),
        's2d': SkyCoord([[1, 2], [3, 4]], [[4, 5], [5, 6]], unit='deg'),
        'a0': 0 * u.deg, 'a30': 30 * u.deg, 'a390': 390 * u.deg, 'arad': 0.5 * u.rad, 'aAngle': Angle(10, 'deg'), 'aneg': -45 * u.deg,
        'aarr': [1, 2] * u.deg, 'a30am': 1800 * u.arcmin, 'q180as': 180 * u.arcsec,
        'q1as': 1 * u.arcsec, 'q3am': 3 * u.arcmin, 'q2deg': 2 * u.deg, 'qinf': float('inf') * u.deg,
        'qnan': float('nan') * u.deg,
        # the next double: still a different value (equality is strict)
        'f4u': float(np.nextafter(4.0, 5.0)), 'a30u': float(np.nextafter(30.0, 31.0)) * u.deg, 'q2degu': float(np.nextafter(2.0, 3.0)) * u.deg,
        # one-element arrays are not scalars
        'arr1': np.array([4.0]), 'list1': [4.0], 'narr1': np.array([5]), 'parr1': PixCoord([1.0], [2.0]),
        'sarr1': SkyCoord([10.0], [20.0], unit='deg'), 'aarr1': [30.0] * u.deg, 'aAngle1': Angle([45.0], 'deg'), 'qarr1': [2.0] * u.deg,
        # member regions of compounds carry their own meta/visual (a compound made without meta shares region1's)
        'regP1': CirclePixelRegion(PixCoord(0, 0), 1.0, meta={'label': 'member'}, visual={'color': 'cyan'}),
        'regP2': RectanglePixelRegion(PixCoord(1, 1), 2, 3),
        'regS1': CircleSkyRegion(sA, 1 * u.arcsec, meta={'label': 'member'}, visual={'color': 'cyan'}), 'regS2': RectangleSkyRegion(sB, 1 * u.deg, 2 * u.deg),
        'tHello': 'hello', 'tEmpty': '', 'tPadded': '  padded label\t ',
        'op_and': operator.and_, 'op_or': operator.or_, 'op_lamA': (lambda a, b: a & b), 'op_lamB': (lambda a, b: a | b),
    }


def classes():
    import regions as R
    return {
        'CirclePix': R.CirclePixelRegion, 'EllipsePix': R.EllipsePixelRegion, 'RectanglePix': R.RectanglePixelRegion,
        'PolygonPix': R.PolygonPixelRegion, 'RegularPolygonPix': R.RegularPolygonPixelRegion,
        'CircleAnnulusPix': R.CircleAnnulusPixelRegion, 'EllipseAnnulusPix': R.EllipseAnnulusPixelRegion,
        'RectangleAnnulusPix': R.RectangleAnnulusPixelRegion, 'PointPix': R.PointPixelRegion, 'LinePix': R.LinePixelRegion,
        'TextPix': R.TextPixelRegion, 'CircleSky': R.CircleSkyRegion, 'EllipseSky': R.EllipseSkyRegion,
        'RectangleSky': R.RectangleSkyRegion, 'PolygonSky': R.PolygonSkyRegion, 'CircleAnnulusSky': R.CircleAnnulusSkyRegion,
        'EllipseAnnulusSky': R.EllipseAnnulusSkyRegion, 'RectangleAnnulusSky': R.RectangleAnnulusSkyRegion,
        'PointSky': R.PointSkyRegion, 'LineSky': R.LineSkyRegion, 'TextSky': R.TextSkyRegion,
        'CompoundPix': R.CompoundPixelRegion, 'CompoundSky': R.CompoundSkyRegion,
    }


def val_of(tok):
    """meta/visual value tokens: vlist is a fresh list each time (a list-valued entry such as tag)."""
    if tok == 'vlist':
        return ['a', 'b']
    if tok == 'vlist2':
        return ['a', 'b', 'appended']
    return tok


def tok_of_val(v):
    if v == ['a', 'b']:
        return 'vlist'
    if v == ['a', 'b', 'appended']:
        return 'vlist2'
    return v


def dict_token(tok, which):
    from regions import RegionMeta, RegionVisual
    good = ('label', RegionMeta) if which == 'meta' else ('color', RegionVisual)
    other = RegionVisual({'color': 'v1'}) if which == 'meta' else RegionMeta({'label': 'v1'})
    return {'dict_ok': lambda: {good[0]: 'v1'}, 'obj_ok': lambda: good[1]({good[0]: 'v1'}), 'dict_empty': lambda: {},
            'dict_badkey': lambda: {'foo': 1}, 'dict_goodbad': lambda: {good[0]: 'v1', 'foo': 1}, 'other_kind': lambda: other, 'str': lambda: 'abc', 'none': lambda: None}[tok]()


def fmap(f):
    """TLA+ functions with string keys come out of the dump as dict; the empty function as []."""
    return {} if f == [] else dict(f)


class World:
    """Real objects mirroring one model state."""

    def __init__(self, cat, cls):
        self.cat, self.cls = cat, cls
        self.slots = {}      # slot -> region
        self.byid = {id(v): k for k, v in cat.items()}
        self.clsname = {}

    def same(self, v, tokval):
        if v is tokval:
            return True
        if type(v) is not type(tokval):
            return False
        try:
            from astropy.coordinates import SkyCoord
            from regions import PixCoord
            from regions.core.core import Region
            if isinstance(v, PixCoord):
                return np.shape(v.x) == np.shape(tokval.x) and np.array_equal(v.x, tokval.x) and np.array_equal(v.y, tokval.y)
            if isinstance(v, SkyCoord):
                return (v.frame.name == tokval.frame.name and v.shape == tokval.shape
                        and all(str(getattr(v, a_, None)) == str(getattr(tokval, a_, None)) for a_ in ('obstime', 'equinox'))
                        and str(v.distance) == str(tokval.distance)
                        and np.array_equal(v.spherical.lon.deg, tokval.spherical.lon.deg)
                        and np.array_equal(v.spherical.lat.deg, tokval.spherical.lat.deg))
            if isinstance(v, Region):
                return all(self.same(getattr(v, p), getattr(tokval, p)) for p in v._params)
            if isinstance(v, float):
                return v == tokval or (v != v and tokval != tokval)
            from astropy.units import Quantity
            if isinstance(v, Quantity):      # exact: repr() rounds (the next double after 2.0 deg prints like 2.0 deg)
                return v.unit == tokval.unit and np.shape(v.value) == np.shape(tokval.value) and np.array_equal(v.value, tokval.value, equal_nan=True)
            return repr(v) == repr(tokval)
        except Exception:
            return False

    def token_of(self, v, candidates=None):
        t = self.byid.get(id(v))
        if t is not None:
            return t
        for t, tv in self.cat.items():
            if self.same(v, tv):
                return t
        return f'?{type(v).__name__}'

    def val(self, tok):
        """Python value of a token; region tokens are handed out as fresh copies (a compound shares its
        region1's meta by design, so a shared token object would couple independent model objects)."""
        v = self.cat[tok]
        if tok.startswith('reg'):
            return v.copy()
        return v

    def materialise(self, pre):
        from regions import RegionMeta, RegionVisual
        dobjs = {}
        for i, d in enumerate(pre['dicts'], 1):
            o = RegionMeta() if d['which'] == 'meta' else RegionVisual()
            for k, v in fmap(d['kv']).items():
                dict.__setitem__(o, k, val_of(v))
            dobjs[i] = o
        for s, h in enumerate(pre['heap'], 1):
            if h['cls'] == 'none':
                continue
            par = fmap(h['par'])
            obj = self.cls[h['cls']](**{f: self.val(t) for f, t in par.items()}) if self._ctor_ok(h['cls'], par) \
                else self._force(h['cls'], par)
            obj.meta = dobjs[h['meta']]
            obj.visual = dobjs[h['visual']]
            self.slots[s] = obj
            self.clsname[s] = h['cls']
        self.dobjs = dobjs

    def _ctor_ok(self, cls, par):
        return True

    def _force(self, cls, par):  # pragma: no cover
        raise NotImplementedError

    def apply(self, act):
        """Returns outcome string."""
        a = act['a']
        try:
            if a == 'construct':
                args = {f: self.val(t) for f, t in fmap(act['args']).items()}
                self.slots[act['slot']] = self.cls[act['cls']](**args)
                self.clsname[act['slot']] = act['cls']
            elif a == 'assign':
                val = self.val(act['value'])
                setattr(self.slots[act['slot']], act['field'], val)
                got = getattr(self.slots[act['slot']], act['field'])
                if got is not val:
                    return 'ok-but-readback-differs'
            elif a == 'delete':
                delattr(self.slots[act['slot']], act['field'])
            elif a == 'meta':
                m = getattr(self.slots[act['slot']], act['which'])
                k, v, how = act['key'], act['value'], act['how']
                v_tok = v
                v = val_of(v)
                if how == 'setitem':
                    m[k] = v
                elif how == 'update':
                    m.update({k: v})
                elif how == 'update_kw':
                    m.update(**{k: v})
                elif how == 'setdefault':
                    m.setdefault(k, v)
                elif how in ('update2', 'update2_kw', 'ior2'):
                    from regions import RegionMeta
                    two = {('label' if isinstance(m, RegionMeta) else 'color'): 'v2', k: v}
                    if how == 'update2':
                        m.update(two)
                    elif how == 'update2_kw':
                        m.update(**two)
                    else:
                        m |= two
                elif how in ('update_same', 'update_other', 'ior_other'):
                    from regions import RegionMeta, RegionVisual
                    same = type(m)
                    other = RegionVisual if isinstance(m, RegionMeta) else RegionMeta
                    arg = (same if how == 'update_same' else other)()
                    dict.__setitem__(arg, k, val_of(v))          # an instance that already holds the entry
                    if how == 'ior_other':
                        m |= arg
                    else:
                        m.update(arg)
                elif how == 'nested_append':
                    m[k].append('appended')
                elif how == 'ior':
                    m |= {k: v}
                    if m is not getattr(self.slots[act['slot']], act['which']):
                        return 'ok-but-rebound'
                elif how == 'pop':
                    m.pop(k)
                elif how == 'del':
                    del m[k]
                elif how == 'clear':
                    m.clear()
            elif a == 'metaassign':
                setattr(self.slots[act['slot']], act['which'], dict_token(act['value'], act['which']))
            elif a == 'copy':
                self.slots[act['to']] = self.slots[act['slot']].copy()
                self.clsname[act['to']] = self.clsname[act['slot']]
                sh = shared_storage(self.slots[act['to']], self.slots[act['slot']])
                if sh:
                    return f'ok-but-copy-shares:{sh}'
            elif a == 'copyas':
                src = self.slots[act['slot']]
                new = self.cls[act['cls']](**{p: getattr(src, p) for p in src._params}, meta=src.meta.copy(), visual=src.visual.copy())
                self.slots[act['to']] = new
                self.clsname[act['to']] = act['cls']
            elif a == 'copywith':
                self.slots[act['to']] = self.slots[act['slot']].copy(**{act['field']: self.val(act['value'])})
                self.clsname[act['to']] = self.clsname[act['slot']]
                sh = shared_storage(self.slots[act['to']], self.slots[act['slot']], skip=(act['field'],))
                if sh:
                    return f'ok-but-copy-shares:{sh}'
            elif a == 'copywithdict':
                self.slots[act['to']] = self.slots[act['slot']].copy(**{act['which']: dict_token(act['value'], act['which'])})
                self.clsname[act['to']] = self.clsname[act['slot']]
                sh = shared_storage(self.slots[act['to']], self.slots[act['slot']])
                if sh:
                    return f'ok-but-copy-shares:{sh}'
            elif a == 'discard':
                del self.slots[act['slot']]
            else:
                raise AssertionError(a)
        except Exception as ex:  # noqa
            for base in (KeyError, IndexError, AttributeError, TypeError, ValueError, NotImplementedError):
                if isinstance(ex, base):      # e.g. astropy's UnitConversionError is a ValueError
                    return base.__name__
            return type(ex).__name__
        return 'ok'

    def equality(self):
        """Real ==/!= of the objects in slots 1 and 2: 'eq', 'ne', '-' or a description of an inconsistency."""
        if 1 not in self.slots or 2 not in self.slots:
            return '-'
        a, b = self.slots[1], self.slots[2]
        try:
            r = [a == b, b == a, not (a != b), not (b != a)]
            refl = (a == a) and (b == b) and not (a != a)
        except Exception as ex:  # noqa
            return f'raises {type(ex).__name__}'
        if not all(isinstance(x, (bool, np.bool_)) for x in r):
            return 'non-bool'
        if not refl:
            return 'not-reflexive'
        if len({bool(x) for x in r}) != 1:
            return f'asymmetric {[bool(x) for x in r]}'
        return 'eq' if r[0] else 'ne'

    def project(self, nslots, tokens_for):
        """-> (heap projection, dict contents, sharing partition)."""
        heap = []
        ids = {}
        dicts = []

        nested = {}

        def val(v):
            # list-valued entries carry an identity number (first-seen order), so that a list shared between two
            # dicts is visible in the projection
            if isinstance(v, list):
                if id(v) not in nested:
                    nested[id(v)] = len(nested) + 1
                return [tok_of_val(v), nested[id(v)]]
            return tok_of_val(v)

        def did(o):
            if not isinstance(o, dict):
                return f'<{type(o).__name__}>'
            if id(o) not in ids:
                ids[id(o)] = len(ids) + 1
                dicts.append({'type': type(o).__name__, 'kv': {str(k): val(dict.__getitem__(o, k)) for k in sorted(dict(o), key=str)}})      # raw entries: the key as stored
            return ids[id(o)]
        for s in range(1, nslots + 1):
            if s not in self.slots:
                heap.append({'cls': 'none'})
                continue
            o = self.slots[s]
            par = {}
            for f in o._params:
                par[f] = self.token_of(getattr(o, f), self.cat) if hasattr(o, f) else '<deleted>'
            heap.append({'cls': self.clsname[s] if type(o) is self.cls[self.clsname[s]] else type(o).__name__,
                         'par': par, 'meta': did(getattr(o, 'meta', '<deleted>')), 'visual': did(getattr(o, 'visual', '<deleted>'))})
        return heap, dicts


def _arrays(v):
    """The numpy storage behind a parameter value (Quantity, SkyCoord, PixCoord, array), as plain arrays."""
    from astropy.coordinates import SkyCoord
    from astropy.units import Quantity

    from regions import PixCoord
    if isinstance(v, SkyCoord):
        return [np.asarray(v.data.lon.view(np.ndarray)), np.asarray(v.data.lat.view(np.ndarray))]
    if isinstance(v, PixCoord):
        return [x for x in (v.x, v.y) if isinstance(x, np.ndarray)]
    if isinstance(v, Quantity):
        return [v.view(np.ndarray)]
    if isinstance(v, np.ndarray):
        return [v]
    return []


def shared_storage(a, b, skip=()):
    """Name of the first shape parameter of region `a` whose (mutable) value object or numpy storage is also that of
    region `b`'s parameter - '' when the two regions share nothing an in-place edit could reach."""
    from regions import Region
    for f in a._params:
        if f in skip or not hasattr(a, f) or not hasattr(b, f):
            continue
        va, vb = getattr(a, f), getattr(b, f)
        if isinstance(va, Region):
            if va is vb:
                return f
            sub = shared_storage(va, vb) if type(va) is type(vb) else ''
            if sub:
                return f'{f}.{sub}'
            continue
        if va is vb and not isinstance(va, (int, float, str, bool, type(None), np.generic)) and not callable(va):
            return f
        for x in _arrays(va):
            for y in _arrays(vb):
                if x.size and np.shares_memory(x, y):
                    return f
    return ''


def model_view(heap, dicts):
    """Model state -> same canonical form as World.project (dict ids renumbered in first-use order; every list-valued
    entry is its own object in the model, numbered in the same first-seen order)."""
    ids = {}
    out_d = []
    out_h = []
    nested = [0]

    def val(v):
        if v in ('vlist', 'vlist2'):
            nested[0] += 1
            return [v, nested[0]]
        return v
    for h in heap:
        if h['cls'] == 'none':
            out_h.append({'cls': 'none'})
            continue
        o = {'cls': h['cls'], 'par': fmap(h['par'])}
        for w in ('meta', 'visual'):
            i = h[w]
            if i not in ids:
                ids[i] = len(ids) + 1
                d = dicts[i - 1]
                kv = fmap(d['kv'])
                out_d.append({'type': 'RegionMeta' if d['which'] == 'meta' else 'RegionVisual', 'kv': {k: val(kv[k]) for k in sorted(kv)}})
            o[w] = ids[i]
        out_h.append(o)
    return out_h, out_d
