"""Make sure the package imported by the checks is /repo's working tree.

Python sources are used as they are (editable install).  The Cython kernels cannot be regenerated
here (no Cython in the sandbox); a generated .c that is newer than its .so is recompiled in place
(the same output `pip install -e .` would produce); a .pyx newer than its .c cannot be honoured
and is reported as a machinery failure."""
import glob
import os
import subprocess
import sys
import sysconfig

REPO = os.environ.get('VERIF_REPO', '/repo')      # checks run against /repo; VERIF_REPO lets a scratch worktree be checked in parallel


def ensure():
    os.environ['ASTROPY_REGIONS_VERIF'] = '1'
    if REPO not in sys.path:
        sys.path.insert(0, REPO)
    geo = os.path.join(REPO, 'regions', '_geometry')
    for pyx in glob.glob(os.path.join(geo, '*.pyx')):
        base = pyx[:-4]
        c = base + '.c'
        sos = glob.glob(base + '.*.so')
        if not os.path.exists(c) or not sos:
            continue
        so = sos[0]
        if os.path.getmtime(c) > os.path.getmtime(so) + 1e-6:
            import numpy
            inc = [sysconfig.get_paths()['include'], numpy.get_include(), geo]
            cmd = ['gcc', '-shared', '-fPIC', '-O2', '-w', '-DNPY_NO_DEPRECATED_API=NPY_1_7_API_VERSION']
            for i in inc:
                cmd += ['-I', i]
            cmd += [c, '-o', so, '-lm']
            subprocess.run(cmd, check=True)
    import regions  # noqa
    f = os.path.realpath(regions.__file__)
    if not f.startswith(REPO + '/'):
        raise RuntimeError(f'regions imported from {f}, not from {REPO}')
