"""Real astropy WCS objects from the abstract record of Wcs.tla: conformal affine celestial WCS."""
import math

import numpy as np

FRAMES = {'icrs': ('RA--', 'DEC-', 'ICRS', None), 'fk5': ('RA--', 'DEC-', 'FK5', 2000.0),
          'fk4': ('RA--', 'DEC-', 'FK4', 1950.0), 'galactic': ('GLON', 'GLAT', None, None)}


def make_wcs(scale_deg=1e-3, rot=(1, 0, 1), parity=1, frame='icrs', proj='TAN', crval=(30.0, 20.0), crpix=(1.0, 1.0)):
    """CD = scale * R(rot) * diag(-parity, 1): standard parity (+1) has longitude increasing to the left."""
    from astropy.wcs import WCS
    w = WCS(naxis=2)
    lon, lat, radesys, equinox = FRAMES[frame]
    w.wcs.ctype = [f'{lon}-{proj}', f'{lat}-{proj}']
    c, s = rot[0] / rot[2], rot[1] / rot[2]
    m = np.array([[c, -s], [s, c]]) @ np.array([[-1.0 * parity, 0.0], [0.0, 1.0]])
    w.wcs.cd = scale_deg * m
    w.wcs.crval = list(crval)
    w.wcs.crpix = list(crpix)
    w.wcs.cunit = ['deg', 'deg']
    if radesys:
        w.wcs.radesys = radesys
    if equinox:
        w.wcs.equinox = equinox
    w.wcs.set()
    return w


def redescribe_units(sky, idx):
    """The same sky region with its angle and sizes handed over in other units (compounds: member-wise)."""
    import astropy.units as u
    from regions.core.compound import CompoundSkyRegion
    if isinstance(sky, CompoundSkyRegion):
        return CompoundSkyRegion(redescribe_units(sky.region1, idx), redescribe_units(sky.region2, idx + 1), sky.operator,
                                 meta=sky.meta.copy(), visual=sky.visual.copy())
    kw = {}
    for pn in sky._params:
        v = getattr(sky, pn)
        if pn == 'angle':
            v = v.to([u.rad, u.arcmin, u.deg][idx % 3])
        elif pn not in ('center', 'vertices', 'start', 'end', 'text'):
            v = v.to([u.arcmin, u.deg, u.rad, u.arcsec][(idx // 3) % 4])
        kw[pn] = v
    return type(sky)(**kw, meta=sky.meta.copy(), visual=sky.visual.copy())


def make_sip_wcs(scale=3e-4, rot=(3, 4, 5), crval=(150.0, 20.0), crpix=(20.0, 20.0), strength=2e-4):
    """An invertible TAN-SIP WCS (quadratic distortion terms): positions converted with mode='wcs' differ from mode='all'."""
    import numpy as np
    from astropy.wcs import Sip
    ws = make_wcs(scale, rot, 1, 'icrs', 'TAN', crval, crpix)
    ws.wcs.ctype = ['RA---TAN-SIP', 'DEC--TAN-SIP']
    a = np.zeros((3, 3))
    b = np.zeros((3, 3))
    a[2, 0], a[0, 2], b[1, 1], b[2, 0] = strength, -strength / 2, strength, strength / 3
    ws.sip = Sip(a, b, None, None, list(crpix))
    return ws
