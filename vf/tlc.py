"""Run TLC on a specification of /verif/specs and read back what it did."""
import os
import re
import shutil
import subprocess
import time

from . import tlaparse

ROOT = os.path.dirname(os.path.dirname(os.path.abspath(__file__)))
SPECS = os.path.join(ROOT, 'specs')
WORK = os.path.join(ROOT, '.work')
JAR = '/opt/veriftools/tla/tla2tools.jar:/opt/veriftools/tla/CommunityModules-deps.jar'


class TlcError(RuntimeError):
    """Machinery failure (not a property violation)."""


class TlcResult:
    def __init__(self):
        self.stdout = ''
        self.rc = None
        self.generated = 0
        self.distinct = 0
        self.depth = 0
        self.violated = None      # name of violated invariant / property / 'deadlock'
        self.trace = []
        self.coverage = {}
        self.dump_path = None
        self.wall = 0.0
        self.workdir = None

    def states(self, limit=None):
        return tlaparse.parse_dump(self.dump_path, limit)


def workdir(tag):
    d = os.path.join(WORK, f'{tag}-{os.getpid()}-{int(time.time()*1000) % 10**9}')
    os.makedirs(d, exist_ok=True)
    return d


def cleanup(d):
    shutil.rmtree(d, ignore_errors=True)


def run(module, cfg=None, workers=16, dump=False, env=None, timeout=600, coverage=False,
        simulate=None, depth=None, seed=None, tag=None, dfs=False, heap='6g', cfg_text=None,
        continue_=False, view_dump=True):
    """Run TLC on specs/<module>.tla with config specs/<cfg> (or literal cfg_text).

    simulate: None or dict(num=..., file=optional prefix)
    Raises TlcError on parse errors / crashes / timeouts.  Invariant violations are returned.
    """
    res = TlcResult()
    wd = workdir(tag or module)
    res.workdir = wd
    if cfg_text is not None:
        cfg_path = os.path.join(wd, f'{module}.cfg')
        with open(cfg_path, 'w') as f:
            f.write(cfg_text)
    else:
        cfg_path = os.path.join(SPECS, cfg or f'{module}.cfg')
    cmd = ['java', '-XX:+UseParallelGC', f'-Xmx{heap}']
    if dfs:
        cmd.append('-Dtlc2.tool.queue.IStateQueue=StateDeque')
    cmd += ['-cp', JAR, 'tlc2.TLC', '-workers', str(workers), '-metadir', os.path.join(wd, 'meta'),
            '-noGenerateSpecTE', '-nowarning', '-config', cfg_path]
    if coverage:
        cmd += ['-coverage', '1']
    if continue_:
        cmd += ['-continue']
    if dump:
        res.dump_path = os.path.join(wd, 'states.dump')
        cmd += ['-dump', os.path.join(wd, 'states')]
    if simulate is not None:
        s = f"num={simulate['num']}"
        if simulate.get('file'):
            s = f"file={simulate['file']}," + s
        cmd += ['-simulate', s]
        if seed is not None:
            cmd += ['-seed', str(seed)]
    if depth is not None:
        cmd += ['-depth', str(depth)]
    cmd.append(os.path.join(SPECS, f'{module}.tla'))
    e = dict(os.environ)
    e.pop('JAVA_TOOL_OPTIONS', None)
    if env:
        e.update({k: str(v) for k, v in env.items()})
    t0 = time.time()
    try:
        p = subprocess.run(cmd, cwd=SPECS, env=e, stdout=subprocess.PIPE, stderr=subprocess.STDOUT,
                           text=True, timeout=timeout)
    except subprocess.TimeoutExpired as ex:
        raise TlcError(f'TLC timed out after {timeout}s on {module}/{cfg}') from ex
    res.wall = time.time() - t0
    res.stdout = out = p.stdout
    res.rc = p.returncode
    m = re.search(r'(\d+) states generated, (\d+) distinct states found', out)
    if m:
        res.generated, res.distinct = int(m.group(1)), int(m.group(2))
    m = re.search(r'depth of the complete state graph search is (\d+)', out)
    if m:
        res.depth = int(m.group(1))
    m = re.search(r'Invariant (\S+) is violated', out)
    if m:
        res.violated = m.group(1)
    elif re.search(r'Action property (\S+) is violated|Temporal properties were violated', out):
        mm = re.search(r'Action property (\S+) is violated', out)
        res.violated = mm.group(1) if mm else 'temporal'
    elif 'Deadlock reached' in out:
        res.violated = 'deadlock'
    elif re.search(r'Assumption .* is false', out):
        res.violated = 'assumption'
    elif re.search(r'The postcondition has been violated|Postcondition .* violated', out, re.I):
        res.violated = 'postcondition'
    if res.violated:
        res.trace = tlaparse.parse_error_trace(out)
    if coverage:
        res.coverage = parse_coverage(out)
    bad = None
    if res.violated is None and p.returncode != 0:
        bad = f'TLC exit code {p.returncode}'
    if re.search(r'Parsing or semantic analysis failed|\*\*\* Errors:|Error: TLC threw|'
                 r'Overflow when computing|TLC encountered a non-enumerable|was not defined|'
                 r'java\.lang\.\w*(Error|Exception)', out) and res.violated is None:
        bad = 'TLC error'
    if bad:
        lines = out.splitlines()
        idx = [i for i, l in enumerate(lines) if 'rror' in l and not l.startswith('  |')]
        head = '\n'.join(l for i in idx[:3] for l in lines[i:i + 12] if not l.startswith('  |'))
        tail = '\n'.join(l for l in lines[-8:])
        raise TlcError(f'{bad} on {module}: \n{head}\n...\n{tail}')
    return res


_COV = re.compile(r'^<(\w+) line (\d+), col (\d+) to line (\d+), col (\d+) of module (\w+)>: (\d+):(\d+)', re.M)


def parse_coverage(out):
    """Action-level coverage: name -> (distinct, generated)."""
    cov = {}
    for m in _COV.finditer(out):
        name = m.group(1)
        d, g = int(m.group(7)), int(m.group(8))
        if name in cov:
            cov[name] = (cov[name][0] + d, cov[name][1] + g)
        else:
            cov[name] = (d, g)
    return cov


def sany(module):
    p = subprocess.run(['java', '-cp', JAR, 'tla2sany.SANY', os.path.join(SPECS, f'{module}.tla')],
                       cwd=SPECS, stdout=subprocess.PIPE, stderr=subprocess.STDOUT, text=True)
    ok = p.returncode == 0 and 'Semantic errors' not in p.stdout and 'Parse Error' not in p.stdout \
        and 'Could not' not in p.stdout
    return ok, p.stdout
