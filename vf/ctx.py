"""Check context: counts, violations, known findings, evidence, exit code."""
import hashlib
import json
import os
import sys
import time

ROOT = os.path.dirname(os.path.dirname(os.path.abspath(__file__)))
# seeded-change runs (seedtest.py) redirect their evidence and replay files so that the registered ones are not overwritten
EVID = os.environ.get('VERIF_EVID', os.path.join(ROOT, 'evidence'))
REPLAYS = os.environ.get('VERIF_REPLAYS', os.path.join(ROOT, 'replays'))
FINDINGS = os.path.join(ROOT, 'known_findings.json')


def _jsonable(x):
    try:
        import numpy as np
    except Exception:  # pragma: no cover
        np = None
    if isinstance(x, dict):
        return {str(k): _jsonable(v) for k, v in x.items()}
    if isinstance(x, (list, tuple, set, frozenset)):
        return [_jsonable(v) for v in x]
    if np is not None:
        if isinstance(x, np.ndarray):
            return _jsonable(x.tolist())
        if isinstance(x, np.generic):
            return _jsonable(x.item())
    if isinstance(x, float):
        if x != x:
            return 'NaN'
        if x in (float('inf'), float('-inf')):
            return 'inf' if x > 0 else '-inf'
        return x
    if isinstance(x, (int, str, bool)) or x is None:
        return x
    return repr(x)


class Ctx:
    def __init__(self, pid, tier, seed):
        self.pid = pid
        self.tier = tier
        self.seed = seed
        self.t0 = time.time()
        self.states = 0
        self.transitions = 0
        self.traces = 0           # behaviours replayed into / traces validated against the implementation
        self.evaluations = 0
        self.nontrivial = set()
        self.samples = []
        self.violations = []
        self.known_hits = {}
        self.notes = {}
        self.assumptions = []
        self.dontcare = 0
        self.tlc_runs = []
        self.findings = [f for f in load_findings() if f['property'] == pid]
        self.level = 'model_checking'
        self.sigcount = {}

    # --- bookkeeping -------------------------------------------------------------------
    def tlc(self, res, what):
        self.states += res.distinct
        self.transitions += res.generated
        self.tlc_runs.append({'what': what, 'distinct': res.distinct, 'generated': res.generated,
                              'depth': res.depth, 'wall_s': round(res.wall, 2)})

    def case(self, key=None, nontrivial=True, n=1):
        self.evaluations += n
        if nontrivial and key is not None:
            if len(self.nontrivial) < 2_000_000:
                self.nontrivial.add(key if isinstance(key, (str, int, tuple)) else json.dumps(_jsonable(key), sort_keys=True))

    def sample(self, s, cap=6):
        if len(self.samples) < cap:
            self.samples.append(_jsonable(s))

    def note(self, k, v):
        self.notes[k] = _jsonable(v)

    def emit(self, obj):
        if not hasattr(self, 'emitted'):
            self.emitted = []
        self.emitted.append(obj)

    def bump(self, k, n=1):
        self.notes[k] = self.notes.get(k, 0) + n

    # --- violations --------------------------------------------------------------------
    def violation(self, sig, what, case):
        """sig: structural signature (string) matched against known findings by prefix/glob."""
        f = match_finding(self.findings, sig)
        if f is not None:
            h = self.known_hits.setdefault(f['key'], {'what': f['what_fails'], 'n': 0, 'example': _jsonable(case)})
            h['n'] += 1
            return False
        self.sigcount[sig] = self.sigcount.get(sig, 0) + 1
        if self.sigcount[sig] <= 3 and len([v for v in self.violations if v]) < 60:
            self.violations.append({'sig': sig, 'what': what, 'case': _jsonable(case)})
        else:
            self.violations.append(None)
        return True

    # --- finish ------------------------------------------------------------------------
    def finish(self, extra_cov=None):
        os.makedirs(EVID, exist_ok=True)
        nviol = len(self.violations)
        cov = {
            'states': self.states, 'transitions': self.transitions,
            'traces_validated_against_impl': self.traces,
            'evaluations': self.evaluations, 'distinct_nontrivial': len(self.nontrivial),
            'samples': self.samples or [{'note': 'no sample recorded'}],
            'dont_care': self.dontcare,
            'tlc_runs': self.tlc_runs,
            'known_findings_hit': self.known_hits,
        }
        cov.update(self.notes)
        if extra_cov:
            cov.update(_jsonable(extra_cov))
        ev = {'property_id': self.pid, 'tier': self.tier, 'seed': self.seed, 'level': self.level,
              'coverage': cov, 'assumptions': self.assumptions,
              'wall_s': round(time.time() - self.t0, 2), 'violations': nviol}
        with open(os.path.join(EVID, f'{self.pid}.json'), 'w') as f:
            json.dump(ev, f, indent=1, sort_keys=True)
        for key, h in self.known_hits.items():
            print(f"KNOWN-FINDING: property={self.pid} {h['what']} [{key}; {h['n']} occurrence(s)]")
        if nviol:
            os.makedirs(os.path.join(REPLAYS, self.pid), exist_ok=True)
            shown = [v for v in self.violations if v is not None]
            for v in shown[:int(os.environ.get('VERIF_MAXSHOW', '12'))]:
                blob = json.dumps(v, sort_keys=True, indent=1)
                hsh = hashlib.sha1(blob.encode()).hexdigest()[:12]
                path = os.path.join(REPLAYS, self.pid, f'{hsh}.json')
                with open(path, 'w') as f:
                    f.write(blob)
                print(f'VIOLATION property={self.pid} replay={path}')
                print(f"  {v['sig']}: {v['what']}")
            print(f'  {nviol} violation(s) by signature: ' + '; '.join(f'{k} x{v}' for k, v in sorted(self.sigcount.items())))
            return 1
        print(f'OK property={self.pid} tier={self.tier} states={self.states} transitions={self.transitions} '
              f'impl_traces={self.traces} evaluations={self.evaluations} '
              f'nontrivial={len(self.nontrivial)} wall={time.time() - self.t0:.1f}s')
        return 0


def load_findings():
    if not os.path.exists(FINDINGS):
        return []
    with open(FINDINGS) as f:
        data = json.load(f)
    return [x for x in data.get('findings', []) if x.get('status') == 'open']


def match_finding(findings, sig):
    import fnmatch
    for f in findings:
        if fnmatch.fnmatchcase(sig, f['key']):
            return f
    return None


def machinery_failure(pid, msg):
    print(f'MACHINERY-FAILURE property={pid}: {msg}', file=sys.stderr)
    return 2
