"""Run the TLA+ proof system on a module of specs/proofs and count obligations."""
import os
import re
import shutil
import subprocess

from . import tlc


def prove(module, timeout=600):
    wd = tlc.workdir('tlaps')
    src = os.path.join(tlc.SPECS, 'proofs', f'{module}.tla')
    shutil.copy(src, wd)
    p = subprocess.run(['tlapm', '--cleanfp', f'{module}.tla'], cwd=wd, stdout=subprocess.PIPE,
                       stderr=subprocess.STDOUT, text=True, timeout=timeout)
    out = p.stdout
    tlc.cleanup(wd)
    m = re.search(r'All (\d+) obligations? proved', out)
    if m:
        return int(m.group(1)), int(m.group(1)), out
    m = re.search(r'(\d+)/(\d+) obligations? failed', out)
    if m:
        return int(m.group(2)), int(m.group(2)) - int(m.group(1)), out
    return 0, 0, out
