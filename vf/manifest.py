"""Generate /verif/MANIFEST.json from the table below (python -m vf.manifest)."""
import json
import os
import subprocess

ROOT = os.path.dirname(os.path.dirname(os.path.abspath(__file__)))

ALL = [f'C{i:02d}' for i in range(1, 21)]

# property -> (category, level text, level note, technique, design ref, engine)
CLAIMS = {
    'C19': ('model_checking',
            'BBox.tla (Impl shaped like bounding_box.py refines the pixel-set Ref) is model-checked exhaustively on a '
            'bounded universe of boxes/images/float rectangles; every returning state is replayed into the real '
            'RegionBoundingBox; random calls on the real class (corners to 1e9, numpy integer types, 1/8-lattice float '
            'rectangles) are validated event by event by Trace_BBox.tla; the lattice laws are proved for all integers '
            'with TLAPS.',
            'Trusts TLC/TLAPS, the 60-line projection of boxes and slices, and that behaviour outside the enumerated '
            'universe and the sampled traces follows the same code paths. Touching boxes may intersect to None or to '
            'an empty box (both are "exactly the common pixels").',
            'TLA+ spec + TLC exhaustive, spec->code replay of every state, code->spec trace validation, TLAPS proofs',
            'DESIGN.md section 5 C19', 'bbox'),
}

PENDING_REASON = ('specification module for this property is designed in DESIGN.md but its TLA+ module and '
                  'conformance binding are not built yet; not claimed until they are')


def build():
    checks = []
    for pid in ALL:
        if pid not in CLAIMS:
            continue
        cat, text, note, tech, ref, eng = CLAIMS[pid]
        checks.append({
            'property_id': pid,
            'quick_cmd': f'./check {pid} --tier quick',
            'thorough_cmd': f'./check {pid} --tier thorough',
            'evidence_file': f'/verif/evidence/{pid}.json',
            'replay_cmd_template': f'./check {pid} --replay {{path}}',
            'engine': eng,
            'level_claimed': {'category': cat, 'text': text, 'design_ref': ref},
            'level_note': note,
            'technique': tech,
        })
    try:
        commits = subprocess.run(['git', '-C', '/repo', 'log', '--format=%H %s'], stdout=subprocess.PIPE,
                                 text=True).stdout.splitlines()
    except Exception:
        commits = []
    hooks = [c.split()[0] for c in commits if ' hook:' in c or ' verif-hook:' in c]
    man = {
        'version': 1,
        'setup_cmd': './setup.sh',
        'hooks': {
            'guard': 'ASTROPY_REGIONS_VERIF',
            'enable': 'environment variable ASTROPY_REGIONS_VERIF=1 set by ./check before importing regions '
                      '(editable install: checks import /repo working tree directly; generated _geometry/*.c newer '
                      'than their .so are recompiled in place)',
            'baseline_off_cmd': 'cd /repo && env -u ASTROPY_REGIONS_VERIF /venv/bin/python -m pytest -ra -q -p '
                                'no:cacheprovider --timeout=900 --continue-on-collection-errors',
            'source_commits': hooks,
            'add_only': True,
        },
        'engines': ENGINES,
        'checks': checks,
        'not_applicable': [{'property_id': p, 'reason': NA.get(p, PENDING_REASON)} for p in ALL if p not in CLAIMS],
        'notes': 'Every check is ./check <id>: (A) TLC on the TLA+ module(s) of the property, (B) replay of '
                 'TLC-generated states/behaviours into the real package, (C) validation by a Trace_*.tla module of '
                 'events recorded from the real package. Exit 2 = machinery failure. known_findings.json lists '
                 'open findings (printed as KNOWN-FINDING) and fixed ones (suppress nothing).',
    }
    return man


ENGINES = [
    {'name': 'bbox', 'path': 'specs/BBox.tla specs/BBoxClosed.tla specs/Trace_BBox.tla specs/proofs/BBoxLaws.tla '
                             'vf/engines/c19.py', 'serves_properties': ['C19'],
     'kind_free_text': 'TLA+ model of integer rectangle algebra; TLC exhaustive + replay + trace validation + TLAPS'},
]
NA = {}


def main():
    man = build()
    with open(os.path.join(ROOT, 'MANIFEST.json'), 'w') as f:
        json.dump(man, f, indent=1)
    try:
        import jsonschema
        jsonschema.validate(man, json.load(open('/root/.vp/MANIFEST.schema.json')))
        print('MANIFEST.json valid;', len(man['checks']), 'checks,', len(man['not_applicable']), 'not applicable')
    except ImportError:
        print('jsonschema not available; MANIFEST.json written unvalidated')


if __name__ == '__main__':
    main()
