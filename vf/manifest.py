"""Generate /verif/MANIFEST.json from the table below (python -m vf.manifest)."""
import json
import os
import subprocess

ROOT = os.path.dirname(os.path.dirname(os.path.abspath(__file__)))

ALL = [f'C{i:02d}' for i in range(1, 21)]

# property -> (category, level text, level note, technique, design ref, engine)
CLAIMS = {
    'C19': ('model_checking',
            'BBox.tla (Impl shaped like bounding_box.py refines the pixel-set Ref) is model-checked exhaustively on a '
            'bounded universe of boxes/images/float rectangles; every returning state is replayed into the real '
            'RegionBoundingBox; random calls on the real class (corners to 1e9, numpy integer types, 1/8-lattice float '
            'rectangles) are validated event by event by Trace_BBox.tla; the lattice laws are proved for all integers '
            'with TLAPS.',
            'Trusts TLC/TLAPS, the 60-line projection of boxes and slices, and that behaviour outside the enumerated '
            'universe and the sampled traces follows the same code paths. Touching boxes may intersect to None or to '
            'an empty box (both are "exactly the common pixels").',
            'TLA+ spec + TLC exhaustive, spec->code replay of every state, code->spec trace validation, TLAPS proofs',
            'DESIGN.md section 5 C19', 'bbox'),
}

GEO_NOTE = ('Trusts TLC, the harness embedding of the lattice into pixel coordinates (exact power-of-two scale, integer '
            'translation) and the projection back. Angles are restricted to the 44 rational (Pythagorean) directions and '
            'parameters to dyadic lattices; positions the exact model marks EDGE (on the boundary or within 2^-20 relative) '
            'and extremes exactly on a pixel edge through a rotation are not compared.')
CLAIMS.update({
    'C01': ('model_checking',
            'Geometry.tla gives the exact membership predicate of every pixel shape by integer cross-multiplication; TLC checks '
            'the model-level laws (annulus built as xor of meta-sharing helpers = outer minus inner, include-false = complement, '
            'translation/scale equivariance) over ~10k shapes x a lattice window; every returning state is replayed into the real '
            'contains() under exact scale/translation/angle-unit embeddings incl. N-D, 0-length, scalar, int queries; random '
            'shapes are validated event by event by Trace_Geometry.tla.',
            GEO_NOTE, 'TLA+ exact lattice model + TLC, spec->code replay of every state, code->spec trace validation',
            'DESIGN.md section 5 C01', 'geometry'),
    'C02': ('model_checking',
            'Mask Ref (count of member sub-sample centres on the exact box) and the Impl of compound/annulus masks (pad each '
            'operand to the union box, then the operator) are model-checked to agree; every state is replayed into '
            "to_mask('center'/'subpixels', n) (box, shape, integral counts, n=1 = centre, NotImplementedError table); random "
            'shapes with n in 1..12 at pixel-edge/corner/far positions are validated by Trace_Geometry.tla.',
            GEO_NOTE, 'TLA+ exact lattice model + TLC, spec->code replay, code->spec trace validation',
            'DESIGN.md section 5 C02', 'geometry'),
    'C04': ('model_checking',
            'BoxOf in Geometry.tla is the exact floor/ceil of the true extent (irrational ellipse extents decided by comparing '
            'squares); TLC checks enclosure of every member lattice point and translation; every state replayed into '
            'bounding_box and to_mask().bbox; random shapes on 1/2..1/16 pixel lattices validated by Trace_Geometry.tla. Regular polygons: BBoxClosed!VCover on the vertex extent (2^-20 pixel units), validated by Trace_BBox.tla.',
            GEO_NOTE, 'TLA+ exact lattice model + TLC, spec->code replay, code->spec trace validation',
            'DESIGN.md section 5 C04', 'geometry'),
    'C08': ('model_checking',
            'Compound membership (Kleene and/or/xor of operands, negated as a whole), compound masks on the union box, rotation '
            'and annulus = outer minus inner are model-checked on pairs over a 9-leaf pool and nested expressions to depth 3 '
            'with include flags; replayed into the real &,|,^ operators, CompoundPixelRegion, to_mask, rotate and '
            'pixel->sky->pixel conversion; random trees validated by Trace_Geometry.tla.',
            GEO_NOTE + ' Sky conversion is exercised on three undistorted WCS only.',
            'TLA+ exact lattice model + TLC, spec->code replay, code->spec trace validation',
            'DESIGN.md section 5 C08', 'geometry'),
    'C15': ('model_checking',
            'Rotate/Translate in Geometry.tla are exact (rational directions multiply as complex numbers); TLC checks '
            'Member(Rotate(r), Rot(p)) = Member(r, p), area preservation, rotate-back identity, and translation of boxes and '
            'masks; every rotate state is replayed into the real rotate() (class/meta/visual, parameters to 1e-9, area, '
            'membership at rotated lattice points, rotate back, original untouched); integer translations to 1e4 must shift the '
            'box exactly and leave mask arrays bitwise equal in centre/sub-pixel/exact modes.',
            GEO_NOTE, 'TLA+ exact lattice model + TLC, spec->code replay, code->spec trace validation',
            'DESIGN.md section 5 C15', 'geometry'),
})

OBJ_NOTE = ('Trusts TLC, the token catalogue (each token is one Python value per descriptor kind) and the projection of real objects '
            '(parameters by identity, dict contents, partition of dict identities). Values outside the catalogue are not explored.')
CLAIMS.update({
    'C16': ('model_checking',
            'Objects.tla (heap of region objects whose meta/visual are references to dict objects) is model-checked with two slots: '
            'copies get fresh identities and equal contents, copy-with-changes differs exactly in the named field, mutations never '
            'show in the other object, Eq is reflexive/symmetric and sees every field (unit re-expressions and sub-tolerance pixel '
            'offsets are the same value); every state is one implementation test incl. ==/!= both ways and copy.deepcopy; Lists.tla '
            'does the same for sliced/copied Regions lists. DictEq.tla: one meta/visual entry under every documented key x pairs of values (absent, None, default-like, empty, lists differing in length) x 7 classes, each pair replayed through ==/!= both ways. FieldEq.tla: for every class and field, every pair of valid tokens (2 208 single-field perturbations), directly built and through copy(field=value).',
            OBJ_NOTE, 'TLA+ heap model + TLC, one implementation test per reachable state (spec->code)', 'DESIGN.md section 5 C16', 'objects'),
    'C17': ('model_checking',
            'Objects.tla: AllValid and RejectIsStutter are invariants over constructions (every class, valid and one-bad-argument '
            'lists), descriptor assignments with every catalogue token, deletions, all dict mutation entry points and whole-dict '
            'assignment; Lists.tla over Regions list operations. Every reachable state (pre, act, out, post) is replayed against the '
            'real classes; TLC -simulate histories of depth 20 are replayed as call sequences. Dict updates holding a good and a bad key are all-or-nothing; every 4th state runs under enabled astropy unit equivalencies.',
            OBJ_NOTE + ' Open findings: annulus inner<outer not enforced on assignment; TextRegion.text deletable.',
            'TLA+ heap model + TLC, one implementation test per reachable state, simulated histories replayed', 'DESIGN.md section 5 C17', 'objects'),
})

CLAIMS.update({
    'C13': ('model_checking',
            'Purity.tla states that library operations leave object versions and module state unchanged and return a function of the '
            'argument value (history hidden by a VIEW); TLC-simulated call histories (<= 30 calls over a pool of regions of all classes, '
            'lists, coordinates, an image; contains/masks/area/boxes/conversion/rotation/copy/combine/artist/serialise/write/parse in all '
            'three formats) are replayed with deep fingerprints of every input and of all module tables before/after each call, each call '
            'repeated, results compared across the history and with a fresh interpreter under another hash seed; independent random '
            'histories are validated by Trace_Purity.tla.',
            'Trusts the fingerprint function (parameters bit-for-bit, meta/visual, arrays, WCS header, module-level containers of regions.*). '
            'State outside the pool and the module tables is not observed.',
            'TLA+ spec + TLC, simulated behaviours replayed with input/module-state fingerprints, trace validation', 'DESIGN.md section 5 C13', 'purity'),
})

CLAIMS.update({
    'C05': ('model_checking',
            'Placement.tla: the Impl of to_image/cutout/multiply through the overlap slices (as mask.py) is model-checked equal to the '
            'pixel-by-pixel placement Ref for every box position relative to the image (inside, straddling, outside, negative, empty, '
            'larger), None exactly when nothing overlaps; every state is replayed into the real RegionMask with int/float/Quantity data, '
            'fill 0/7/NaN/inf, copy flag and boolean mask (values, view-vs-copy, dtype/unit, inputs untouched); random boxes to 1e8 and '
            'images to 40x40 are validated by Trace_Placement.tla.',
            'Trusts TLC and the cell-by-cell comparison. multiply with non-zero fill: weight-0 and outside-image cells may be fill, fill*weight or 0 '
            '(left open by the statement); strict for fill 0.',
            'TLA+ spec + TLC exhaustive, spec->code replay of every state, code->spec trace validation', 'DESIGN.md section 5 C05', 'placement'),
})

CLAIMS.update({
    'C20': ('model_checking',
            'PixCoord.tla restates the numpy rules the class promises (broadcasting, basic/advanced indexing, iteration, length) on arrays '
            'modelled as functions from index tuples to integers, and the algebraic laws: (a+b)-b=a, separation symmetric and zero iff equal, '
            'rotation by a rational direction is an isometry for every operand shape, fixes the centre and composes by multiplying directions; '
            'TLC checks them on all shape pairs (broadcastable and not) x ~30 index expressions x rotations; every state is replayed into the '
            'real PixCoord (int and float dtypes); WCS round trips for origin 0/1 and mode all/wcs are checked against the origin-shift law on '
            'real WCS objects; random arrays/expressions are validated by Trace_PixCoord.tla.',
            'Trusts TLC and numpy as the executor of the replay comparison; rotation angles are rational directions; WCS projections are astropy\'s.',
            'TLA+ spec + TLC exhaustive, spec->code replay of every state, code->spec trace validation', 'DESIGN.md section 5 C20', 'pixcoord'),
})

CLAIMS.update({
    'C14': ('model_checking',
            'FileIO.tla splits a write into the steps the code takes (text formats: CheckExists -> Serialize -> OpenWrite; FITS: Serialize -> '
            'writeto) over destination states {absent, file, live symlink, dangling symlink} x overwrite x serialisation outcome; TLC checks '
            'NoClobber, FailureAtomic, SuccessComplete and that only the last step writes, and that the variant with the steps swapped '
            'VIOLATES FailureAtomic; every terminal state is executed with real files/symlinks and failing elements injected at each list '
            'position via Region.write and Regions.write; successful writes are read back by format, extension, content of a renamed copy '
            'and gzip copies; random write sequences over an evolving directory are validated by Trace_FileIO.tla. Registry.tla models the I/O '
            'registry and the format identifiers (Identify -> Lookup -> Invoke, registration, get_formats) for every registration order; its states '
            'are replayed into the real RegionsRegistry and the real identifiers are evaluated on real files for every extension x content signature.',
            'Real filesystem semantics of the sandbox. Dangling symlink without overwrite and overwrite through a live symlink are modelled '
            'nondeterministically (both behaviours allowed). Which lists fail to serialise is observed, not predicted.',
            'TLA+ spec + TLC (incl. negative self-test), terminal states executed on a real filesystem, trace validation', 'DESIGN.md section 5 C14', 'fileio'),
})

CLAIMS.update({
    'C12': ('model_checking',
            'Fits.tla models the writer (shape name, ! prefix, semi-axes, ROTANG, column padding, component numbering) and the reader (per-shape '
            'column map); TLC checks Decode(Encode(L)) = Representable(L) with identical integers, exclusion and components preserved, fresh '
            'components distinct, unsupported items as stutter steps, and the parse/serialise/parse fixed point over all lists of length <= 2 '
            '(and 3 over a smaller pool); with the code-shaped deviation BangBeforeMap the model itself yields the excluded-ellipse '
            'counterexample. Every state is replayed: real table compared column by column, real parse in memory and through a file, fixed '
            'point; box/rectangle/rotrectangle notations from hand-built tables; random lists of 1..8 validated by Trace_Fits.tla.',
            'Numbers are multiples of 1/4 pixel/degree (exact in FITS doubles). astropy.table/io.fits trusted for the byte format.',
            'TLA+ spec + TLC exhaustive, spec->code replay of every state, code->spec trace validation', 'DESIGN.md section 5 C12', 'fits'),
})

WCS_NOTE = ('The WCS family is the conformal affine one (CD = scale * rotation * parity) with TAN/SIN/CAR projections and ICRS/FK5/FK4/Galactic '
            'frames near the reference pixel; astropy projections and frame definitions are trusted; distorted WCS are not covered.')
CLAIMS.update({
    'C06': ('model_checking',
            'Wcs.tla (conformal affine abstraction; to_sky/to_pixel shaped like the code: lengths x// local scale, angle -/+ (north - 90 deg), '
            'meta/visual copied, compounds component-wise) is model-checked for ToPixel(ToSky(r)) = r on class, geometry, include and visual for '
            'every class incl. compounds, and for independence of the WCS rotation; every state is replayed on a real astropy WCS built from '
            'the record (classes, 1e-6 relative geometry after the round trips, equal meta/visual/include, sky membership = pixel-image '
            'membership away from the boundary); random conversion/copy walks are validated step by step by Trace_Wcs.tla.',
            WCS_NOTE, 'TLA+ spec + TLC, spec->code replay on real WCS objects, code->spec trace validation', 'DESIGN.md section 5 C06', 'wcs'),
    'C07': ('model_checking',
            'The model chooses the intended pixel image (lattice centre, sizes, one of 44 rational directions) and the WCS record (44 rotations x '
            '4 scales); TLC checks that the sky description does not depend on the WCS rotation and that sizes scale; the harness derives the '
            'real sky region from the model, calls the real to_pixel and compares centre (1e-6 px), sizes (1e-7 + 2 theta^2) and angle '
            '(0.005 deg + 2 theta tan|lat|, or 2e-7 rad exactly at the reference pixel) - tolerances derived from the affine abstraction, '
            'not tuned; the recorded results are validated against the integer prediction by Trace_Wcs7.tla.',
            WCS_NOTE, 'TLA+ spec + TLC, spec->code replay on real WCS objects, code->spec trace validation', 'DESIGN.md section 5 C07', 'wcs'),
})

CLAIMS.update({
    'C18': ('model_checking',
            'The exact membership of every lattice point (Geometry.tla, model-checked families with the 44 rational directions) is the oracle for '
            'the patch outline: the real as_artist(origin) path is taken to data coordinates, split into sub-paths, scaled by 1e4 and queried with '
            'contains_points at the lattice points shifted by the origin; annuli must give outer + oppositely oriented inner outline (signed '
            'areas) with hole = outer and not inner; points/text/lines/bounding boxes/regular polygons are compared by position. Artist.tla '
            '(kwargs = defaults (+) translated visual (+) caller kwargs) is model-checked and every state replayed against the real artist '
            'properties; random shapes/origins are validated by Trace_Geometry.tla.',
            'matplotlib Path.contains_points at scale 1e4 is trusted; a 1e-3 relative band around Bezier-approximated circle/ellipse outlines '
            'and EDGE points are not compared; pixel-exact rendering is not covered.',
            'TLA+ exact lattice model + TLC as oracle for patch outlines, Artist.tla kwargs law replayed, trace validation', 'DESIGN.md section 5 C18', 'artist'),
})

DS9_NOTE = ('Trusts TLC, the concretiser/tokenizer of abstract DS9 lines (vf/ds9text.py, ~250 lines, independent of the library regexes) and astropy '
            'for angle parsing. The supported subset is the one the reader documents.')
CLAIMS.update({
    'C09': ('model_checking',
            'Ds9Write.tla (SerializeOne, Translate, Hoist, EmitFrame, Skip) composed with the reader state machine of Ds9.tla is model-checked for '
            'Read(Write(L)) = Expressible(L), skip-does-not-alter and the parse/serialise/parse fixed point over lists from a 14-region pool; with '
            'the pre-fix deviations (include written verbatim / hoisted) the model itself yields the lost-exclusion counterexample. Every state is '
            'replayed: the real text is tokenised independently and compared line by line with the model (hoisted keys, frame placement, per-line '
            'properties, numbers), the real parse compared with the model, determinism; random lists of 1..8 regions (ten shapes, six frames, '
            'precision 1..12) and all bundled .reg files go through two serialise/parse cycles; numbers validated by Trace_Ds9Write.tla. '
            'Ds9Visual.tla transcribes the DS9 <-> matplotlib translation of visual properties case by case (82 944 combinations model-checked for '
            'the fixed point and the shape-dependent filtering), every state replayed through the real reader and writer.',
            DS9_NOTE + ' Half-unit tolerance inclusive plus the resolution of a double; open findings: sizes below half a unit are written as 0.0; '
            'annulus sizes that collide after rounding.',
            'TLA+ writer+reader composition in TLC, spec->code replay with independent tokenizer, trace validation', 'DESIGN.md section 5 C09', 'ds9'),
    'C10': ('model_checking',
            'Ds9.tla: the reader as a line-consuming state machine (frame, global, composite, out, warn) with a lexical layer giving every '
            'coordinate/size/angle token its canonical value (1-based pixel shift for positions only, semi-axes, bare = degrees/pixels, suffixes '
            '", \', d, r, i, sexagesimal with hours only for equatorial longitudes), multi-radius expansion, precedence global < composite < sign < '
            'inline; TLC checks no-region-without-frame, skip-is-stutter, non-interference, unsupported-frame-clears over all files of <= 3 lines '
            '(+ framed 4-line files; 4 lines thorough) and a lexical config (shape x frame x notation x unit x sign). Every final state is rendered '
            'in interchangeable styles and parsed by the real reader (regions, numbers to 1e-9, include, text, tags, colour precedence, warning '
            'count); long generated files are validated by Trace_Ds9.tla. A guarded hook logs the reader\'s persistent variables after every '
            'physical line; Trace_Ds9Steps.tla steps Ds9!StepLine along each file and requires the projected model state to equal the logged one '
            'after every line (corrupted logs must be rejected in every run).',
            DS9_NOTE, 'TLA+ reader state machine + TLC, spec->code replay through a concretiser, trace validation', 'DESIGN.md section 5 C10', 'ds9'),
})

CLAIMS.update({
    'C11': ('model_checking',
            'Crtf.tla: the CASA reader as a state machine over global/region/comment lines with a lexical layer (deg, rad, hms, hh:mm:ss, dd.mm.ss, '
            'pix; lengths with units; ellipse [major, minor] semi-axes; box/centerbox/rotbox -> rectangle; inline overrides global; coord= selects '
            'the frame; - excludes; ann marks annotations) and the writer (ToLine in the serialiser coordinate system, radunit, halved and swapped '
            'ellipse axes, label quoting) composed with it; TLC checks the reader rules, Read(Write(L, opts)) = L and the fixed point. Reader '
            'states are rendered to text and parsed by the real reader; writer states are replayed with an independent tokenizer and parsed '
            'back; random lists (fmt .3f-.9f, radunit deg/arcmin/arcsec, own frame or another coordsys) go through two cycles with the half-unit '
            'clause validated in TLC. A guarded hook logs the parser state (global_meta, number of shapes) after every line; Trace_CrtfSteps.tla '
            'validates it step by step against Crtf!StepLine.',
            'Transforms between different celestial frames are astropy\'s (positions compared on the sky). In the image coordinate system the '
            'reader takes bare numeric values as pixels whatever their unit suffix and the writer emits pixel positions with a deg suffix; this is '
            'modelled as the code does (see DESIGN.md). Metadata values are compared as text.',
            'TLA+ reader/writer composition in TLC, spec->code replay through concretiser and tokenizer, trace validation', 'DESIGN.md section 5 C11', 'crtf'),
})

CLAIMS.update({
    'C03': ('model_checking',
            'PARTIAL. Overlap.tla states consequences of "the value is the area of shape /\\ pixel" that can be decided with integers: a sound '
            'rational bracket per pixel (sub-cells with four member corners are inside; sub-cells whose centre lies outside the shape inflated '
            'by the sub-cell size are outside), exactly 1/0 for pixels without a mixed sub-cell, finiteness and [0,1]; TLC checks the bracket '
            'for internal consistency on circle/ellipse families; every value of to_mask(\'exact\') for dyadic circles/ellipses is validated '
            'by Trace_Overlap.tla, together with additivity under refinement of the kernel grid, equality under re-description of the same '
            'ellipse and sum = analytic area.',
            'The 1e-8 agreement of each value with an independently computed area is NOT decided: an error smaller than the bracket (~ mixed '
            'sub-cells / 16) that is also additive, symmetric and area-preserving would pass. Open finding: the ellipse kernel is wrong at '
            'degenerate alignments (Cython source cannot be rebuilt here).',
            'TLA+ measure axioms with a rational bracket, code->spec trace validation of every mask value', 'DESIGN.md section 5 C03', 'overlap'),
})

PENDING_REASON = ('specification module for this property is designed in DESIGN.md but its TLA+ module and '
                  'conformance binding are not built yet; not claimed until they are')


def build():
    checks = []
    for pid in ALL:
        if pid not in CLAIMS:
            continue
        cat, text, note, tech, ref, eng = CLAIMS[pid]
        checks.append({
            'property_id': pid,
            'quick_cmd': f'./check {pid} --tier quick',
            'thorough_cmd': f'./check {pid} --tier thorough',
            'evidence_file': f'/verif/evidence/{pid}.json',
            'replay_cmd_template': f'./check {pid} --replay {{path}}',
            'engine': eng,
            'level_claimed': {'category': cat, 'text': text, 'design_ref': ref},
            'level_note': note,
            'technique': tech,
        })
    try:
        commits = subprocess.run(['git', '-C', '/repo', 'log', '--format=%H %s'], stdout=subprocess.PIPE,
                                 text=True).stdout.splitlines()
    except Exception:
        commits = []
    hooks = [c.split()[0] for c in commits if ' verif hooks:' in c]
    man = {
        'version': 1,
        'setup_cmd': './setup.sh',
        'hooks': {
            'guard': 'ASTROPY_REGIONS_VERIF',
            'enable': 'environment variable ASTROPY_REGIONS_VERIF=1 set by ./check before importing regions '
                      '(editable install: checks import /repo working tree directly; generated _geometry/*.c newer '
                      'than their .so are recompiled in place)',
            'baseline_off_cmd': 'cd /repo && env -u ASTROPY_REGIONS_VERIF /venv/bin/python -m pytest -ra -q -p '
                                'no:cacheprovider --timeout=900 --continue-on-collection-errors',
            'source_commits': hooks,
            'add_only': True,
        },
        'engines': ENGINES,
        'checks': checks,
        'not_applicable': [{'property_id': p, 'reason': NA.get(p, PENDING_REASON)} for p in ALL if p not in CLAIMS],
        'notes': 'Every check is ./check <id>: (A) TLC on the TLA+ module(s) of the property, (B) replay of '
                 'TLC-generated states/behaviours into the real package, (C) validation by a Trace_*.tla module of '
                 'events recorded from the real package. Exit 2 = machinery failure. known_findings.json lists '
                 'open findings (printed as KNOWN-FINDING) and fixed ones (suppress nothing). vf/par.py replays TLC dumps in forked workers; '
                 'hooks (regions/_utils/verif.py, emit calls in the DS9/CRTF readers) are inert unless ASTROPY_REGIONS_VERIF=1.',
    }
    return man


ENGINES = [
    {'name': 'bbox', 'path': 'specs/BBox.tla specs/BBoxClosed.tla specs/Trace_BBox.tla specs/proofs/BBoxLaws.tla '
                             'vf/engines/c19.py', 'serves_properties': ['C19'],
     'kind_free_text': 'TLA+ model of integer rectangle algebra; TLC exhaustive + replay + trace validation + TLAPS'},
]
ENGINES.append({'name': 'geometry', 'path': 'specs/Geometry.tla specs/MC_Geometry.tla specs/Trace_Geometry.tla vf/geom.py '
                'vf/geomgen.py vf/engines/c01.py c02.py c04.py c08.py c15.py', 'serves_properties': ['C01', 'C02', 'C04', 'C08', 'C15'],
                'kind_free_text': 'exact integer lattice model of pixel-region geometry; TLC exhaustive on families, replay, trace validation'})
ENGINES.append({'name': 'objects', 'path': 'specs/Objects.tla specs/MC_Objects.tla specs/Lists.tla vf/objs.py vf/engines/c16.py c17.py lists.py',
                'serves_properties': ['C16', 'C17'], 'kind_free_text': 'heap model with identity; every state an implementation test'})
ENGINES.append({'name': 'purity', 'path': 'specs/Purity.tla specs/Trace_Purity.tla vf/purity.py vf/engines/c13.py',
                'serves_properties': ['C13'], 'kind_free_text': 'call histories from TLC -simulate replayed with deep fingerprints; fresh-interpreter comparison'})
ENGINES.append({'name': 'placement', 'path': 'specs/PlacementOps.tla specs/Placement.tla specs/Trace_Placement.tla vf/engines/c05.py',
                'serves_properties': ['C05'], 'kind_free_text': 'exact placement model of RegionMask operations'})
ENGINES.append({'name': 'pixcoord', 'path': 'specs/PixCoord.tla specs/MC_PixCoord.tla specs/Trace_PixCoord.tla vf/engines/c20.py',
                'serves_properties': ['C20'], 'kind_free_text': 'array model of PixCoord: broadcasting, indexing, group laws, rotation'})
ENGINES.append({'name': 'fileio', 'path': 'specs/FileIO.tla specs/Trace_FileIO.tla specs/Registry.tla specs/MC_Registry.tla vf/engines/c14.py vf/engines/registry.py',
                'serves_properties': ['C14'], 'kind_free_text': 'step-ordered write model executed on a scratch filesystem'})
ENGINES.append({'name': 'fits', 'path': 'specs/Fits.tla specs/MC_Fits.tla specs/Trace_Fits.tla vf/engines/c12.py',
                'serves_properties': ['C12'], 'kind_free_text': 'FITS region table writer/reader model'})
ENGINES.append({'name': 'wcs', 'path': 'specs/Wcs.tla specs/MC_Wcs.tla specs/Trace_Wcs.tla specs/Trace_Wcs7.tla vf/wcsutil.py vf/engines/c06.py c07.py',
                'serves_properties': ['C06', 'C07'], 'kind_free_text': 'conformal affine WCS abstraction of region conversion'})
ENGINES.append({'name': 'artist', 'path': 'specs/Artist.tla specs/Geometry.tla vf/engines/c18.py',
                'serves_properties': ['C18'], 'kind_free_text': 'patch outlines against exact membership; kwargs merge law'})
ENGINES.append({'name': 'ds9', 'path': 'specs/Ds9.tla specs/MC_Ds9.tla specs/Ds9Write.tla specs/MC_Ds9Write.tla specs/Trace_Ds9.tla specs/Trace_Ds9Write.tla specs/Trace_Ds9Steps.tla specs/Ds9Visual.tla specs/MC_Ds9Visual.tla vf/ds9text.py vf/engines/c09.py c10.py ds9visual.py',
                'serves_properties': ['C09', 'C10'], 'kind_free_text': 'DS9 reader state machine and writer model, concretiser and tokenizer'})
ENGINES.append({'name': 'crtf', 'path': 'specs/Crtf.tla specs/MC_Crtf.tla specs/Trace_CrtfSteps.tla vf/crtftext.py vf/engines/c11.py',
                'serves_properties': ['C11'], 'kind_free_text': 'CRTF reader/writer model with concretiser and tokenizer'})
ENGINES.append({'name': 'overlap', 'path': 'specs/Overlap.tla specs/MC_Overlap.tla specs/Trace_Overlap.tla vf/engines/c03.py',
                'serves_properties': ['C03'], 'kind_free_text': 'measure axioms for exact overlap masks'})
NA = {}


def main():
    man = build()
    with open(os.path.join(ROOT, 'MANIFEST.json'), 'w') as f:
        json.dump(man, f, indent=1)
    try:
        import jsonschema
        jsonschema.validate(man, json.load(open('/root/.vp/MANIFEST.schema.json')))
        print('MANIFEST.json valid;', len(man['checks']), 'checks,', len(man['not_applicable']), 'not applicable')
    except ImportError:
        print('jsonschema not available; MANIFEST.json written unvalidated')


if __name__ == '__main__':
    main()
