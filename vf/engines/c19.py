"""C19 — bounding-box arithmetic is exact integer rectangle algebra.

(A) TLC checks BBox.tla (Impl refines Ref) exhaustively on a bounded universe.
(B) every 'ret' state of that model is replayed into the real RegionBoundingBox.
(C) random calls on the real class (corners to 1e9, numpy integer types, float rectangles on
    the 1/8 lattice) are recorded and validated by Trace_BBox.tla.
Thorough adds the TLAPS proofs of the unbounded lattice laws.
"""
import json
import os
import random

from .. import tlc
from ..tlaparse import parse_dump

CFG = """SPECIFICATION Spec
CONSTANTS Lo <- {lo}
 Hi = {hi}
 MaxImg = {img}
 Ops <- {ops}
 FLo <- {flo}
 FHi = {fhi}
 FixSlices = TRUE
{invs}
CHECK_DEADLOCK FALSE
"""
INVS = {
    'OpsPair': ['InvUnion', 'InvIntersect', 'InvClosedAgrees'],
    'OpsUnary': ['InvShape', 'InvCenter', 'InvExtent', 'InvSlices', 'InvClosedAgrees'],
    'OpsFloat': ['InvFromFloat', 'InvClosedAgrees'],
    'OpsAssoc': ['InvAssocUnion', 'InvAssocInter'],
    'OpsRegion': ['InvToRegion', 'InvAsArtist'],
}


def neg(n):
    return {0: 'Z0', -1: 'M1', -2: 'M2', -3: 'M3', -4: 'M4', -5: 'M5', -12: 'M12', -20: 'M20'}[n]


def proj_box(b):
    if b is None:
        return []
    return [int(b.ixmin), int(b.ixmax), int(b.iymin), int(b.iymax)]


def proj_slices(res, box, shape):
    """Observe the returned slices by applying them to index arrays."""
    sl, ss = res
    if sl is None or ss is None:
        return [] if (sl is None and ss is None) else {'exc': 'half-None'}
    h, w = shape
    bh, bw = box[3] - box[2], box[1] - box[0]

    def rng(s, n):
        st, sp, step = s.indices(n)      # what indexing an axis of length n would select
        if step != 1:
            return ['noncontiguous']
        if sp <= st:
            return [int(st), int(st)]
        return [int(st), int(sp)]
    # a negative start/stop in the slice object is a wrap-around even if numpy accepts it
    for s in (*sl, *ss):
        if (s.start is not None and s.start < 0) or (s.stop is not None and s.stop < 0):
            return {'exc': 'negative-slice'}
    return [[rng(sl[0], h), rng(sl[1], w)], [rng(ss[0], bh), rng(ss[1], bw)]]


def value_ok(r, B):
    """A box is its four corners: once its centre, extent and shape have been looked at it still equals a box with the same corners,
    and after a corner has been re-assigned they follow the new pixel set."""
    if r is None:
        return None
    looked = (r.center, r.extent, r.shape)      # noqa: F841
    same_corners = B(r.ixmin, r.ixmax, r.iymin, r.iymax)
    if not (r == same_corners and same_corners == r) or (r != same_corners):
        return 'a box whose centre / extent have been read no longer equals a box with the same corners'
    moved = B(r.ixmin, r.ixmax, r.iymin, r.iymax)
    looked = (moved.center, moved.extent, moved.shape)      # noqa: F841
    moved.ixmax = moved.ixmax + 2
    moved.iymin = moved.iymin - 1
    fresh = B(r.ixmin, r.ixmax + 2, r.iymin - 1, r.iymax)
    if tuple(moved.center) != tuple(fresh.center) or tuple(moved.extent) != tuple(fresh.extent) or tuple(moved.shape) != tuple(fresh.shape) or not (moved == fresh):
        return 'centre / extent / shape do not follow a re-assigned corner'
    return None


def call(op, a, b, c, img, flt, B, wrap=int, eps=(0, 0, 0, 0), epsk=20, wrapb=None):
    """Perform one operation on the real class; return the projected result.  Every other call runs with warnings turned into errors:
    building an empty box, or the empty intersection of touching boxes, is ordinary use and may not fail under `-W error`."""
    import warnings
    with warnings.catch_warnings():
        if (int(a[0]) + int(a[2]) + int(b[0] if len(b) else 0)) % 2:
            warnings.simplefilter('error')
        return _call(op, a, b, c, img, flt, B, wrap, eps, epsk, wrapb)


def _call(op, a, b, c, img, flt, B, wrap, eps, epsk, wrapb):
    try:
        if op == 'from_float':
            d = 2.0 ** -epsk
            return proj_box(B.from_float(flt[0] / 8.0 + eps[0] * d, flt[1] / 8.0 + eps[1] * d, flt[2] / 8.0 + eps[2] * d, flt[3] / 8.0 + eps[3] * d))
        A = B(*[wrap(v) for v in a])
        wrapb = wrapb or wrap
        if op == 'union':
            r1 = A.union(B(*[wrapb(v) for v in b]))
            r2 = A | B(*[wrapb(v) for v in b])
            if proj_box(r1) != proj_box(r2):
                return {'exc': 'union!=|'}
            bad = value_ok(r1, B)
            if bad or not (r1 == r2 and (B(*[wrapb(v) for v in b]) | A) == r1):
                return {'exc': bad or 'a | b, a.union(b) and b | a do not compare equal'}
            return proj_box(r1)
        if op == 'intersection':
            r1 = A.intersection(B(*[wrapb(v) for v in b]))
            r2 = A & B(*[wrapb(v) for v in b])
            if proj_box(r1) != proj_box(r2):
                return {'exc': 'intersection!=&'}
            bad = value_ok(r1, B)
            if bad or (r1 is not None and not (r1 == r2 and (B(*[wrapb(v) for v in b]) & A) == r1)):
                return {'exc': bad or 'a & b, a.intersection(b) and b & a do not compare equal'}
            return proj_box(r1)
        if op == 'shape':
            return [int(v) for v in A.shape]
        if op == 'center':
            cy, cx = A.center
            if (2 * cy) != int(2 * cy) or (2 * cx) != int(2 * cx):
                return {'exc': 'center-not-half-integer'}
            return [int(2 * cy), int(2 * cx)]
        if op == 'extent':
            e = A.extent
            return [int(round(2 * float(v))) if 2 * float(v) == round(2 * float(v)) else 'frac' for v in e]
        if op == 'slices':
            return proj_slices(A.get_overlap_slices((img[0], img[1])), [int(v) for v in a], img)
        if op == 'to_region':
            try:
                r = A.to_region()
            except ValueError:
                return []          # refused: an empty box has no rectangle region
            vals = [2 * float(r.center.x), 2 * float(r.center.y), float(r.width), float(r.height)]
            if type(r).__name__ != 'RectanglePixelRegion' or float(r.angle.value) != 0.0 or any(v != int(v) for v in vals):
                return {'exc': f'not an axis-aligned half-integer rectangle: {r!r}'}
            if a[0] < a[1] and a[2] < a[3] and proj_box(r.bounding_box) != [int(v) for v in a]:
                return {'exc': f'to_region().bounding_box = {proj_box(r.bounding_box)}'}
            return [int(v) for v in vals]
        if op == 'as_artist':
            import matplotlib
            matplotlib.use('Agg')
            p = A.as_artist()
            vals = [2 * float(p.get_x()), 2 * float(p.get_y()), float(p.get_width()), float(p.get_height())]
            if any(v != int(v) for v in vals):
                return {'exc': f'patch not on the half-integer lattice: {vals}'}
            return [int(v) for v in vals]
        if op == 'assoc_union':
            Bb, Cc = B(*b), B(*c)
            return proj_box(A.union(Bb).union(Cc))
        if op == 'assoc_inter':
            Bb, Cc = B(*b), B(*c)
            ab = A.intersection(Bb)
            return proj_box(None if ab is None else ab.intersection(Cc))
    except Exception as ex:  # noqa
        return {'exc': type(ex).__name__}
    raise AssertionError(op)


def same(op, model, real):
    if op == 'slices' and model != [] and isinstance(real, list) and real != []:
        return model == real
    if op == 'assoc_inter':
        def empty(r):
            return r == [] or (isinstance(r, list) and (r[0] >= r[1] or r[2] >= r[3]))
        if empty(model) and empty(real):
            return True
    if op == 'intersection' and isinstance(real, list) and real != [] and model != []:
        return model == real
    return model == real


def _state_fn(rec, s, idx):
    from regions import RegionBoundingBox as B
    op = s['op']
    real = call(op, s['a'], s['b'], s['c'], s['img'], s['flt'], B)
    rec.traces += 1
    nontriv = op in ('from_float',) or (s['a'][0] < s['a'][1] and s['a'][2] < s['a'][3])
    rec.case((op, tuple(s['a']), tuple(s['b']), tuple(s['c']), tuple(s['img']), tuple(s['flt'])), nontriv)
    if not same(op, s['res'], real):
        rec.violation(f'C19|replay|{op}|{_kind(op, s, real)}',
                      f'{op}: model says {s["res"]}, RegionBoundingBox gives {real}',
                      {'op': op, 'a': s['a'], 'b': s['b'], 'c': s['c'], 'img': s['img'], 'flt8': s['flt'],
                       'model': s['res'], 'real': real})
    elif idx % 9973 == 1:
        rec.sample({'op': op, 'a': s['a'], 'b': s['b'], 'img': s['img'], 'flt8': s['flt'], 'res': s['res']})


def run(ctx):
    from regions import RegionBoundingBox as B
    quick = ctx.tier == 'quick'
    configs = [
        ('pairs', 'OpsPair', dict(lo=-2, hi=2, img=1, flo=-4, fhi=4) if quick else dict(lo=-3, hi=3, img=1, flo=-4, fhi=4)),
        ('unary+slices', 'OpsUnary', dict(lo=-3, hi=4, img=4, flo=-4, fhi=4) if quick else dict(lo=-4, hi=6, img=7, flo=-4, fhi=4)),
        ('from_float', 'OpsFloat', dict(lo=-1, hi=1, img=1, flo=-12, fhi=12) if quick else dict(lo=-1, hi=1, img=1, flo=-20, fhi=20)),
        ('to_region+as_artist', 'OpsRegion', dict(lo=-3, hi=4, img=1, flo=-4, fhi=4) if quick else dict(lo=-5, hi=6, img=1, flo=-4, fhi=4)),
        ('triples', 'OpsAssoc', dict(lo=0, hi=2, img=1, flo=-4, fhi=4) if quick else dict(lo=-1, hi=2, img=1, flo=-4, fhi=4)),
    ]
    for what, ops, k in configs:
        cfg = CFG.format(lo=neg(k['lo']), hi=k['hi'], img=k['img'], ops=ops, flo=neg(k['flo']), fhi=k['fhi'],
                         invs='\n'.join(f'INVARIANT {i}' for i in INVS[ops]))
        res = tlc.run('MC_BBox', cfg_text=cfg, dump=True, coverage=True, tag='c19')
        ctx.tlc(res, f'MC_BBox {what} corners {k["lo"]}..{k["hi"]}')
        if res.violated:
            ctx.violation(f'C19|model|{res.violated}', f'BBox.tla: invariant {res.violated} violated in the model',
                          {'trace': res.trace})
            tlc.cleanup(res.workdir)
            continue
        if res.coverage.get('Return', (0, 0))[0] == 0:
            raise tlc.TlcError('vacuous: Return never taken')
        from .. import par
        before = ctx.traces
        par.pmap_dump(ctx, _state_fn, res.dump_path, only='pc = "ret"', chunk=4000)
        n = ctx.traces - before
        ctx.note(f'replayed_{what}', n)
        tlc.cleanup(res.workdir)
    trace_validation(ctx, B)
    proofs(ctx)


def _kind(op, s, real):
    if op == 'slices' and s['res'] == [] and isinstance(real, list) and real != []:
        return 'empty-selection-not-None'
    return 'mismatch'


def trace_validation(ctx, B):
    import numpy as np
    rnd = random.Random(ctx.seed * 7919 + 19)
    n = 3000 if ctx.tier == 'quick' else 40000
    ints = [int, np.int8, np.int16, np.int32, np.int64, np.uint8, np.uint16, np.intp]

    def box(mag, signed=True):
        lo = -mag if signed else 0
        x0, x1 = sorted(rnd.randint(lo, mag) for _ in range(2))
        y0, y1 = sorted(rnd.randint(lo, mag) for _ in range(2))
        if rnd.random() < 0.08:
            x1 = x0
        if rnd.random() < 0.08:
            y1 = y0
        return [x0, x1, y0, y1]
    events = []
    for k in range(n):
        op = rnd.choice(['union', 'intersection', 'shape', 'center', 'extent', 'slices', 'slices', 'from_float'])
        wrap = rnd.choice(ints)
        if wrap is int:
            mag = rnd.choice([3, 20, 1000, 10 ** 6, 10 ** 9])
            signed = True
        else:
            info = np.iinfo(wrap)
            mag = min(int(info.max), 10 ** 9)         # the whole range of the type: a side length may exceed what the type itself can hold
            signed = info.min < 0
        a = box(mag, signed)
        b = box(mag, signed)
        if rnd.random() < 0.3:   # near a: touching / overlapping
            dx, dy = rnd.randint(-3, 3), rnd.randint(-3, 3)
            b = [a[1] + dx, a[1] + dx + rnd.randint(0, 4), a[2] + dy, a[2] + dy + rnd.randint(0, 4)]
            if not signed:
                b = [max(v, 0) for v in b]
                b = [b[0], max(b[0], b[1]), b[2], max(b[2], b[3])]
            if wrap is not int:
                # stay inside the type the corners are handed over in (a box next to one at the end of the range)
                lo_t, hi_t = int(np.iinfo(wrap).min), int(np.iinfo(wrap).max)
                b = [min(max(v, lo_t), hi_t) for v in b]
                b = [b[0], max(b[0], b[1]), b[2], max(b[2], b[3])]
        img = [rnd.choice([0, 1, 2, 5, 40, mag]), rnd.choice([0, 1, 3, 7, 40, mag])]
        if op == 'slices' and rnd.random() < 0.5:
            a = box(min(mag, 12), signed)
            img = [rnd.randint(0, 8), rnd.randint(0, 8)]
        flt = [0, 0, 0, 0]
        if op == 'from_float':
            m8 = rnd.choice([40, 8000, 8 * 10 ** 6])
            fx = sorted(rnd.randint(-m8, m8) for _ in range(2))
            fy = sorted(rnd.randint(-m8, m8) for _ in range(2))
            if rnd.random() < 0.5:      # exactly on rounding boundaries (k + 1/2)
                fx = [8 * (fx[0] // 8) + 4, 8 * (fx[1] // 8) + 4]
            flt = fx + fy
        eps, epsk = [0, 0, 0, 0], 20
        if op == 'from_float' and rnd.random() < 0.6:
            # just below / just above the lattice value (and hence just below / above every rounding boundary k + 1/2)
            eps = [rnd.choice([-1, 0, 1]) for _ in range(4)]
            epsk = rnd.choice([10, 18, 22, 26, 30]) if max(abs(v) for v in flt) < 8 * 10 ** 4 else 10
            if flt[0] == flt[1] and eps[0] > eps[1]:
                eps[1] = eps[0]
            if flt[2] == flt[3] and eps[2] > eps[3]:
                eps[3] = eps[2]
        wrapb = wrap
        if op in ('union', 'intersection') and rnd.random() < 0.4:
            # the two boxes hold their corners in different integer types (a small / unsigned numpy type with large or negative Python ints)
            wrapb = rnd.choice([t for t in ints if t is not wrap])
            if wrapb is int:
                b = box(rnd.choice([1000, 10 ** 6, 10 ** 9]), True)
            else:
                infob = np.iinfo(wrapb)
                b = box(min(int(infob.max), 10 ** 9), infob.min < 0)
        real = call(op, a, b, [0, 0, 0, 0], img, flt, B, wrap=wrap, eps=eps, epsk=epsk, wrapb=wrapb)
        if isinstance(real, dict):
            res = real
        else:
            res = real
        events.append({'op': op, 'a': a, 'b': b, 'img': img, 'flt': flt, 'eps': eps, 'epsk': epsk, 'res': res, 'wrap': wrap.__name__ + '/' + wrapb.__name__})
    # exceptions are not explainable by the spec: all of these calls are within the domain
    tl_events = []
    for e in events:
        if isinstance(e['res'], dict):
            ctx.violation(f"C19|trace|{e['op']}|exception", f"{e['op']} raised {e['res']['exc']} on valid input", e)
        else:
            tl_events.append(e)
    wd = tlc.workdir('c19trace')
    path = os.path.join(wd, 'events.json')
    with open(path, 'w') as f:
        json.dump([{k: v for k, v in e.items() if k not in ('wrap', 'epsk')} for e in tl_events], f)
    res = tlc.run('Trace_BBox', cfg='Trace_BBox.cfg', dump=True, env={'TRACE_FILE': path}, tag='c19trace')
    ctx.tlc(res, 'Trace_BBox validation of recorded calls')
    seen = 0
    for s in parse_dump(res.dump_path):
        seen += 1
        e = tl_events[s['i'] - 1]
        ctx.case(('trace', json.dumps(e, sort_keys=True)), True)
        if s['verdict'] != 'ok':
            ctx.violation(f"C19|trace|{s['verdict']}", f"recorded call rejected by Trace_BBox: {s['verdict']}", e)
    if seen != len(tl_events):
        raise tlc.TlcError(f'Trace_BBox produced {seen} verdicts for {len(tl_events)} events')
    ctx.traces += seen
    ctx.note('trace_events_validated', seen)
    if tl_events:
        ctx.sample({'trace_event': tl_events[0]})
    tlc.cleanup(res.workdir)
    tlc.cleanup(wd)


def proofs(ctx, modules=('BBoxLaws', 'SliceLaws', 'FloatLaws')):
    """Unbounded TLAPS proofs: lattice laws of union / intersection, the overlap-window arithmetic of get_overlap_slices, the rounding law of from_float."""
    from .. import tlaps
    tot_ob = tot_ok = 0
    for module in modules:
        ob, ok, out = tlaps.prove(module)
        ctx.note(f'tlaps_{module}', f'{ok}/{ob} obligations')
        tot_ob += ob
        tot_ok += ok
        if ob == 0 or ob != ok:
            raise tlc.TlcError(f'TLAPS: {ok}/{ob} obligations proved for {module}\n{out[-2000:]}')
    ctx.note('tlaps_obligations', tot_ob)
    ctx.note('tlaps_discharged', tot_ok)
