"""C18 — the matplotlib artist of a region depicts the region.

(A) TLC checks Artist.tla (kwargs = defaults (+) translated visual (+) caller kwargs, right-most
    wins) and MC_Geometry 'contains' supplies the exact membership of every lattice point.
(B) real as_artist(origin, **kw) for every shape state: the patch path is taken to data
    coordinates, split into sub-paths, scaled by 1e4 (Agg flattens curves to an absolute tolerance)
    and contains_point is evaluated at the model's lattice points shifted by the origin: it must
    equal the model's membership, excluding EDGE and a 1e-3 relative band around Bezier-approximated
    outlines.  Annuli: outer and inner sub-paths with opposite orientation (signed areas), hole =
    outer and not inner.  Points / text sit at position - origin, lines run from start to end.
    Every Artist.tla state is replayed against get_edgecolor / get_linewidth / marker / text props.
(C) random shapes and origins validated by Trace_Geometry (the patch's point set is logged as a
    'contains' event of the region).
"""
import math
import random
import warnings

import numpy as np

from .. import geom, geomgen, tlc
from ..tlaparse import parse_dump
from .c01 import cfg, kind_sig, validate_events

SCALE = 1e4
BEZIER = {'circle', 'ellipse', 'cannulus', 'eannulus'}


def subpaths(patch):
    """Patch outline in data coordinates, split at MOVETO into separate closed paths (scaled)."""
    from matplotlib.path import Path
    p = patch.get_patch_transform().transform_path(patch.get_path()) if not type(patch).__name__ == 'PathPatch' else patch.get_path()
    v, c = np.asarray(p.vertices), p.codes
    if c is None:
        return [Path(v * SCALE)]
    starts = [i for i, k in enumerate(c) if k == Path.MOVETO] + [len(c)]
    out = []
    for a, b in zip(starts[:-1], starts[1:]):
        out.append(Path(v[a:b] * SCALE, c[a:b]))
    return out


def signed_area(path):
    v = np.asarray(path.to_polygons()[0]) if path.to_polygons() else np.zeros((0, 2))
    if len(v) < 3:
        return 0.0
    x, y = v[:, 0], v[:, 1]
    return 0.5 * float(np.dot(x[:-1], y[1:]) - np.dot(y[:-1], x[1:]))


def near_boundary(s, xs_u, ys_u, band):
    """Lattice points whose normalised distance to a Bezier-approximated outline is below `band` (relative)."""
    out = np.zeros(len(xs_u), dtype=bool)
    k = s['k']
    cx, cy = s.get('cx', 0), s.get('cy', 0)
    dx, dy = xs_u - cx, ys_u - cy

    def circ(r):
        return np.abs(np.hypot(dx, dy) / r - 1.0) < band

    def ell(w, h, d):
        c, sn = d[0] / d[2], d[1] / d[2]
        u, v = c * dx + sn * dy, sn * dx - c * dy
        q = np.sqrt((2 * u / w) ** 2 + (2 * v / h) ** 2)
        return np.abs(q - 1.0) < band * max(w / h, h / w)
    if k == 'circle':
        out |= circ(s['r'])
    elif k == 'ellipse':
        out |= ell(s['w'], s['h'], s['d'])
    elif k == 'cannulus':
        out |= circ(s['r1']) | circ(s['r2'])
    elif k == 'eannulus':
        out |= ell(s['w1'], s['h1'], s['d']) | ell(s['w2'], s['h2'], s['d'])
    return out


def outline_error(path, s, which, U, fr, ox, oy):
    """Largest relative distance of the points of a curved outline (every Bezier segment sampled at 9 parameters) from the
    circle / ellipse it stands for; `which` selects the inner (1) or outer (2) outline of an annulus, 0 a plain shape."""
    ts = np.linspace(0.0, 1.0, 9)
    pts = []
    for seg, _code in path.iter_bezier():
        pts.extend(seg(ts))
    pts = np.asarray(pts) / SCALE
    xu = (pts[:, 0] + ox) / fr.scale * U - s.get('cx', 0)
    yu = (pts[:, 1] + oy) / fr.scale * U - s.get('cy', 0)
    k = s['k']
    if k in ('circle', 'cannulus'):
        r = s['r'] if k == 'circle' else (min(s['r1'], s['r2']) if which == 1 else max(s['r1'], s['r2']))
        q = np.hypot(xu, yu) / r
    else:
        if k == 'ellipse':
            w, h = s['w'], s['h']
        else:
            inner_first = s['w1'] < s['w2']
            w, h = (s['w1'], s['h1']) if (which == 1) == inner_first else (s['w2'], s['h2'])
        d = s['d']
        c, sn = d[0] / d[2], d[1] / d[2]
        u, v = c * xu + sn * yu, sn * xu - c * yu
        q = np.sqrt((2 * u / w) ** 2 + (2 * v / h) ** 2)
    return float(np.abs(q - 1.0).max())


def check_patch(ctx, s, win, wlo, whi, idx, rnd, pid='C18'):
    U = 2
    ox, oy = rnd.choice([(0, 0), (0, 0), (1, 1), (-3.5, 2), (100, -50), (0.5, 0.5), (0, 11.25), (4.5, 0)])
    fr = geom.Frame(U, 1.0, 0.0, 0.0, rnd.randint(0, 5))
    if s['k'] == 'polygon' and idx % 2 == 0:
        # integer-typed vertices (scale 2 makes every half-pixel lattice value an integer) drawn with a fractional origin
        fr = geom.Frame(U, 2.0, 0.0, 0.0, 0, ints=True)
        ox, oy = rnd.choice([(0.5, 0.25), (-3.5, 2.75), (0, 0), (0, 2.75), (0.5, 0)])
    case = {'shape': s, 'origin': [ox, oy], 'frame': vars(fr)}
    try:
        if idx % 4 == 1:
            # the region was drawn before with other parameters, then assigned the wanted ones: nothing may survive in the artist
            region = geom.build_via_assign(s, fr, lambda r: r.as_artist(origin=(3, -1)))
        else:
            region = geom.build(s, fr)
        with warnings.catch_warnings():
            warnings.simplefilter('ignore')
            patch = region.as_artist(origin=(ox, oy))
        paths = subpaths(patch)
    except Exception as ex:  # noqa
        ctx.violation(f"{pid}|as_artist|{kind_sig(s)}|{type(ex).__name__}", f'as_artist raised {ex!r}', case)
        return True
    xs_u, ys_u = geom.window(wlo, whi)
    model = np.asarray(win)
    incl = s['inc'] in ('absent', 'T', '1')
    if not incl:
        model = np.where(model == 2, 2, 1 - model)      # the artist outlines the shape itself, whatever the include flag
    care = (model != 2) & ~near_boundary(s, xs_u.astype(float), ys_u.astype(float), 1e-3 if s['k'] in BEZIER else 0.0)
    pts = np.column_stack([(xs_u / U * fr.scale - ox) * SCALE, (ys_u / U * fr.scale - oy) * SCALE])
    annulus = s['k'] in ('cannulus', 'eannulus', 'rannulus')
    ctx.case((geom.shape_key(s), ox, oy), geom.nontrivial_answers(win))
    if annulus:
        if len(paths) != 2:
            ctx.violation(f'{pid}|annulus-paths|{s["k"]}', f'annulus artist has {len(paths)} sub-path(s), expected outer + inner', case)
            return True
        a0, a1 = signed_area(paths[0]), signed_area(paths[1])
        if not (a0 * a1 < 0):
            ctx.violation(f'{pid}|annulus-orientation|{s["k"]}', f'outer and inner outlines have the same orientation (signed areas {a0:.3g}, {a1:.3g}): no hole', case)
            return True
        big, small = (paths[0], paths[1]) if abs(a0) > abs(a1) else (paths[1], paths[0])
        inside = big.contains_points(pts) & ~small.contains_points(pts)
        curved = [(big, 2), (small, 1)] if s['k'] in BEZIER else []
    else:
        if len(paths) != 1:
            ctx.violation(f'{pid}|paths|{s["k"]}', f'artist has {len(paths)} sub-paths', case)
            return True
        inside = paths[0].contains_points(pts)
        curved = [(paths[0], 0)] if s['k'] in BEZIER else []
    for pth, which in curved:
        # the curve itself (not only the lattice positions) stays within the spline approximation error of the true outline
        err = outline_error(pth, s, which, U, fr, ox, oy)
        if not err < 1e-3:
            ctx.violation(f'{pid}|curve|{kind_sig(s)}|{("plain", "inner", "outer")[which]}',
                          f'the {("", "inner ", "outer ")[which]}outline departs from the true curve by {err:.3g} of its radius (spline tolerance 1e-3)', case)
            return True
    ctx.dontcare += int((~care).sum())
    bad = np.nonzero(care & (inside.astype(int) != model))[0]
    if len(bad):
        i = int(bad[0])
        ctx.violation(f'{pid}|outline|{kind_sig(s)}', f'{len(bad)} lattice positions are inside the patch but not in the region (or vice versa)',
                      dict(case, point_units=[int(xs_u[i]), int(ys_u[i])], in_patch=bool(inside[i]), in_region=bool(model[i])))
        return True
    return False


def others(ctx, rnd):
    """Points, text, lines, regular polygons, bounding boxes."""
    import astropy.units as u

    import regions as R
    from regions import PixCoord
    n = 0
    for k in range(40):
        x, y = rnd.randint(-20, 20) / 2, rnd.randint(-20, 20) / 2
        ox, oy = rnd.choice([(0, 0), (1, 1), (-3.5, 2), (100, -50), (0, 7.25), (2.5, 0)])
        with warnings.catch_warnings():
            warnings.simplefilter('ignore')
            a = R.PointPixelRegion(PixCoord(x, y)).as_artist(origin=(ox, oy))
            ok = np.allclose(a.get_xydata(), [[x - ox, y - oy]])
            t = R.TextPixelRegion(PixCoord(x, y), 'abc').as_artist(origin=(ox, oy))
            ok2 = tuple(t.get_position()) == (x - ox, y - oy) and t.get_text() == 'abc'
            x2, y2 = x + rnd.randint(1, 9), y - rnd.randint(1, 9)
            ln = R.LinePixelRegion(PixCoord(x, y), PixCoord(x2, y2)).as_artist(origin=(ox, oy))
            p = ln.get_patch_transform().transform_path(ln.get_path()).vertices
            # an Arrow from start to end: its extreme points along the direction are start and end
            d = np.array([x2 - x, y2 - y]) / math.hypot(x2 - x, y2 - y)
            proj = (p - np.array([x - ox, y - oy])) @ d
            ok3 = abs(proj.min()) < 1e-9 and abs(proj.max() - math.hypot(x2 - x, y2 - y)) < 1e-9
            bb = R.RegionBoundingBox(int(x) - 3, int(x) + 4, int(y) - 2, int(y) + 1).as_artist()
            ok4 = (bb.get_x(), bb.get_y(), bb.get_width(), bb.get_height()) == (int(x) - 3.5, int(y) - 2.5, 7, 3)
            rp = R.RegularPolygonPixelRegion(PixCoord(x, y), 5, 4.0, angle=20 * u.deg)
            pa = rp.as_artist(origin=(ox, oy))
            v = pa.get_patch_transform().transform_path(pa.get_path()).vertices
            ok5 = np.allclose(v[:5, 0], rp.vertices.x - ox) and np.allclose(v[:5, 1], rp.vertices.y - oy)
        n += 5
        for name, okk in (('point', ok), ('text', ok2), ('line', ok3), ('bbox', ok4), ('regular-polygon', ok5)):
            ctx.case(('other', name, k), True)
            if not okk:
                ctx.violation(f'C18|position|{name}', f'{name} artist is not at the region position minus the origin', {'position': [x, y], 'origin': [ox, oy]})
    ctx.traces += n
    plot_routes(ctx, rnd)


def plot_routes(ctx, rnd):
    """plot(origin, ax, **kwargs) puts on the axes exactly the artist as_artist(origin, **kwargs) returns (regions and bounding boxes)."""
    import astropy.units as u
    import matplotlib
    matplotlib.use('Agg')
    import matplotlib.pyplot as plt

    import regions as R
    from regions import PixCoord
    fig, ax = plt.subplots()
    c = PixCoord(12.5, -3.0)
    regs = [R.CirclePixelRegion(c, 4), R.EllipsePixelRegion(c, 6, 3, angle=200 * u.deg), R.RectanglePixelRegion(c, 6, 3, angle=-30 * u.deg),
            R.PolygonPixelRegion(PixCoord([1, 9, 4], [2, 3, 8])), R.CircleAnnulusPixelRegion(c, 2, 5), R.RectangleAnnulusPixelRegion(c, 2, 6, 1, 3, angle=70 * u.deg),
            R.PointPixelRegion(c), R.LinePixelRegion(c, PixCoord(1, 1)), R.TextPixelRegion(c, 'abc'), R.RegularPolygonPixelRegion(c, 6, 3.0),
            R.RegionBoundingBox(2, 9, -4, 3)]
    n = 0

    def geometry(a):
        if hasattr(a, 'get_path'):
            tr = a.get_patch_transform() if hasattr(a, 'get_patch_transform') else None
            return np.asarray((tr.transform_path(a.get_path()) if tr is not None else a.get_path()).vertices).round(9).tolist()
        if hasattr(a, 'get_xydata'):
            return np.asarray(a.get_xydata()).round(9).tolist()
        return [float(v) for v in a.get_position()] + [a.get_text()]
    for reg in regs:
        for origin in ((0, 0), (3.5, -2), (0, 4.25)):
            kw = {'origin': origin}
            extra = {'color': 'magenta'} if isinstance(reg, (R.PointPixelRegion, R.TextPixelRegion)) else {'edgecolor': 'magenta', 'linewidth': 3}
            with warnings.catch_warnings():
                warnings.simplefilter('ignore')
                before = len(ax.patches) + len(ax.lines) + len(ax.texts)
                try:
                    got = reg.plot(ax=ax, **kw, **extra)
                    # (a bounding box is drawn as the rectangle region of the box: its own as_artist takes no origin)
                    want = (reg.to_region() if isinstance(reg, R.RegionBoundingBox) else reg).as_artist(**kw, **extra)
                except Exception as ex:  # noqa
                    ctx.violation(f'C18|plot|raises|{type(reg).__name__}', f'plot raised {ex!r}', {'region': repr(reg), 'origin': list(origin)})
                    continue
                after = len(ax.patches) + len(ax.lines) + len(ax.texts)
            n += 1
            ctx.case(('plot', type(reg).__name__, origin), True)
            on_axes = got in list(ax.patches) + list(ax.lines) + list(ax.texts)
            if not on_axes or after != before + 1 or type(got) is not type(want) or geometry(got) != geometry(want):
                ctx.violation(f'C18|plot|{type(reg).__name__}', 'plot() does not put on the axes the artist that as_artist() returns',
                              {'region': repr(reg), 'origin': list(origin), 'on_axes': on_axes, 'added': after - before})
    plt.close(fig)
    ctx.traces += n
    ctx.note('plot_routes', n)


def kwargs_replay(ctx):
    """Every Artist.tla state against the real artist properties."""
    import regions as R
    from regions import PixCoord, RegionVisual
    res = tlc.run('Artist', cfg='Artist.cfg', dump=True, tag='c18a')
    ctx.tlc(res, 'Artist kwargs merge law')
    if res.violated:
        ctx.violation(f'C18|model|{res.violated}', f'Artist.tla: {res.violated} fails', {'trace': res.trace[-1:]})
        tlc.cleanup(res.workdir)
        return
    V = {'color': 'blue', 'linewidth': 3.0, 'symsize': 7.0, 'fontsize': 17.0, 'textangle': 40.0}
    C = {'edgecolor': 'red', 'linewidth': 5.0, 'markeredgecolor': 'red', 'markersize': 13.0, 'color': 'red', 'size': 23.0, 'rotation': 75.0, 'fontsize': 23.0}
    from matplotlib.colors import to_rgba
    n = 0
    for st in parse_dump(res.dump_path, only='pc = "ret"'):
        art, style = st['artist'], st['style']
        vis = {k: V[k] for k in st['vis'] if k != 'zz'}
        if style != 'none':
            vis['default_style'] = style
        caller = {k: C[k] for k in st['caller'] if k != 'zz'}
        want = {k: v for k, v in st['res'].items() if k != 'zz'}
        makers = {'Patch': [('circle', lambda: R.CirclePixelRegion(PixCoord(1, 2), 3, visual=RegionVisual(vis))),
                            ('annulus', lambda: [R.CircleAnnulusPixelRegion(PixCoord(1, 2), 2, 3, visual=RegionVisual(vis)),
                                                 R.EllipseAnnulusPixelRegion(PixCoord(1, 2), 2, 3, 1, 2, visual=RegionVisual(vis)),
                                                 R.RectangleAnnulusPixelRegion(PixCoord(1, 2), 2, 3, 1, 2, visual=RegionVisual(vis))][n % 3])],
                  'Line2D': [('point', lambda: R.PointPixelRegion(PixCoord(1, 2), visual=RegionVisual(vis)))],
                  'Text': [('text', lambda: R.TextPixelRegion(PixCoord(1, 2), 'x', visual=RegionVisual(vis)))]}[art]
        for rname, mk in makers:
            reg = mk()
            # every other pair of states the caller's numbers are zeros: a keyword given as 0 is still given
            Cv = dict(C, linewidth=0.0, markersize=0.0, rotation=0.0) if (n // 2) % 2 else C
            caller = {k: Cv[k] for k in st['caller'] if k != 'zz'}
            with warnings.catch_warnings():
                warnings.simplefilter('ignore')
                if n % 2:
                    # an earlier call with other keywords on the same region must leave nothing behind
                    other = {'Patch': {'edgecolor': 'magenta', 'linewidth': 9.0, 'fill': True}, 'Line2D': {'markeredgecolor': 'magenta', 'markersize': 29.0},
                             'Text': {'color': 'magenta', 'size': 31.0, 'rotation': 5.0}}[art]
                    reg.as_artist(**other)
                try:
                    a = reg.as_artist(**caller)
                except Exception as ex:  # noqa
                    ctx.violation(f'C18|kwargs|{art}|{rname}|raises|{type(ex).__name__}', f'{rname} artist: as_artist(**{caller}) with stored visual {vis} raised {ex!r}',
                                  {'artist': art, 'region': rname, 'style': style, 'visual': vis, 'caller': caller})
                    continue
            ctx.case(('kwargs', rname, style, tuple(sorted(vis)), tuple(sorted(caller))), True)
            getters = {'edgecolor': 'get_edgecolor', 'linewidth': 'get_linewidth', 'markeredgecolor': 'get_markeredgecolor', 'markersize': 'get_markersize',
                       'color': 'get_color', 'size': 'get_fontsize', 'rotation': 'get_rotation'}
            for key, src in want.items():
                if key not in getters:
                    continue
                got = getattr(a, getters[key])()
                if src == 'C':
                    exp = Cv[key]
                elif src == 'V':
                    exp = {'edgecolor': V['color'], 'markeredgecolor': V['color'], 'color': V['color'], 'linewidth': V['linewidth'],
                           'markersize': V['symsize'], 'size': V['fontsize'], 'rotation': V['textangle']}[key]
                else:
                    exp = {'ds9green': '#00ff00', '11': 11.0}.get(src, src)
                ok = (to_rgba(got) == to_rgba(exp)) if isinstance(exp, str) else (float(got) == float(exp))
                if not ok:
                    who = {'C': 'caller keyword', 'V': 'stored visual attribute'}.get(src, 'style default')
                    ctx.violation(f'C18|kwargs|{art}|{rname}|{key}|{who.split()[0]}', f'{rname} artist: {key} is {got!r}, expected the {who} {exp!r}',
                                  {'artist': art, 'region': rname, 'style': style, 'visual': vis, 'caller': caller})
                    break
            if art == 'Line2D':
                # the colour the marker is drawn in (Artist!MarkerColour): the marker edge colour if one is in force, else the line colour
                src = want.get('markeredgecolor', want.get('color', 'auto'))
                exp = {'C': Cv['color'], 'V': V['color'], 'ds9green': '#00ff00'}.get(src)
                if exp is not None and to_rgba(a.get_markeredgecolor()) != to_rgba(exp):
                    ctx.violation(f'C18|kwargs|Line2D|{rname}|marker-colour|{src}', f'{rname} artist: the marker is drawn in {a.get_markeredgecolor()!r}, expected '
                                  f"{'the caller keyword' if src == 'C' else 'the stored / default colour'} {exp!r}",
                                  {'artist': art, 'region': rname, 'style': style, 'visual': vis, 'caller': caller})
        n += 1
    ctx.traces += n
    ctx.note('kwargs_states_replayed', n)
    tlc.cleanup(res.workdir)


def long_outlines(ctx):
    """Polygons with very many vertices (the pixel-edge contour of a large mask, a serrated outline): the patch runs through every
    vertex of the region, shifted by the plot origin - none is dropped or merged (Geometry!Member is about the polygon of ALL vertices)."""
    import numpy as np
    from regions import PixCoord, PolygonPixelRegion
    n = 0
    for nteeth, origin in ((2600, (0.0, 0.0)), (6100, (3.5, -2.25)), (3, (1.0, 1.0))):
        # a comb: teeth one pixel wide and four pixels high on a base line, closed below
        xs, ys = [], []
        for t in range(nteeth):
            xs += [2.0 * t, 2.0 * t, 2.0 * t + 1, 2.0 * t + 1]
            ys += [0.0, 4.0, 4.0, 0.0]
        xs += [2.0 * nteeth, 2.0 * nteeth, -1.0, -1.0]
        ys += [0.0, -3.0, -3.0, 0.0]
        reg = PolygonPixelRegion(PixCoord(np.array(xs), np.array(ys)))
        n += 1
        ctx.case(('long-outline', nteeth, origin), True)
        case = {'vertices': len(xs), 'origin': list(origin)}
        try:
            xy = np.asarray(reg.as_artist(origin=origin).get_xy(), dtype=float)
        except Exception as ex:  # noqa
            ctx.violation(f'C18|long-outline|raises|{type(ex).__name__}', f'as_artist of a polygon with {len(xs)} vertices raised {ex!r}', case)
            continue
        want = np.column_stack([np.array(xs) - origin[0], np.array(ys) - origin[1]])
        if len(xy) == len(want) + 1 and np.array_equal(xy[-1], xy[0]):
            xy = xy[:-1]                       # matplotlib closes the path by repeating the first vertex
        if xy.shape != want.shape or not np.array_equal(xy, want):
            ctx.violation('C18|long-outline|vertices', f'the patch of a polygon with {len(want)} vertices has {len(xy)} vertices'
                          + ('' if xy.shape != want.shape else ' at other positions'), case)
            continue
        # a tooth tip is inside both, the gap between two teeth outside both
        for px, py, inside in ((2.0 * (nteeth // 2) + 0.5, 3.5, True), (2.0 * (nteeth // 2) + 1.5, 3.5, False)):
            if bool(reg.contains(PixCoord(px, py))) != inside:
                ctx.violation('C18|long-outline|member', f'polygon with {len(want)} vertices: contains({px}, {py}) is not {inside}', case)
    ctx.traces += n
    ctx.note('long_outlines', n)


def run(ctx):
    quick = ctx.tier == 'quick'
    rnd = random.Random(ctx.seed * 73 + 18)
    import matplotlib
    matplotlib.use('Agg')
    fam = 'FamSimple'
    res = tlc.run('MC_Geometry', cfg_text=cfg(fam, 'OpsContains', -12, 12, []), dump=True, tag='c18')
    ctx.tlc(res, f'MC_Geometry contains {fam} (exact membership of lattice points)')
    n = 0
    for idx, st in enumerate(parse_dump(res.dump_path, only='pc = "ret"')):
        s = st['shape']
        if s['k'] in ('point', 'line', 'text'):
            continue
        if quick and idx % 3:
            continue
        n += 1
        bad = check_patch(ctx, s, st['res']['win'], -12, 12, idx, rnd)
        if not bad and n % 307 == 1:
            ctx.sample({'shape': s})
    ctx.traces += n
    ctx.note('patches_checked', n)
    tlc.cleanup(res.workdir)
    others(ctx, rnd)
    kwargs_replay(ctx)
    long_outlines(ctx)
    trace_validation(ctx, rnd)
    from . import selector
    selector.run(ctx)            # observations about as_mpl_selector (not part of C18's statement): never a violation
    ctx.assumptions += ['matplotlib Path.contains_points at scale 1e4; a 1e-3 relative band around Bezier-approximated circles/ellipses is not compared',
                        'rotation angles are rational directions; sizes dyadic']


def trace_validation(ctx, rnd):
    """Random shapes/origins: the patch's point set is logged as a contains event of the (included) shape."""
    n = 150 if ctx.tier == 'quick' else 3000
    U = 2
    events = []
    for i in range(n):
        s = geomgen.simple(rnd, ['circle', 'ellipse', 'rectangle', 'polygon', 'cannulus', 'eannulus', 'rannulus'], smax=10, inc='absent')
        ox, oy = rnd.randint(-40, 40) / 2, rnd.randint(-40, 40) / 2
        fr = geom.Frame(U, 1.0, 0.0, 0.0, rnd.randint(0, 5))
        pts = [[rnd.randint(-14, 14), rnd.randint(-14, 14)] for _ in range(40)]
        try:
            with warnings.catch_warnings():
                warnings.simplefilter('ignore')
                paths = subpaths(geom.build(s, fr).as_artist(origin=(ox, oy)))
            P = np.array([[(p[0] / U - ox) * SCALE, (p[1] / U - oy) * SCALE] for p in pts])
            if len(paths) == 2:
                a0, a1 = abs(signed_area(paths[0])), abs(signed_area(paths[1]))
                big, small = (paths[0], paths[1]) if a0 > a1 else (paths[1], paths[0])
                inside = big.contains_points(P) & ~small.contains_points(P)
            else:
                inside = paths[0].contains_points(P)
        except Exception as ex:  # noqa
            ctx.violation(f"C18|trace|{s['k']}|{type(ex).__name__}", f'as_artist raised {ex!r}', {'shape': s})
            continue
        xs = np.array([p[0] for p in pts], dtype=float)
        ys = np.array([p[1] for p in pts], dtype=float)
        keep = ~near_boundary(s, xs, ys, 2e-3)
        pts2 = [p for p, k in zip(pts, keep) if k]
        ans = [int(v) for v, k in zip(inside, keep) if k]
        if pts2:
            events.append({'ev': 'contains', 'shape': s, 'pts': pts2, 'ans': ans, 'extra': {'origin': [ox, oy]}})
    validate_events(ctx, events, 'C18')
