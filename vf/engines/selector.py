"""Selector.tla bound to RectanglePixelRegion / EllipsePixelRegion.as_mpl_selector (growth of the specification beyond
the listed properties, DESIGN.md section 11/18; reported with C18's evidence as *observations*, never as violations
of C18, whose statement is about as_artist).

(A) TLC checks Selector.tla (region <-> widget, depth 3): the widget depicts the region when created, the region follows
    every accepted selection, a disconnected selector leaves the region alone, one selector per region, one-way
    synchronisation, callbacks only on success; SelectAtomic is checked to be VIOLATED (the code moves the centre before
    the zero width of an empty selection is refused).
(B) every state (pre, act, out) is replayed with a real matplotlib RectangleSelector / EllipseSelector on an Agg canvas:
    outcome (exception class), region parameters, widget extents and number of callback invocations are compared.
"""
import warnings

from .. import par, tlc

_FIG = {}


def _axes():
    import matplotlib
    matplotlib.use('Agg')
    import matplotlib.pyplot as plt
    if 'ax' not in _FIG or _FIG['n'] > 300:
        if 'fig' in _FIG:
            plt.close(_FIG['fig'])
        fig, ax = plt.subplots(figsize=(4, 4), dpi=50)
        ax.set_xlim(-2, 10)
        ax.set_ylim(-2, 10)
        _FIG.update(fig=fig, ax=ax, n=0)
    _FIG['n'] += 1
    return _FIG['ax']


def _make(regm, kind):
    import astropy.units as u

    from regions import EllipsePixelRegion, PixCoord, RectanglePixelRegion
    cls = RectanglePixelRegion if kind == 0 else EllipsePixelRegion
    return cls(PixCoord(regm['cx2'] / 2.0, regm['cy2'] / 2.0), float(regm['w']), float(regm['h']), angle=(10 if regm['rot'] else 0) * u.deg)


def _proj(reg):
    return {'cx2': 2 * float(reg.center.x), 'cy2': 2 * float(reg.center.y), 'w': float(reg.width), 'h': float(reg.height), 'rot': float(reg.angle.value) != 0.0}


def replay_state(rec, st, idx):
    import astropy.units as u

    from regions import PixCoord
    if st['depth'] == 0:
        return
    rec.traces += 1
    pre, act = st['pre'], st['act']
    kind = idx % 2
    log = []
    reg = _make(pre['reg'], kind)
    sel = None
    with warnings.catch_warnings():
        warnings.simplefilter('ignore')
        if pre['attached']:
            # attach while unrotated (the model only attaches unrotated regions), then restore the pre-state of both parties
            reg.angle = 0 * u.deg
            sel = reg.as_mpl_selector(_axes(), sync=pre['sync'], callback=(lambda r: log.append(1)) if pre['hascb'] else None)
            sel.extents = tuple(float(v) for v in pre['sel'])
            want = _make(pre['reg'], kind)
            reg.center, reg.width, reg.height, reg.angle = want.center, want.width, want.height, want.angle
            del log[:]
        a = act['a']
        try:
            if a == 'attach':
                sel2 = reg.as_mpl_selector(_axes(), sync=act['sync'], callback=(lambda r: log.append(1)) if act['callback'] else None)
                sel = sel2
            elif a == 'select':
                sel.extents = tuple(float(v) for v in act['extents'])
                sel.onselect(None, None)
            elif a == 'assign_center':
                reg.center = PixCoord(act['cx2'] / 2.0, reg.center.y)
            out = 'ok'
        except Exception as ex:  # noqa
            out = type(ex).__name__
    got = {'out': out, 'reg': _proj(reg), 'sel': [float(v) for v in sel.extents] if sel is not None else [], 'calls': len(log)}
    want = {'out': st['out'], 'reg': {k: (float(v) if k != 'rot' else bool(v)) for k, v in st['reg'].items()},
            'sel': [float(v) for v in st['sel']], 'calls': st['calls'] - pre['calls']}
    rec.case(('selector', kind, str(act), str(pre)), True)
    if got != want:
        which = next(k for k in ('out', 'reg', 'sel', 'calls') if got[k] != want[k])
        rec.bump(f"selector_deviation:{act['a']}:{which}")
        rec.emit({'region_class': ['Rectangle', 'Ellipse'][kind], 'pre': pre, 'act': act, 'model': want, 'real': got})
    elif idx % 5003 == 1:
        rec.sample({'selector': True, 'pre': pre, 'act': act, 'post': want})


def event_route(ctx):
    """The same actions through real mouse events (press, move, release on the Agg canvas): a drag of a fresh selection
    must leave the region with the dragged extents; a click without a drag is the empty selection of the model."""
    import matplotlib
    matplotlib.use('Agg')
    import matplotlib.pyplot as plt
    from matplotlib.backend_bases import MouseEvent

    from regions import EllipsePixelRegion, PixCoord, RectanglePixelRegion
    bad = []
    for cls in (RectanglePixelRegion, EllipsePixelRegion):
        fig, ax = plt.subplots(figsize=(6, 6), dpi=100)
        ax.set_xlim(0, 100)
        ax.set_ylim(0, 100)
        fig.canvas.draw()
        reg = cls(PixCoord(50, 40), 20, 10)
        calls = []
        with warnings.catch_warnings():
            warnings.simplefilter('ignore')
            sel = reg.as_mpl_selector(ax, callback=lambda r: calls.append(1))

            def ev(name, xd, yd):
                x, y = ax.transData.transform((xd, yd))
                fig.canvas.callbacks.process(name, MouseEvent(name, fig.canvas, x, y, button=1))
            ev('button_press_event', 10, 10)
            ev('motion_notify_event', 20, 30)
            ev('motion_notify_event', 30, 50)
            ev('button_release_event', 30, 50)
            got = (round(float(reg.center.x), 6), round(float(reg.center.y), 6), round(float(reg.width), 6), round(float(reg.height), 6), len(calls))
            if got != (20.0, 30.0, 20.0, 40.0, 2):
                bad.append({'class': cls.__name__, 'after_drag': got, 'expected': (20.0, 30.0, 20.0, 40.0, 2)})
            try:
                ev('button_press_event', 70, 70)
                ev('button_release_event', 70, 70)
                out = 'ok'
            except ValueError:
                out = 'ValueError'
            got = (out, round(float(reg.center.x), 6), round(float(reg.center.y), 6), round(float(reg.width), 6), len(calls))
            if got != ('ValueError', 70.0, 70.0, 20.0, 2):
                bad.append({'class': cls.__name__, 'after_click': got, 'model': ('ValueError', 70.0, 70.0, 20.0, 2)})
        plt.close(fig)
    ctx.note('selector_event_route_deviations', bad)
    return bad


def run(ctx):
    """Observations only: deviations are recorded in the evidence (selector_deviations) and printed as NOTE lines."""
    quick = ctx.tier == 'quick'
    neg = tlc.run('Selector', cfg='Selector_atomic.cfg', tag='c18selneg')
    if neg.violated != 'SelectAtomic':
        raise tlc.TlcError(f'self-test: the code-shaped Selector model should violate SelectAtomic, got {neg.violated}')
    tlc.cleanup(neg.workdir)
    res = tlc.run('Selector', cfg_text=open(tlc.SPECS + '/Selector.cfg').read().replace('MaxDepth = 3', f'MaxDepth = {2 if quick else 3}'), dump=True, tag='c18sel', timeout=1800)
    ctx.tlc(res, 'Selector.tla: region <-> matplotlib selector (observations, not part of C18)')
    if res.violated:
        ctx.note('selector_model_violation', res.violated)
    else:
        before, ev0 = ctx.traces, len(getattr(ctx, 'emitted', []))
        par.pmap_dump(ctx, replay_state, res.dump_path, nproc=8, stride=5 if quick else 1, chunk=100)
        ctx.note('selector_states_replayed', ctx.traces - before)
        dev = getattr(ctx, 'emitted', [])[ev0:]
        ctx.note('selector_deviations', len(dev))
        ctx.note('selector_deviation_examples', dev[:5])
        if dev:
            print(f'NOTE: Selector.tla: {len(dev)} replayed state(s) of the matplotlib selector differ from the model (not a listed property; see evidence C18.json selector_deviation_examples)')
    tlc.cleanup(res.workdir)
    if event_route(ctx):
        print('NOTE: Selector.tla: the mouse-event route differs from the model (not a listed property; see evidence C18.json selector_event_route_deviations)')
