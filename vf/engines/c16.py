"""C16 — regions are values: copies are equal and independent, equality sees every field.

(A) TLC checks Objects.tla with two object slots: Copy allocates fresh identities (NoSharing),
    copies are equal (CopyEqual), copy-with-changes differs exactly in the named field
    (CopyWithDiffers), mutating one object never shows in another (Independent), Eq is reflexive
    and symmetric; `eq` holds the value equality of slots 1 and 2 in every state, where token
    pairs that differ only by angular unit or by less than the documented pixel tolerance are the
    same value.  Lists.tla: edits of a sliced/copied list never alter the source.
(B) each state is one test: materialise pre, perform act, compare outcome, parameters (by
    identity), dict contents, the partition of dict identities (sharing is observed directly) and
    the real ==, != in both directions with the model's eq.  copy.deepcopy is checked like copy().
(C) random copy/mutate/compare histories validated by Trace_Objects.tla.
"""
import copy as _copy
import json

from .. import objs, tlc
from ..tlaparse import parse_dump
from . import c17, lists


_P = {}


def _state_fn(ctx, st, i):
    cat, cls, stride = _P['cat'], _P['cls'], _P['stride']
    if st['depth'] == 0:
        return
    if stride > 1 and i % stride and st['act']['a'] not in ('copy', 'copywith'):
        return
    ctx.traces += 1
    ctx.bump(f"by_action_and_eq:{st['act']['a']}/{st['eq']}")
    nslots = len(st['heap'])
    w = objs.World(cat, cls)
    w.materialise(st['pre'])
    out = w.apply(st['act'])
    heap, dicts = w.project(nslots, None)
    mh, md = objs.model_view(st['heap'], st['dicts'])
    a = st['act']
    case = {'pre': st['pre'], 'act': a, 'model_out': st['out'], 'real_out': out,
            'model_post': {'heap': mh, 'dicts': md, 'eq': st['eq']}, 'real_post': {'heap': heap, 'dicts': dicts}}
    ctx.case(('c16', json.dumps(a, sort_keys=True), json.dumps(st['pre']['heap'], sort_keys=True)), st['eq'] != '-')
    if not c17.same_outcome(out, st['out']):
        if a['a'] == 'assign' and 'Annulus' in st['pre']['heap'][a['slot'] - 1]['cls']:
            return      # C17's open finding (annulus assignment); not a C16 matter
        ctx.violation(c17.act_sig('C16', st, 'outcome'), f"{c17.describe(st)}: model says {st['out']}, the package says {out}", case)
        return
    if heap != mh or dicts != md:
        kind = 'sharing' if [(h.get('meta'), h.get('visual')) for h in heap] != [(h.get('meta'), h.get('visual')) for h in mh] else 'state'
        ctx.violation(c17.act_sig('C16', st, kind), f'{c17.describe(st)}: objects afterwards differ from the model ({kind})', case)
        return
    real_eq = w.equality()
    case['real_eq'] = real_eq
    if real_eq != st['eq']:
        ctx.violation(eq_sig(st, real_eq), f"after {c17.describe(st)}: model says slots 1,2 are {st['eq']}, == / != say {real_eq}", case)
        return
    if a['a'] == 'copy' and out == 'ok':
        src, dup = w.slots[a['slot']], _copy.deepcopy(w.slots[a['slot']])
        ok = (dup == src) and dup.meta is not src.meta and dup.visual is not src.visual and type(dup) is type(src)
        if not ok:
            ctx.violation(f"C16|deepcopy|{st['pre']['heap'][a['slot'] - 1]['cls']}", 'copy.deepcopy(region) is not an equal independent region', case)
    if i % 4001 == 1:
        ctx.sample({'pre': st['pre']['heap'], 'act': a, 'out': out, 'eq': st['eq']})


def replay(ctx, res, cat, cls, stride):
    from .. import par
    _P.update(cat=cat, cls=cls, stride=stride)
    before = ctx.traces
    par.pmap_dump(ctx, _state_fn, res.dump_path)
    ctx.note('replayed_states', ctx.traces - before)
    for need in (('copy', 'eq'), ('copywith', 'ne'), ('copywith', 'eq'), ('assign', 'ne'), ('meta', 'ne')):
        if ctx.notes.get(f'by_action_and_eq:{need[0]}/{need[1]}', 0) == 0:
            raise tlc.TlcError(f'vacuous: no state with action {need[0]} and eq={need[1]}')


def eq_sig(st, real_eq):
    h = st['heap']
    c1, c2 = h[0]['cls'], h[1]['cls'] if len(h) > 1 else '-'
    diff = []
    if c1 == c2 and c1 != 'none':
        p1, p2 = objs.fmap(h[0]['par']), objs.fmap(h[1]['par'])
        diff = [f'{f}:{p1[f]}~{p2[f]}' for f in sorted(p1) if p1[f] != p2[f]]
    return f"C16|eq|{real_eq.split(' ')[0]}|{c1}~{c2}|" + ','.join(diff)


def origin_polygons(ctx):
    """Polygons whose vertices were given relative to an origin are values like any other: copies are equal and independent,
    a copy with changes differs in exactly the named fields."""
    import numpy as np
    from regions import PixCoord, PolygonPixelRegion, RegionMeta
    n = 0
    for ox, oy in ((140.0, 95.0), (-3.5, 2.25), (0.0, 7.0)):
        for vs in (([0.0, 4, 2], [0.0, 0, 3]), ([1.5, 9, 9, 1.5], [2.0, 2, 6, 6])):
            reg = PolygonPixelRegion(PixCoord(np.array(vs[0]), np.array(vs[1])), origin=PixCoord(ox, oy), meta=RegionMeta({'label': 'p'}))
            want = (np.array(vs[0]) + ox, np.array(vs[1]) + oy)
            case = {'vertices': vs, 'origin': [ox, oy]}
            n += 1
            ctx.case(('origin-polygon', ox, oy, len(vs[0])), True)
            cp = reg.copy()
            cp2 = cp.copy()
            cm = reg.copy(meta=RegionMeta({'label': 'other'}))
            ok_v = all(np.array_equal(np.asarray(r_.vertices.x), want[0]) and np.array_equal(np.asarray(r_.vertices.y), want[1]) for r_ in (reg, cp, cp2, cm))
            if not ok_v or not (cp == reg and cp2 == reg) or cp.meta is reg.meta:
                ctx.violation('C16|copy|PolygonPix|origin', 'copy() of a polygon built with origin= is not an equal independent region (vertices moved?)',
                              dict(case, copy_vertices=[np.asarray(cp.vertices.x).tolist(), np.asarray(cp.vertices.y).tolist()]))
            elif cm == reg or dict(cm.meta) != {'label': 'other'}:
                ctx.violation('C16|copywith|PolygonPix|origin', 'copy(meta=...) of a polygon built with origin= does not differ in exactly the meta', case)
    ctx.traces += n
    ctx.note('origin_polygons', n)


DICTVALS = {'none': lambda: None, 'mpl': lambda: 'mpl', 'ds9': lambda: 'ds9', 'zero': lambda: 0, 'two': lambda: 2, 'empty': lambda: '', 'list0': lambda: [],
            'list_a': lambda: ['a'], 'list_aa': lambda: ['a', 'a'], 'twelve': lambda: 12, 'list_12_12': lambda: [12, 12], 'list_8': lambda: [8], 'list_8_8': lambda: [8, 8]}


def dict_entries(ctx):
    """DictEq.tla: every key of the documented vocabularies x pairs of values (absent, None, default-like, empty, lists that differ
    only in length): two regions with equal parameters are equal exactly when the entry is the same."""
    import astropy.units as u
    import numpy as np
    from astropy.coordinates import SkyCoord
    import regions as R
    res = tlc.run('DictEq', cfg='DictEq.cfg', dump=True, tag='c16dict', timeout=1200)
    ctx.tlc(res, 'DictEq: one meta/visual entry under every documented key, pairs of values')
    if res.violated:
        ctx.violation(f'C16|model|{res.violated}', f'DictEq.tla: {res.violated} fails in the model', {'trace': res.trace[-1:]})
        tlc.cleanup(res.workdir)
        return
    sc = SkyCoord([10, 10.1, 10.05] * u.deg, [20, 20, 20.1] * u.deg)

    def mk(name):
        c1, c2 = R.CirclePixelRegion(R.PixCoord(3, 4), 2), R.CirclePixelRegion(R.PixCoord(5, 4), 2)
        s1, s2 = R.CircleSkyRegion(sc[0], 2 * u.arcsec), R.CircleSkyRegion(sc[1], 3 * u.arcsec)
        return {'CirclePix': lambda: R.CirclePixelRegion(R.PixCoord(3, 4), 2), 'PolygonSky': lambda: R.PolygonSkyRegion(sc),
                'CompoundPix': lambda: c1 | c2, 'CompoundSky': lambda: s1 & s2, 'TextPix': lambda: R.TextPixelRegion(R.PixCoord(3, 4), 'label'),
                'RegularPolygonPix': lambda: R.RegularPolygonPixelRegion(R.PixCoord(30, 40), 5, 4.0),
                'EllipseAnnulusSky': lambda: R.EllipseAnnulusSkyRegion(sc[0], 1 * u.arcsec, 2 * u.arcsec, 3 * u.arcsec, 4 * u.arcsec, 10 * u.deg)}[name]()
    pairs = {}
    n = 0
    for st in parse_dump(res.dump_path, only='eq = "'):
        if st['eq'] == '?':
            continue
        n += 1
        if st['cls'] not in pairs:
            pairs[st['cls']] = (mk(st['cls']), mk(st['cls']))
        r1, r2 = pairs[st['cls']]
        for r_, v in ((r1, st['a']), (r2, st['b'])):
            r_.meta.clear()
            r_.visual.clear()
            if v != 'absent':
                getattr(r_, st['which'])[st['k']] = DICTVALS[v]()
        ctx.case(('dicteq', st['cls'], st['which'], st['k'], st['a'], st['b']), st['a'] != st['b'])
        try:
            got = [bool(r1 == r2), bool(r2 == r1), not (r1 != r2), not (r2 != r1)]
        except Exception as ex:  # noqa
            ctx.violation(f"C16|entry|raises|{type(ex).__name__}|{st['which']}", f"== between regions whose {st['which']}[{st['k']!r}] is {st['a']} / {st['b']} raised {ex!r}", dict(st))
            continue
        want = st['eq'] == 'eq'
        if got != [want] * 4:
            ctx.violation(f"C16|entry|{st['which']}.{st['k']}|{st['a']}~{st['b']}", f"{st['cls']}: {st['which']}[{st['k']!r}] {st['a']} vs {st['b']}: ==, reflected ==, not !=, reflected not != give {got}, "
                          f"the entries are {'the same' if want else 'different'}", dict(st))
    for r1, r2 in pairs.values():
        for r_ in (r1, r2):
            r_.meta.clear()
            r_.visual.clear()
    ctx.traces += n
    ctx.note('dict_entry_pairs', n)
    tlc.cleanup(res.workdir)


def field_perturbations(ctx, cat, cls):
    """FieldEq.tla: for every class and every field, two regions that differ in that field only (every pair of valid catalogue tokens)
    are equal exactly when the tokens denote the same value."""
    res = tlc.run('FieldEq', cfg_text=('SPECIFICATION SpecF\nCONSTANTS Classes <- ClsAll\n Acts <- ActsEq\n MaxObj = 2\n Deviations <- NoDev\n ExtraPix <- TolProbes\n'
                                       ' MaxDepth = 1\nINVARIANT Reflexive\nINVARIANT Symmetric\nCHECK_DEADLOCK FALSE\n'), dump=True, tag='c16field', timeout=1200)
    ctx.tlc(res, 'FieldEq: single-field perturbations of every field of every class')
    if res.violated:
        ctx.violation(f'C16|model|{res.violated}', f'FieldEq.tla: {res.violated} fails in the model', {'trace': res.trace[-1:]})
        tlc.cleanup(res.workdir)
        return
    n = 0
    for st in parse_dump(res.dump_path):
        n += 1
        c, f, t1, t2 = st['cls'], st['field'], st['t1'], st['t2']
        w = objs.World(cat, cls)
        rep = objs.fmap(st['rep'])
        ctx.case(('fieldeq', c, f, t1, t2), t1 != t2)
        case = {'cls': c, 'field': f, 't1': t1, 't2': t2, 'other_arguments': rep}
        try:
            a = cls[c](**{k: w.val(v if k != f else t1) for k, v in rep.items()})
            b = cls[c](**{k: w.val(v if k != f else t2) for k, v in rep.items()})
            via_copy = a.copy(**{f: w.val(t2)}) if f != 'operator' or True else None
            w.slots = {1: a, 2: b}
            got = w.equality()
            w.slots = {1: via_copy, 2: b}
            got_copy = w.equality()
            w.slots = {1: via_copy, 2: a}
            got_vs_source = w.equality()
        except Exception as ex:  # noqa
            ctx.violation(f'C16|field|raises|{c}.{f}|{type(ex).__name__}', f'{c}: building / comparing regions that differ in {f} ({t1} vs {t2}) raised {ex!r}', case)
            continue
        if got != st['want']:
            ctx.violation(f'C16|field|{c}.{f}|{t1}~{t2}', f"{c}: regions that differ in {f} only ({t1} vs {t2}) compare as {got}, the tokens are {'the same value' if st['want'] == 'eq' else 'different values'}", case)
        elif c.startswith('Compound') and f == 'region1':
            pass          # (a compound made without meta takes its first member's: copy(region1=...) keeps the source's, a fresh compound takes the new member's)
        elif got_copy != 'eq' or got_vs_source != st['want']:
            ctx.violation(f'C16|field-copy|{c}.{f}|{t1}~{t2}', f'{c}: copy({f}={t2}) of the region with {f}={t1}: compared with a region built with {t2}: {got_copy}; with its source: {got_vs_source} (expected eq, {st["want"]})', case)
    ctx.traces += n
    ctx.note('field_perturbation_pairs', n)
    tlc.cleanup(res.workdir)


def run(ctx):
    quick = ctx.tier == 'quick'
    cat, cls = objs.catalogue(), objs.classes()
    invs = c17.INVS + ['EqReflexiveSymmetric', 'CopyWithDictDiffers']
    res = tlc.run('MC_Objects', cfg_text=c17.cfg('ClsEqSmall' if quick else 'ClsEq', 'ActsEq', 2, 3, invs=invs, extra='TolProbes'), dump=True,
                  tag='c16', timeout=3000)
    ctx.tlc(res, 'MC_Objects two slots: construct/copy/copywith/assign/meta, eq flag')
    if res.violated:
        ctx.violation(f'C16|model|{res.violated}', f'Objects.tla: invariant {res.violated} fails in the model', {'trace': res.trace[-2:]})
    else:
        replay(ctx, res, cat, cls, 1)
    tlc.cleanup(res.workdir)
    # every class: construct, copy, compare (depth 2) and class-differing pairs
    res = tlc.run('MC_Objects', cfg_text=c17.cfg('ClsQuickCopy' if quick else 'ClsAll', 'ActsCopyOnly', 2, 2, invs=invs), dump=True, tag='c16')
    ctx.tlc(res, 'MC_Objects all classes: construct then copy')
    if res.violated:
        ctx.violation(f'C16|model|{res.violated}', f'Objects.tla: invariant {res.violated} fails in the model', {'trace': res.trace[-2:]})
    else:
        n = 0
        for st in parse_dump(res.dump_path, only='"copy'):
            if st['act']['a'] not in ('copy', 'copyas', 'copywithdict'):
                continue
            n += 1
            w = objs.World(cat, cls)
            w.materialise(st['pre'])
            out = w.apply(st['act'])
            heap, dicts = w.project(2, None)
            mh, md = objs.model_view(st['heap'], st['dicts'])
            ctx.case((st['act']['a'], json.dumps(st['pre']['heap'], sort_keys=True)), True)
            real_eq = w.equality()
            if out != 'ok' or heap != mh or dicts != md or real_eq != st['eq']:
                what = 'copy()' if st['act']['a'] == 'copy' else (f"copy({st['act']['which']}={st['act']['value']})" if st['act']['a'] == 'copywithdict' else f"a {st['act']['cls']} with the same parameter values")
                ctx.violation(f"C16|{st['act']['a']}|{st['pre']['heap'][0]['cls']}|{real_eq.split(' ')[0]}",
                              f"{what} of {st['pre']['heap'][0]['cls']}: outcome {out}, == says {real_eq}, model says {st['eq']}",
                              {'pre': st['pre'], 'act': st['act'], 'real_post': {'heap': heap, 'dicts': dicts}, 'model_post': {'heap': mh, 'dicts': md}})
        ctx.traces += n
        ctx.note('copies_of_every_class', n)
    tlc.cleanup(res.workdir)
    origin_polygons(ctx)
    dict_entries(ctx)
    field_perturbations(ctx, cat, cls)
    lists.run(ctx, 'C16')
    ctx.assumptions += ['parameter values are catalogue tokens; pixel tolerance probed at 1e-7 (equal) and 1e-3 (different), not inside the asymmetric band of numpy.allclose',
                        'unit re-expression probed for deg/arcmin and arcmin/arcsec']
