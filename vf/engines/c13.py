"""C13 — operations never mutate their inputs nor depend on call history.

(A) TLC checks Purity.tla (library operations leave object versions and module state unchanged,
    results are a function of the value; the history variable is hidden by a VIEW).
(B) TLC -simulate behaviours (call histories of up to 30 operations over a pool of regions of all
    classes, lists, coordinate arrays and an image, in all three formats) are replayed: a deep
    fingerprint of every pool object and of all module-level tables is taken before and after every
    call and must be equal; every call is repeated and must give an equal result; the result must
    equal that of the same call at the same value earlier in the history; the last call of every
    history is run first in a fresh interpreter with another PYTHONHASHSEED and must agree.
(C) independent random histories are logged and validated by Trace_Purity.tla.
"""
import json
import os
import random
import re
import subprocess
import sys

from .. import purity, tlc
from ..tlaparse import parse_state_block

ROOT = os.path.dirname(os.path.dirname(os.path.dirname(os.path.abspath(__file__))))


def histories_from_tlc(ctx, num, seed):
    cfg = open(os.path.join(tlc.SPECS, 'Purity.cfg')).read()
    objs = '{' + ', '.join(f'"{c}"' for c in purity.CATS) + '}'
    cfg = re.sub(r'Objs = \{[^}]*\}', f'Objs = {objs}', cfg)
    res = tlc.run('Purity', cfg_text=cfg.replace('MaxLen = 30', 'MaxLen = 4'), tag='c13')
    ctx.tlc(res, 'Purity exhaustive to length 4 (VIEW hides the history)')
    if res.violated:
        ctx.violation(f'C13|model|{res.violated}', 'Purity.tla property fails in the model', {'trace': res.trace[-2:]})
    tlc.cleanup(res.workdir)
    wd = tlc.workdir('c13sim')
    res = tlc.run('Purity', cfg_text=cfg, workers=1, simulate={'num': num, 'file': os.path.join(wd, 'tr')}, depth=31, seed=seed, tag='c13sim')
    ctx.states += res.distinct
    ctx.transitions += res.generated
    out = []
    for fn in sorted(os.listdir(wd)):
        if not fn.startswith('tr'):
            continue
        text = open(os.path.join(wd, fn)).read()
        blocks = re.findall(r'STATE_\d+ ==\s*\n(.*?)(?=\n\s*\n|\Z)', text, re.S)
        if blocks:
            st = parse_state_block(blocks[-1])
            out.append([tuple(x) for x in st['hist']])
    tlc.cleanup(res.workdir)
    tlc.cleanup(wd)
    if not out:
        raise tlc.TlcError('no simulated behaviours')
    return out


def replay(ctx, hist, pool_seed, log=None, tid=0):
    """Run one history on a fresh pool.  Returns (final request for the child, fingerprint of its result)."""
    import warnings
    pool = purity.Pool(pool_seed)
    ver = {c: 0 for c in purity.CATS}
    seen = {}
    mutated = []
    assigned = {}
    last = None
    mod0 = purity.h(repr(purity.module_state()))
    for k, (op, o) in enumerate(hist):
        kk = k % 3
        if op == 'mutate':
            pre = purity.h(repr(pool.fingerprint()))
            pool.mutate(o)
            ver[o] += 1
            mutated.append(o)
            tgt = pool.objs[o]
            tgt = tgt.regions[0] if o == 'lst' else (tgt.region1 if o == 'cmp' else tgt)
            assigned[o] = type(tgt).__name__
            if log is not None:
                log.append({'tid': tid, 'op': 'mutate', 'obj': o, 'variant': 0, 'ver': ver[o], 'pre': pre,
                            'post': purity.h(repr(pool.fingerprint())), 'modpre': mod0, 'modpost': mod0, 'res': '-'})
            continue
        before = pool.fingerprint()
        modb = purity.h(repr(purity.module_state()))
        with warnings.catch_warnings():
            warnings.simplefilter('ignore')
            try:
                res = pool.run(op, o, kk)
                r1 = purity.h(repr(purity.fp(res)))
            except Exception as ex:  # noqa
                res, r1 = ex, 'raised ' + type(ex).__name__
            after = pool.fingerprint()
            moda = purity.h(repr(purity.module_state()))
            try:
                r2 = purity.h(repr(purity.fp(pool.run(op, o, kk))))
            except Exception as ex:  # noqa
                r2 = 'raised ' + type(ex).__name__
            # the same call on an equal object constructed afresh from the current parameter values
            keep = pool.objs[o]
            try:
                pool.objs[o] = pool.rebuilt(o)
                r3 = purity.h(repr(purity.fp(pool.run(op, o, kk))))
            except Exception as ex:  # noqa
                r3 = 'raised ' + type(ex).__name__
            finally:
                pool.objs[o] = keep
        kind = type(pool.objs[o]).__name__ if o != 'lst' else 'Regions[' + ','.join(sorted({type(r).__name__ for r in pool.objs[o].regions})) + ']'
        case = {'pool_seed': pool_seed, 'history': [list(x) for x in hist[:k + 1]], 'op': op, 'object': o, 'kind': kind, 'variant': kk}
        ctx.case((op, kind, kk, ver[o]), not r1.startswith('raised'))
        if log is not None:
            log.append({'tid': tid, 'op': op, 'obj': o, 'variant': kk, 'ver': ver[o], 'pre': purity.h(repr(before)),
                        'post': purity.h(repr(after)), 'modpre': modb, 'modpost': moda, 'res': r1})
        # an exception is a result like any other here (C13 is about purity, not success): it must be repeatable too
        if after != before:
            which = [a[0] for a, b in zip(after[0], before[0]) if a != b] or ['shared inputs']
            ctx.violation(f'C13|mutates|{op}|{kind_sig(kind)}', f'{op} on {kind} changed its inputs ({which})', case)
            pool = None
            break
        if moda != modb:
            ctx.violation(f'C13|module-state|{op}|{kind_sig(kind)}', f'{op} on {kind} changed module-level state', case)
        if r2 != r1:
            ctx.violation(f'C13|repeat|{op}|{kind_sig(kind)}', f'{op} on {kind} gives a different result when repeated', case)
        if r3 != r1 and op != 'write':
            ctx.violation(f"C13|stale|{op}|{kind_sig(kind)}|after-assign:{assigned.get(o, 'none')}", f'{op} on {kind} differs from the same call on an equal, freshly constructed object (hidden state)', case)
        key = (op, o, kk, ver[o])
        if key in seen and seen[key] != r1:
            ctx.violation(f'C13|history|{op}|{kind_sig(kind)}', f'{op} on {kind} gives a different result after other calls', case)
        seen.setdefault(key, r1)
        last = ({'pool_seed': pool_seed, 'mutated': list(mutated), 'op': op, 'obj': o, 'k': kk}, r1, case)
    return last


def kind_sig(kind):
    return kind if not kind.startswith('Regions') else 'Regions'


def fresh_interpreter(ctx, finals):
    """Run each final call first in a fresh interpreter (other hash seed); compare projected results."""
    procs = []
    env = dict(os.environ)
    env['PYTHONPATH'] = ROOT + os.pathsep + os.environ.get('VERIF_REPO', '/repo')
    env['MPLBACKEND'] = 'Agg'
    for i, (req, want, case) in enumerate(finals):
        e = dict(env)
        e['PYTHONHASHSEED'] = str(1000 + i * 7)
        procs.append((subprocess.Popen([sys.executable, '-m', 'vf.purity', json.dumps(req)], cwd=ROOT, env=e,
                                       stdout=subprocess.PIPE, stderr=subprocess.PIPE, text=True), req, want, case))
        if len(procs) >= 12:
            _drain(ctx, procs)
            procs = []
    _drain(ctx, procs)


def _drain(ctx, procs):
    for p, req, want, case in procs:
        out, err = p.communicate(timeout=300)
        m = re.search(r'^RESULT (raised \S+|\S+)', out, re.M)
        ctx.case(('fresh', json.dumps(req, sort_keys=True)), True)
        if not m:
            raise tlc.TlcError(f'child interpreter failed: {err[-800:]}')
        if m.group(1) != want:
            ctx.violation(f"C13|fresh-interpreter|{req['op']}|{kind_sig(case['kind'])}",
                          f"{req['op']} on {case['kind']} gives a different result when run first in a fresh interpreter (other PYTHONHASHSEED)",
                          dict(case, request=req))
        ctx.traces += 1


def run(ctx):
    quick = ctx.tier == 'quick'
    os.makedirs(tlc.WORK, exist_ok=True)
    os.environ['VERIF_WORK'] = tlc.WORK
    hists = histories_from_tlc(ctx, 40 if quick else 600, ctx.seed + 13)
    finals = []
    steps = 0
    for b, hist in enumerate(hists):
        last = replay(ctx, hist, ctx.seed * 100003 + b)
        steps += len(hist)
        if last is not None:
            finals.append(last)
        if b == 0:
            ctx.sample({'history': [list(x) for x in hist]})
    ctx.traces += len(hists)
    ctx.note('histories_replayed', len(hists))
    ctx.note('calls_replayed', steps)
    # every text serialisation of every pool object is also compared with a fresh interpreter under another hash seed (not only when a
    # history happens to end in one): the order of what is written may not come from a set or from string hashes
    dedicated = []
    for j, (op, o) in enumerate([(op, o) for op in ('serialize_ds9', 'serialize_crtf', 'write', 'parse') for o in purity.CATS]):
        for ps in ((0, 1) if quick else (0, 1, 2, 3)):
            last = replay(ctx, [(op, o)], ctx.seed * 100003 + 7000 + ps)
            if last is not None:
                dedicated.append(last)
    fresh_interpreter(ctx, (finals[:24] if quick else finals[:200]) + dedicated)
    # (C) independent random histories validated by Trace_Purity
    rnd = random.Random(ctx.seed * 7 + 13)
    ops = ['contains', 'to_mask', 'area', 'bounding_box', 'convert', 'rotate', 'copy', 'combine', 'as_artist', 'serialize_ds9',
           'serialize_crtf', 'serialize_fits', 'write', 'parse', 'slice', 'mask_apply', 'parse_foreign', 'reread']
    traces = []
    for t in range(25 if quick else 300):
        hist = []
        for _ in range(30):
            if rnd.random() < 0.06:
                hist.append(('mutate', rnd.choice(purity.CATS)))
            else:
                hist.append((rnd.choice(ops), rnd.choice(purity.CATS)))
        log = []
        from ..ctx import Ctx
        shadow = Ctx('C13', ctx.tier, ctx.seed)     # verdicts for these come from TLC, not from the replay comparisons
        shadow.findings = []
        replay(shadow, hist, ctx.seed * 9176 + 500000 + t, log=log, tid=t + 1)
        traces.append(log)
    wd = tlc.workdir('c13trace')
    path = os.path.join(wd, 'traces.json')
    with open(path, 'w') as f:
        json.dump(traces, f)
    res = tlc.run('Trace_Purity', cfg='Trace_Purity.cfg', dump=True, env={'TRACE_FILE': path}, tag='c13trace')
    ctx.tlc(res, 'Trace_Purity validation of recorded histories')
    n = 0
    for st in res.states():
        n += 1
        tr = traces[st['tid'] - 1]
        ctx.case(('trace', st['tid']), True)
        if st['verdict'] != 'ok':
            ev = tr[st['at'] - 1]
            ctx.violation(f"C13|trace|{st['verdict']}|{ev['op']}|{ev['obj']}", f"recorded history rejected by Trace_Purity at event {st['at']}: {st['verdict']}",
                          {'event': ev, 'history': [[e['op'], e['obj']] for e in tr[:st['at']]], 'pool_seed': ctx.seed * 9176 + 500000 + st['tid'] - 1})
    if n != len(traces):
        raise tlc.TlcError('Trace_Purity verdict count mismatch')
    ctx.traces += n
    ctx.note('traces_validated', n)
    tlc.cleanup(res.workdir)
    tlc.cleanup(wd)
    import glob
    import shutil
    for d in glob.glob(os.path.join(tlc.WORK, 'c13shared_*')):
        shutil.rmtree(d, ignore_errors=True)
    ctx.assumptions += ['fingerprints cover region parameters bit-for-bit, meta/visual, list membership, coordinate and image arrays, the WCS header and '
                        'all module-level containers of regions.*; objects outside the pool are not observed']
