"""C05 — applying a mask to an image is exact placement at the bounding box.

(A) TLC checks Placement.tla: the Impl of to_image / cutout / multiply through the overlap slices
    equals the pixel-by-pixel Ref for every box position relative to the image (inside, straddling
    each edge/corner, outside, negative indices, empty, larger than the image), None exactly when
    nothing overlaps.
(B) every returning state is replayed into the real RegionMask (int / float / Quantity data,
    fill 0 / 7 / NaN / inf, copy flag, boolean mask): values compared cell by cell, view-versus-copy
    observed with shares_memory, dtype promotion and unit checked, inputs fingerprinted.
(C) random boxes to 1e8 pixels away, images to 40x40, numpy integer bounds: recorded results
    validated by Trace_Placement.tla.
"""
import contextlib
import json
import math
import os
import random
import warnings

import numpy as np

from .. import tlc
from ..tlaparse import parse_dump

CFG = """SPECIFICATION Spec
CONSTANTS XLo <- M3
 XHi = 4
 Sizes <- {sizes}
 ImgH <- {h}
 ImgW <- {w}
 Patterns <- {pat}
 Fills <- FillsAll
INVARIANT InvToImage
INVARIANT InvCutout
INVARIANT InvMultiply
INVARIANT InvNoneIffNoOverlap
INVARIANT InvValuesLen
CHECK_DEADLOCK FALSE
"""
DTYPES = {'float': float, 'int': int, 'bool': bool, '-': float}
FILL = {'zero': 0.0, 'seven': 7.0, 'nan': float('nan'), 'inf': float('inf'), 'izero': 0, 'ineg': -3}
# float images hold A*Data + B (fractional values: a result of the wrong dtype shows)
A_, B_ = 0.5, 0.25


MASKS = {}      # RegionMask objects are reused across replayed states: a call must not leave anything behind in them


def weight(pat, j, i):
    return {'ones': 2, 'checker': 2 if (i + j) % 2 == 0 else 0, 'mix': (i + 2 * j + 1) % 3, 'half': 1}[pat]


def make_mask(box, pat):
    from regions import RegionBoundingBox, RegionMask
    nx, ny = box[1] - box[0], box[3] - box[2]
    data = np.array([[weight(pat, j, i) / 2.0 for i in range(nx)] for j in range(ny)], dtype=float).reshape(ny, nx)
    return RegionMask(data, RegionBoundingBox(box[0], box[1], box[2], box[3]))


def make_image(h, w, kind):
    import astropy.units as u
    base = np.array([[2 * (10 * y + x + 1) for x in range(w)] for y in range(h)], dtype=np.int64).reshape(h, w)
    if kind == 'int':
        return base
    if kind == 'float_integral':
        return base.astype(float)
    if kind == 'float':
        return base.astype(float) * A_ + B_
    return (base.astype(float) * A_ + B_) * u.adu


def same_fill(v, fill):
    return (math.isnan(fill) and math.isnan(v)) or v == fill


def plain(a):
    return np.asarray(getattr(a, 'value', a))


def rows(f):
    """model function over 0-based indices (parsed as dict or list) -> list of lists."""
    if f == []:
        return None
    if isinstance(f, dict):
        return [rows_inner(f[k]) for k in sorted(f)]
    return [rows_inner(r) for r in f]


def rows_inner(r):
    if isinstance(r, dict):
        return [r[k] for k in sorted(r)]
    return list(r)


def replay(ctx, st, idx):
    import astropy.units as u
    box, (h, w), pat, op, arg, res = st['box'], st['img'], st['pat'], st['op'], st['arg'], st['res']
    kind = ['int', 'float', 'quantity'][idx % 3]
    copy = bool((idx // 3) % 2)
    mk = (tuple(box), pat)
    mask = MASKS.get(mk)
    if mask is None:
        if len(MASKS) > 400:
            MASKS.clear()
        mask = MASKS[mk] = make_mask(box, pat)
    img = make_image(h, w, kind)
    img_before = plain(img).tobytes()
    m_before = mask.data.tobytes()
    case = {'box': box, 'image_shape': [h, w], 'pattern': pat, 'op': op, 'arg': arg, 'dtype': kind, 'copy': copy}
    val = (lambda d: d) if kind == 'int' else (lambda d: A_ * d + B_)
    sig = f'C05|{op}|'
    ny, nx = box[3] - box[2], box[1] - box[0]
    # every other state runs with warnings turned into errors (python -W error, pytest filterwarnings = error): "never an exception"
    # holds there as well, so the library may not let a warning of its own arithmetic (inf * 0, NaN casts) escape
    strict = contextlib.ExitStack()
    if idx % 2 == 1:
        strict.enter_context(warnings.catch_warnings())
        warnings.simplefilter('error')
        case['warnings'] = 'error'
    try:
        if op == 'to_image':
            dt = DTYPES[arg]
            out = mask.to_image((h, w), dtype=dt)
            want = rows(res)
            if (out is None) != (want is None):
                return ctx.violation(sig + 'none', f'to_image returned {"None" if out is None else "an image"}, model says {"None" if want is None else "an image"}', case)
            if out is not None and (out.shape != (h, w) or out.dtype != np.dtype(dt) or not np.array_equal(out.astype(float) * 2, np.array(want).reshape(h, w))):
                return ctx.violation(sig + 'values', f'to_image(dtype={arg}) differs from placing the (cast) mask at (ixmin, iymin)', dict(case, real=out.tolist(), model_x2=want))
            # the same call again after a call with another dtype, on the same mask object: the answer may not depend on the history
            if out is not None:
                other = mask.to_image((h, w), dtype=float if arg != 'float' else np.int32)
                again = mask.to_image((h, w), dtype=dt)
                if again.dtype != out.dtype or not np.array_equal(again, out):
                    return ctx.violation(sig + 'history', f'to_image(dtype={arg}) gives another answer after to_image with another dtype on the same mask', dict(case, first=out.tolist(), again=again.tolist()))
                if arg != 'float' and not np.array_equal(other, mask.to_image((h, w))):
                    return ctx.violation(sig + 'history', 'to_image() differs between two calls on the same mask', case)
                if arg != 'float':
                    exp = np.zeros((h, w))
                    for y in range(h):
                        for x in range(w):
                            if box[0] <= x < box[1] and box[2] <= y < box[3]:
                                exp[y, x] = weight(pat, y - box[2], x - box[0]) / 2.0
                    if not np.array_equal(other, exp):
                        return ctx.violation(sig + 'history', f'to_image() after to_image(dtype={arg}) on the same mask is not the placed mask (weights truncated?)', dict(case, real=other.tolist()))
        elif op == 'cutout':
            fill = FILL[arg]
            out = mask.cutout(img, fill_value=fill, copy=copy)
            want = rows(res['grid'])
            if (out is None) != (want is None):
                return ctx.violation(sig + 'none', f'cutout returned {"None" if out is None else "an array"}, model says {"None" if want is None else "an array"}', case)
            if out is not None:
                if out.shape != (ny, nx):
                    return ctx.violation(sig + 'shape', f'cutout shape {out.shape} is not the mask shape {(ny, nx)}', case)
                o = plain(out)
                for j in range(ny):
                    for i in range(nx):
                        c = want[j][i]
                        ok = (o[j, i] == val(c[1])) if c[0] == 'd' else same_fill(float(o[j, i]), fill)
                        if not ok:
                            return ctx.violation(sig + ('data' if c[0] == 'd' else 'fill'), f'cutout[{j},{i}] = {o[j, i]!r}, expected {c}', dict(case, real=o.tolist()))
                shares = np.shares_memory(o, plain(img))
                if shares != (res['inside'] and not copy):
                    return ctx.violation(sig + 'view', f'cutout shares memory with the image: {shares}; box fully inside: {res["inside"]}, copy={copy}', case)
                if kind == 'quantity' and getattr(out, 'unit', None) != u.adu:
                    return ctx.violation(sig + 'unit', 'cutout of a Quantity lost its unit', case)
        elif op == 'multiply':
            fill = FILL[arg]
            out = mask.multiply(img, fill_value=fill)
            want = rows(res)
            if (out is None) != (want is None):
                return ctx.violation(sig + 'none', f'multiply returned {"None" if out is None else "an array"}, model says {"None" if want is None else "an array"}', case)
            if out is not None:
                o = plain(out)
                if o.shape != (ny, nx):
                    return ctx.violation(sig + 'shape', f'multiply shape {o.shape}', case)
                if kind == 'quantity' and getattr(out, 'unit', None) != u.adu:
                    return ctx.violation(sig + 'unit', 'multiply of a Quantity lost its unit', case)
                for j in range(ny):
                    for i in range(nx):
                        c = want[j][i]
                        v = float(o[j, i])
                        if c[0] == 'd':
                            ok = v == (c[1] if kind == 'int' else A_ * c[1] + B_ * weight(pat, j, i) / 2.0)
                        elif fill == 0.0:
                            ok = v == 0.0
                        elif c[0] == 'zf':     # outside the image, weight 0: the fill value itself
                            ok = same_fill(v, fill)
                        else:     # the statement leaves weight-0 / outside-image cells open between fill, fill*weight and 0
                            wgt = weight(pat, j, i) / 2.0
                            ok = same_fill(v, fill) or v == 0.0 or (not math.isnan(fill * wgt) and v == fill * wgt) or (math.isnan(fill * wgt) and math.isnan(v))
                            ctx.dontcare += 1
                        if not ok:
                            return ctx.violation(sig + ('data' if c[0] == 'd' else 'zero'), f'multiply[{j},{i}] = {v!r}, expected {c}', dict(case, real=o.tolist()))
                # the same mask with every weight scaled by 2e-9 (slivers of an exact-mode mask): a tiny positive weight is still a weight
                if idx % 4 == 0 and kind != 'quantity':
                    from regions import RegionMask
                    TS = 2e-9
                    tiny = RegionMask(np.asarray(mask.data, dtype=float) * TS, mask.bbox)
                    o2 = plain(tiny.multiply(img, fill_value=fill))
                    for j in range(ny):
                        for i in range(nx):
                            c = want[j][i]
                            if c[0] == 'd':
                                exp = (c[1] if kind == 'int' else A_ * c[1] + B_ * weight(pat, j, i) / 2.0) * TS
                                if not abs(float(o2[j, i]) - exp) <= 1e-12 * abs(exp):
                                    return ctx.violation(sig + 'tiny-weight', f'multiply with weights of {TS * weight(pat, j, i) / 2.0:g}: [{j},{i}] = {float(o2[j, i])!r}, expected data * weight = {exp!r}',
                                                         dict(case, real=o2.tolist()))
        elif op == 'get_values':
            mk = None
            if arg == 'alt':
                mk = np.array([[(x + y) % 2 == 1 for x in range(w)] for y in range(h)], dtype=bool).reshape(h, w)
            out = mask.get_values(img, mask=mk)
            o = plain(out)
            want = list(res)
            if kind != 'int':
                # the model lists Data*weight row-major over the common pixels with positive weight (and not masked): map to A*Data+B
                ws = [weight(pat, y - box[2], x - box[0]) / 2.0 for y in range(h) for x in range(w)
                      if box[0] <= x < box[1] and box[2] <= y < box[3] and weight(pat, y - box[2], x - box[0]) > 0 and not (arg == 'alt' and (x + y) % 2 == 1)]
                want = [A_ * d + B_ * wg for d, wg in zip(want, ws)] if len(ws) == len(want) else None
            if want is None or o.ndim != 1 or [float(v) for v in o] != [float(v) for v in want]:
                return ctx.violation(sig + 'values', f'get_values returned {o.tolist()}, expected {want}', case)
            if kind == 'quantity' and len(o) and getattr(out, 'unit', None) != u.adu:
                return ctx.violation(sig + 'unit', 'get_values of a Quantity lost its unit (weighted values of data in adu are in adu)', case)
            if kind != 'int' and want:
                # the same call on an image in which some pixels are NaN / +-inf: a value is returned for every pixel of positive
                # weight that is not masked - what the data holds there does not decide whether it is returned
                base = np.array([[2 * (10 * y + x + 1) for x in range(w)] for y in range(h)]).reshape(h, w)
                img2 = plain(img).copy()
                img2[base % 10 == 4] = np.nan
                img2[base % 10 == 8] = np.inf
                img2[base % 14 == 6] = -np.inf
                if kind == 'quantity':
                    img2 = img2 * u.adu
                o2 = plain(mask.get_values(img2, mask=mk))
                cells = [(y, x) for y in range(h) for x in range(w)
                         if box[0] <= x < box[1] and box[2] <= y < box[3] and weight(pat, y - box[2], x - box[0]) > 0 and not (arg == 'alt' and (x + y) % 2 == 1)]
                exp2 = [float(plain(img2)[y, x]) * (weight(pat, y - box[2], x - box[0]) / 2.0) for y, x in cells]
                same = o2.ndim == 1 and len(o2) == len(exp2) and all((math.isnan(a) and math.isnan(b)) or a == b for a, b in zip([float(v) for v in o2], exp2))
                if not same:
                    return ctx.violation(sig + 'nonfinite', f'get_values on data holding NaN/inf returned {len(o2)} value(s) {o2.tolist()}, expected {len(exp2)}: {exp2}', case)
    except Exception as ex:  # noqa
        return ctx.violation(sig + f'raises|{type(ex).__name__}', f'{op} raised {ex!r}', case)
    finally:
        strict.close()
    if plain(img).tobytes() != img_before or mask.data.tobytes() != m_before:
        return ctx.violation(sig + 'mutated', f'{op} modified its input', case)
    return False


def run(ctx):
    quick = ctx.tier == 'quick'
    cfg = CFG.format(sizes='SizesQ' if quick else 'SizesT', h='HQ' if quick else 'HT', w='WQ' if quick else 'WT', pat='PatQ' if quick else 'PatT')
    res = tlc.run('MC_Placement', cfg_text=cfg, dump=True, coverage=True, tag='c05', timeout=3000)
    ctx.tlc(res, 'MC_Placement all box positions x image shapes x patterns x operations')
    if res.violated:
        ctx.violation(f'C05|model|{res.violated}', f'Placement.tla: invariant {res.violated} fails in the model', {'trace': res.trace[-2:]})
        tlc.cleanup(res.workdir)
        return
    n = 0
    for idx, st in enumerate(parse_dump(res.dump_path, only='pc = "ret"')):
        n += 1
        nontriv = st['res'] != [] and (st['op'] != 'cutout' or st['res']['grid'] != [])
        ctx.case((tuple(st['box']), tuple(st['img']), st['pat'], st['op'], st['arg']), nontriv)
        bad = replay(ctx, st, idx)
        if not bad and n % 20011 == 1:
            ctx.sample({'box': st['box'], 'image_shape': st['img'], 'pattern': st['pat'], 'op': st['op'], 'arg': st['arg'], 'res': st['res']})
    ctx.traces += n
    ctx.note('replayed_states', n)
    tlc.cleanup(res.workdir)
    trace_validation(ctx)
    # the window arithmetic all four operations are built on is proved for all integers (TLAPS)
    from . import c19
    c19.proofs(ctx, modules=('SliceLaws',))
    ctx.assumptions += ['multiply with a non-zero fill value: weight-0 and outside-image cells may hold the fill value, fill*weight or 0 (the statement leaves it open); strict when fill is 0',
                        'image data are the distinct even integers 2(10y+x+1); weights 0, 1/2, 1']


def enc(grid):
    return grid


def trace_validation(ctx):
    from regions import RegionBoundingBox, RegionMask
    rnd = random.Random(ctx.seed * 31 + 5)
    n = 400 if ctx.tier == 'quick' else 5000
    events = []
    for k in range(n):
        h, w = rnd.randint(0, 9), rnd.randint(0, 9)
        if k % 10 == 0:
            h, w = rnd.randint(10, 40), rnd.randint(10, 40)
        nx, ny = rnd.randint(0, 6), rnd.randint(0, 6)
        far = rnd.choice([0, 0, 0, 10 ** 4, -10 ** 8, 10 ** 8])
        x0 = rnd.randint(-7, w + 2) + (far if rnd.random() < 0.5 else 0)
        y0 = rnd.randint(-7, h + 2) + (far if rnd.random() < 0.3 else 0)
        box = [x0, x0 + nx, y0, y0 + ny]
        pat = rnd.choice(['ones', 'checker', 'mix', 'half'])
        itype = rnd.choice([int, np.int32, np.int64])
        if min(box) >= 0 and max(box) < 60000 and rnd.random() < 0.5:
            itype = rnd.choice([np.uint16, np.uint32, np.uint64])          # corners as unsigned integers (read from a header): offsets from them are negative
        data = np.array([[weight(pat, j, i) / 2.0 for i in range(nx)] for j in range(ny)], dtype=float).reshape(ny, nx)
        mask = RegionMask(data, RegionBoundingBox(itype(box[0]), itype(box[1]), itype(box[2]), itype(box[3])))
        img = make_image(h, w, rnd.choice(['int', 'float_integral']))
        # a short history of calls on the same mask object and image
        for call in range(rnd.randint(1, 4)):
            op = rnd.choice(['to_image', 'to_image', 'cutout', 'multiply', 'get_values'])
            arg = '-'
            try:
                if op == 'to_image':
                    arg = rnd.choice(['float', 'int', 'bool'])
                    out = mask.to_image((h, w), dtype=DTYPES[arg])
                    res = enc(None if out is None else [[int(round(2 * float(v))) for v in row] for row in out.tolist()])
                elif op == 'cutout':
                    out = mask.cutout(img, fill_value=-1.0)
                    res = enc(None if out is None else [[['f'] if v == -1.0 else ['d', int(v)] for v in row] for row in np.asarray(out).tolist()])
                elif op == 'multiply':
                    out = mask.multiply(img, fill_value=0.0)
                    res = enc(None if out is None else [[['z'] if v == 0 else ['d', int(v)] for v in row] for row in np.asarray(out).tolist()])
                else:
                    arg = rnd.choice(['nomask', 'alt'])
                    mk = None if arg == 'nomask' else np.array([[(x + y) % 2 == 1 for x in range(w)] for y in range(h)], dtype=bool).reshape(h, w)
                    out = mask.get_values(img, mask=mk)
                    res = [int(v) for v in np.asarray(out).tolist()]
            except Exception as ex:  # noqa
                ctx.violation(f'C05|trace|{op}|raises|{type(ex).__name__}', f'{op} raised {ex!r}', {'box': box, 'image_shape': [h, w]})
                continue
            # a result of the wrong dimensions cannot even be compared cell by cell: report it here
            if res is not None and op != 'get_values':
                want_shape = (h, w) if op == 'to_image' else (ny, nx)
                if (len(res), len(res[0]) if res else 0) != (want_shape if want_shape[0] else (0, 0)):
                    ctx.violation(f'C05|trace|{op}|shape', f'{op} returned an array of the wrong shape', {'box': box, 'image_shape': [h, w]})
                    continue
            events.append({'op': op, 'box': box, 'h': h, 'w': w, 'pat': pat, 'arg': arg, 'isnone': res is None, 'res': [] if res is None else res, 'call': call})
    wd = tlc.workdir('c05trace')
    path = os.path.join(wd, 'events.json')
    with open(path, 'w') as f:
        json.dump(events, f)
    res = tlc.run('Trace_Placement', cfg='Trace_Placement.cfg', dump=True, env={'TRACE_FILE': path}, tag='c05trace')
    ctx.tlc(res, 'Trace_Placement validation of recorded calls')
    seen = 0
    for st in res.states():
        seen += 1
        e = events[st['i'] - 1]
        ctx.case(('trace', json.dumps(e, sort_keys=True)), e['res'] != [])
        if st['verdict'] != 'ok':
            ctx.violation(f"C05|trace|{st['verdict']}", f"recorded call rejected by Trace_Placement: {st['verdict']}", e)
    if seen != len(events):
        raise tlc.TlcError('Trace_Placement verdict count mismatch')
    ctx.traces += seen
    ctx.note('trace_events_validated', seen)
    tlc.cleanup(res.workdir)
    tlc.cleanup(wd)
