"""C09 — DS9 serialise->parse round-trips every region, and is a fixed point thereafter.

(A) TLC checks Ds9Write.tla composed with the reader of Ds9.tla: Read(Write(L)) = Expressible(L)
    (one region per serialisable region; class, frame, geometry, include sense, text, tags),
    unserialisable regions are skipped without altering the other lines, parse->serialise->parse is
    a fixed point; with the deviations of the code before its fixes (include written verbatim /
    hoisted into 'global') the model itself produces the lost-exclusion counterexample (self-test).
(B) every 'done' state is replayed: the real serialize() text is tokenised by an independent
    tokenizer and compared with the model's abstract file (which keys are hoisted into 'global',
    frame placement, per-line properties, numbers), the real parse of that text is compared with
    the model's regions, serialising twice must give identical text.
(C) random user-built lists of 1..8 mixed regions (all ten shapes, six frames, precision 1..12,
    metadata vocabulary) go through serialize -> parse -> serialize -> parse; every number must be
    within half a unit (inclusive) of the precision (a full unit for ellipse axes), and the second
    cycle must be exact; all bundled .reg files go through parse -> serialise -> parse.  The
    recorded numbers are validated by Trace_Ds9Write.tla.
(D) Ds9Visual.tla (see engines/ds9visual.py): the DS9 <-> matplotlib translation of visual properties transcribed
    case by case, model-checked over 8 shapes x 10 368 property combinations, every state replayed through the
    real reader and writer.
"""
import glob
import json
import math
import operator
import os
import random
import warnings

import numpy as np

from .. import ds9text, tlc
from ..tlaparse import parse_dump

CFG = """SPECIFICATION Spec
CONSTANTS Pool <- PoolAll
 MaxLen = {maxlen}
 Deviations <- {dev}
INVARIANT RoundTrip
INVARIANT SkipDoesNotAlter
INVARIANT FixedPoint
CHECK_DEADLOCK FALSE
"""
CLSMAP = {'circle': 'Circle', 'ellipse': 'Ellipse', 'rectangle': 'Rectangle', 'cannulus': 'CircleAnnulus', 'eannulus': 'EllipseAnnulus',
          'rannulus': 'RectangleAnnulus', 'polygon': 'Polygon', 'line': 'Line', 'point': 'Point', 'text': 'Text'}
INC = {'T': True, 'F': False, '1': 1, '0': 0}


def val(v):
    return ds9text.value(v)[1]


def build(u_):
    """abstract user region (Ds9Write.tla) -> real region."""
    import astropy.units as u
    from astropy.coordinates import SkyCoord

    import regions as R
    from regions import PixCoord
    cls, frame = u_['cls'], u_['frame']
    if cls == 'compound':
        return R.CompoundPixelRegion(R.CirclePixelRegion(PixCoord(1, 1), 2), R.CirclePixelRegion(PixCoord(2, 1), 2), operator.or_)
    pix = frame == 'image'
    fr = 'supergalactic' if frame == 'unnamed' else frame
    pos = [val(v) for v in u_['pos']]

    def coord(i):
        return PixCoord(pos[i], pos[i + 1]) if pix else SkyCoord(pos[i], pos[i + 1], unit='deg', frame=fr)
    sz = [val(v) if pix else val(v) * u.deg for v in u_['sizes']]
    meta, visual = {}, {}
    if u_['inc'] != 'absent':
        meta['include'] = INC[u_['inc']]
    p = u_['props']
    if 'tag' in p:
        meta['tag'] = [p['tag']]
    if 'text' in p and cls != 'text':
        meta['text'] = p['text']
    if 'color' in p:
        visual['color'] = p['color']
    if 'width' in p:
        visual['linewidth'] = int(p['width'])
    kw = {'meta': meta, 'visual': visual}
    name = CLSMAP[cls] + ('PixelRegion' if pix else 'SkyRegion')
    K = getattr(R, name)
    ang = val(u_['ang']) * u.deg if u_['ang']['u'] != 'none' else None
    if cls == 'circle':
        return K(coord(0), sz[0], **kw)
    if cls in ('ellipse', 'rectangle'):
        return K(coord(0), sz[0], sz[1], angle=ang, **kw)
    if cls == 'cannulus':
        return K(coord(0), sz[0], sz[1], **kw)
    if cls in ('eannulus', 'rannulus'):
        return K(coord(0), sz[0], sz[1], sz[2], sz[3], angle=ang, **kw)
    if cls == 'polygon':
        xs, ys = pos[0::2], pos[1::2]
        return K(PixCoord(np.array(xs), np.array(ys)) if pix else SkyCoord(xs, ys, unit='deg', frame=fr), **kw)
    if cls == 'line':
        return K(coord(0), coord(2), **kw)
    if cls == 'point':
        return K(coord(0), **kw)
    if cls == 'text':
        return K(coord(0), p.get('text', ''), **kw)
    raise ValueError(cls)


def norm_props(p):
    return {k: ([v] if k == 'tag' and not isinstance(v, list) else v) for k, v in p.items() if k != 'zz'}


def same_lines(model, real):
    """model abstract lines vs tokenised real text; returns None or a description."""
    if [l['k'] for l in model] != [l['k'] for l in real]:
        return 'line-kinds', f"{[l['k'] for l in real]} vs model {[l['k'] for l in model]}"
    for m, r in zip(model, real):
        if m['k'] == 'frame' and m['name'] != r['name']:
            return 'frame-line', f"{r['name']} vs model {m['name']}"
        if m['k'] == 'global' and norm_props(m['props']) != r['props']:
            return 'hoisted', f"global line holds {r['props']}, the model hoists {norm_props(m['props'])}"
        if m['k'] == 'region':
            if m['shape'] != r['shape']:
                return 'shape-word', f"{r['shape']} vs model {m['shape']}"
            if norm_props(m['props']) != r['props']:
                return 'line-props', f"{r['props']} vs model {norm_props(m['props'])}"
            want = [t['v'] / 1000.0 for t in m['toks']]
            try:
                got = [float(x) for x in r['nums']]
            except ValueError:
                return 'numbers', f"unparsable numbers {r['nums']}"
            if len(want) != len(got) or any(abs(a - b) > 1e-9 * max(1, abs(a)) for a, b in zip(want, got)):
                return 'numbers', f'{got} vs model {want}'
    return None


def replay(ctx, st, idx):
    from regions import Regions
    lst = list(st['lst'])
    case = {'list': lst}
    sig = ','.join(f"{u_['cls']}@{u_['frame']}" + ('!' if u_['inc'] in ('F', '0') else '') for u_ in lst)
    try:
        regs = [build(u_) for u_ in lst]
    except Exception as ex:  # noqa
        ctx.violation(f'C09|build|{type(ex).__name__}', f'cannot build {sig}: {ex!r}', case)
        return True
    p = [8, 3, 5, 12, 4][idx % 5]
    try:
        with warnings.catch_warnings(record=True) as wl:
            warnings.simplefilter('always')
            text = Regions(regs).serialize(format='ds9', precision=p)
            text2 = Regions(regs).serialize(format='ds9', precision=p)
    except Exception as ex:  # noqa
        kinds = sorted({u_['cls'] if u_['cls'] == 'compound' else ('unnamed-frame' if u_['frame'] == 'unnamed' else 'plain') for u_ in lst})
        ctx.violation(f"C09|serialize|raises|{type(ex).__name__}|{'+'.join(kinds)}", f'serialize raised {ex!r} for [{sig}]', case)
        return True
    case['text'] = text
    nskip = sum(1 for u_ in lst if u_['cls'] == 'compound' or u_['frame'] == 'unnamed')
    if nskip and sum(1 for w in wl if 'skipping' in str(w.message)) < nskip:
        ctx.violation('C09|skip|no-warning', f'{nskip} unserialisable region(s) but fewer skip warnings', case)
        return True
    if text != text2:
        ctx.violation('C09|determinism', 'serialising the same list twice gives different text', case)
        return True
    why = same_lines(list(st['lines']), ds9text.tokenize(text))
    if why:
        ctx.violation(f'C09|text|{why[0]}', f'serialised text differs from the model for [{sig}]: {why[1]}', dict(case, model_lines=st['lines']))
        return True
    try:
        with warnings.catch_warnings():
            warnings.simplefilter('ignore')
            back = list(Regions.parse(text, format='ds9'))
    except Exception as ex:  # noqa
        ctx.violation(f'C09|parse|raises|{type(ex).__name__}', f'parsing the serialised text raised {ex!r}', case)
        return True
    out = st['back']['out']
    if len(back) != len(out):
        ctx.violation('C09|roundtrip|count', f'{len(back)} regions read back, expected {len(out)} for [{sig}]', case)
        return True
    for j, (m, r) in enumerate(zip(out, back)):
        bad = ds9text.compare(m, r, rel=1e-9)
        if bad:
            kept = [u_ for u_ in lst if u_['cls'] != 'compound' and u_['frame'] != 'unnamed']
            ctx.violation(f"C09|roundtrip|{bad[0]}|{m['cls']}|inc={kept[j]['inc']}", f'region {j} of [{sig}] reads back wrong: {bad[1]}', dict(case, region_index=j))
            return True
    return False


# ------------------------------------------------------------------------------------------------------------
def random_region(rnd):
    import astropy.units as u
    from astropy.coordinates import SkyCoord

    import regions as R
    from regions import PixCoord
    frame = rnd.choice(['image', 'image', 'icrs', 'fk5', 'fk4', 'galactic', 'barycentricmeanecliptic'])
    pix = frame == 'image'
    if frame in ('fk5', 'fk4') and rnd.random() < 0.35:
        # a frame with non-default attributes: DS9 names the default frame, so the coordinates written must be those of the
        # default frame (numbers() compares in the default frame of the same name)
        from astropy.coordinates import FK4, FK5
        frame = rnd.choice([FK5(equinox='J1975'), FK5(equinox='J2010.5')]) if frame == 'fk5' else FK4(equinox='B1975')
    mag = rnd.choice([1.0, 1.0, 30.0, 1e3]) if pix else 1.0

    def c():
        if pix:
            return PixCoord(rnd.uniform(-500, 500) * mag / 30, rnd.uniform(-500, 500) * mag / 30)
        return SkyCoord(rnd.uniform(0.5, 359.5), rnd.uniform(-85, 85), unit='deg', frame=frame)

    def s(lo=0.6, hi=40.0):
        v = rnd.uniform(lo, hi) * (mag if pix else 1.0)
        if pix:
            return v
        # from a twentieth of an arcsecond to degrees; as a plain Quantity or as an Angle (the writer treats the two types separately,
        # and below 1e-4 deg a Quantity is printed with an exponent)
        q = (v * rnd.choice([1 / 3600., 1 / 60., 0.1, 1 / 36000.])) * u.deg
        if rnd.random() < 0.3:
            from astropy.coordinates import Angle
            q = Angle(q)
        return q
    a = rnd.uniform(-180, 360) * rnd.choice([u.deg, u.deg, u.rad / 57.29577951308232])
    meta, visual = {}, {}
    if rnd.random() < 0.5:
        meta['include'] = rnd.choice([True, False, 1, 0])
    if rnd.random() < 0.4:
        meta['tag'] = [rnd.choice(['t1', 'group a', 'group  A', 'zz', 'Group 10', 'Group 2']) for _ in range(rnd.randint(1, 3))]
    if rnd.random() < 0.4:
        visual['color'] = rnd.choice(['red', 'blue', '#00ff7f'])
    if rnd.random() < 0.3:
        visual['linewidth'] = rnd.randint(1, 4)
    kind = rnd.choice(['Circle', 'Ellipse', 'Rectangle', 'CircleAnnulus', 'EllipseAnnulus', 'RectangleAnnulus', 'Polygon', 'Line', 'Point', 'Text'])
    # visual attributes as a caller who uses matplotlib gives them: dash lengths and font sizes are floats there (8.0, 12.0 are whole numbers)
    if kind not in ('Point', 'Text') and rnd.random() < 0.12:
        visual['linestyle'] = rnd.choice([(0, (8.0, 3.0)), (0, (8, 3)), 'dashed'])
    if kind == 'Text' and rnd.random() < 0.3:
        visual.update({'fontname': 'times', 'fontsize': rnd.choice([12.0, 14, 10.0]), 'fontweight': 'bold', 'fontstyle': 'normal'})
    if kind not in ('Text',) and rnd.random() < 0.3:
        meta['text'] = rnd.choice(['a label', 'x;y', 'k=v # z', '123', 'semi; colon', '', "FOV 5'", '2" beam', '"quoted"', "'tis", ';lead', '; note', ';', 'end;', '#first', '=x', 'NGC 1234   (core)', 'two  blanks', ' lead blank'])
    K = getattr(R, kind + ('PixelRegion' if pix else 'SkyRegion'))
    kw = {'meta': meta, 'visual': visual}
    if kind == 'Circle':
        return K(c(), s(), **kw)
    if kind in ('Ellipse', 'Rectangle'):
        return K(c(), s(), s(), angle=a, **kw)
    if kind == 'CircleAnnulus':
        r1 = s()
        return K(c(), r1, r1 * rnd.uniform(1.2, 3), **kw)
    if kind in ('EllipseAnnulus', 'RectangleAnnulus'):
        w1, h1 = s(), s()
        return K(c(), w1, w1 * rnd.uniform(1.2, 3), h1, h1 * rnd.uniform(1.2, 3), angle=a, **kw)
    if kind == 'Polygon':
        n = rnd.randint(3, 6)
        if pix:
            return K(PixCoord(np.array([rnd.uniform(-50, 50) for _ in range(n)]), np.array([rnd.uniform(-50, 50) for _ in range(n)])), **kw)
        return K(SkyCoord([rnd.uniform(10, 12) for _ in range(n)], [rnd.uniform(-3, 3) for _ in range(n)], unit='deg', frame=frame), **kw)
    if kind == 'Line':
        if not pix and rnd.random() < 0.4:
            # the end point given in another celestial frame than the start point
            end = c()
            return K(c(), end.transform_to('galactic' if end.frame.name != 'galactic' else 'icrs'), **kw)
        return K(c(), c(), **kw)
    if kind == 'Point':
        return K(c(), **kw)
    return K(c(), rnd.choice(['some text', 'x;y', '42', 'with "quote', '"both"', "5' x 3\"", '', ';lead', ';', 'tail;', '# hash first']), **kw)


def numbers(r):
    """(list of (name, value in the serialised unit, unit-multiplier)) for a region: pixel positions 0-based px, sky deg."""
    from regions import PixelRegion
    pix = isinstance(r, PixelRegion)
    out = []
    first_frame = None
    for pname in r._params:
        v = getattr(r, pname)
        if pname == 'text':
            continue
        if hasattr(v, 'spherical'):
            # a region is written under ONE frame name, that of its first coordinate: a later coordinate given in another frame (the end
            # point of a line) is the same point of the sky expressed in that frame
            if first_frame is None:
                first_frame = v.frame
            elif v.frame.name != first_frame.name:
                v = v.transform_to(first_frame)
        if hasattr(v, 'x') and pix and hasattr(v, 'isscalar'):
            for i, (a, b) in enumerate(zip(np.atleast_1d(v.x), np.atleast_1d(v.y))):
                out += [(f'{pname}.x{i}', float(a), 1), (f'{pname}.y{i}', float(b), 1)]
        elif hasattr(v, 'spherical'):
            default = type(v.frame)()
            if not v.frame.is_equivalent_frame(default):
                v = v.transform_to(default, merge_attributes=False)        # astropy's precession is trusted
            for i, (a, b) in enumerate(zip(np.atleast_1d(v.spherical.lon.deg), np.atleast_1d(v.spherical.lat.deg))):
                out += [(f'{pname}.lon{i}', float(a), 1), (f'{pname}.lat{i}', float(b), 1)]
        elif pname == 'angle':
            out.append((pname, float(v.to_value('deg')), 1))
        else:
            ell = type(r).__name__.startswith('Ellipse') and ('width' in pname or 'height' in pname)
            out.append((pname, float(v) if pix else float(v.to_value('deg')), 2 if ell else 1))
    return out


def trace_validation(ctx):
    from regions import Regions
    rnd = random.Random(ctx.seed * 83 + 9)
    n = 250 if ctx.tier == 'quick' else 5000
    events = []
    for t in range(n):
        p = rnd.randint(1, 12)
        regs = [random_region(rnd) for _ in range(rnd.randint(1, 8))]
        case = {'precision': p, 'regions': [repr(r) for r in regs]}
        try:
            with warnings.catch_warnings():
                warnings.simplefilter('ignore')
                t1 = Regions(regs).serialize(format='ds9', precision=p)
                r1 = list(Regions.parse(t1, format='ds9'))
                t2 = Regions(r1).serialize(format='ds9', precision=p)
                r2 = list(Regions.parse(t2, format='ds9'))
                t3 = Regions(r2).serialize(format='ds9', precision=p)
        except Exception as ex:  # noqa
            small = any((not hasattr(r, 'bounding_box')) and any(abs(v) / mult < 0.5 * 10 ** -p * (1 + 1e-9) for nme, v, mult in numbers(r) if 'radius' in nme or 'width' in nme or 'height' in nme) for r in regs)
            kind = 'size-below-half-unit' if small else ('annulus-sizes-equal-after-rounding' if 'must be greater than' in str(ex) else 'other')
            ctx.violation(f"C09|trace|raises|{type(ex).__name__}|{kind}", f'round trip raised {ex!r}', dict(case, text=locals().get('t1')))
            continue
        case['text'] = t1
        if len(r1) != len(regs):
            ctx.violation('C09|trace|count', f'{len(r1)} regions read back, {len(regs)} written', case)
            continue
        ok = True
        for j, (a, b) in enumerate(zip(regs, r1)):
            if type(a) is not type(b):
                ctx.violation(f'C09|trace|class|{type(a).__name__}', f'region {j}: {type(a).__name__} read back as {type(b).__name__}', case)
                ok = False
                break
            fa = getattr(getattr(a, 'center', getattr(a, 'vertices', getattr(a, 'start', None))), 'frame', None)
            fb = getattr(getattr(b, 'center', getattr(b, 'vertices', getattr(b, 'start', None))), 'frame', None)
            if (fa is not None) and fa.name != fb.name:
                ctx.violation(f'C09|trace|frame|{fa.name}', f'region {j}: frame {fa.name} read back as {fb.name}', case)
                ok = False
                break
            exa, exb = (a.meta.get('include', True) in (False, 0)), (b.meta.get('include', True) in (False, 0))
            if exa != exb:
                ctx.violation(f"C09|trace|include|{a.meta.get('include', 'absent')!r}", f'region {j}: exclude flag {exa} read back as {exb}', case)
                ok = False
                break
            ta = a.text if hasattr(a, 'text') else a.meta.get('text')
            tb = b.text if hasattr(b, 'text') else b.meta.get('text')
            if ta != tb or a.meta.get('tag') != b.meta.get('tag'):
                ctx.violation('C09|trace|text-or-tags', f'region {j}: text {ta!r}/tags {a.meta.get("tag")} read back as {tb!r}/{b.meta.get("tag")}', case)
                ok = False
                break
            unit = 10.0 ** (-p)
            ev = {'p': p, 'want': [], 'got': [], 'half': []}
            for (nm, va, mult), (_, vb, _) in zip(numbers(a), numbers(b)):
                if nm.endswith(tuple(f'lon{i}' for i in range(8))):
                    vb = va + ((vb - va + 180) % 360 - 180)
                # in thousandths of the precision unit
                ev['want'].append(0)
                ev['got'].append(int(round((vb - va) / unit * 1000)))
                # half a unit (inclusive), plus the resolution of a double at this magnitude (a few ulps)
                ev['half'].append(500 * mult + int(math.ceil(8 * 2.2e-16 * max(abs(va), 1.0) / unit * 1000)))
            events.append(dict(ev, tid=len(events) + 1, case=case, j=j))
        if not ok:
            continue
        # second cycle must be exact
        if t3 != t2 or any(not (x == y) for x, y in zip(r1, r2)):
            ctx.violation('C09|trace|fixedpoint', 'parse -> serialise -> parse is not a fixed point (text or regions differ in the second cycle)', dict(case, t2=t2, t3=t3))
    wd = tlc.workdir('c09trace')
    path = os.path.join(wd, 'events.json')
    with open(path, 'w') as f:
        json.dump([{k: v for k, v in e.items() if k not in ('case',)} for e in events], f)
    res = tlc.run('Trace_Ds9Write', cfg='Trace_Ds9.cfg', dump=True, env={'TRACE_FILE': path}, tag='c09trace')
    ctx.tlc(res, 'Trace_Ds9Write: every number within half a unit of the precision')
    seen = 0
    for st in res.states():
        seen += 1
        if st['verdict'] != 'ok':
            e = events[st['i'] - 1]
            ctx.violation(f"C09|trace|{st['verdict']}", f"round trip of region {e['j']} at precision {e['p']}: {st['verdict']}", e['case'])
    if seen != len(events):
        raise tlc.TlcError('Trace_Ds9Write verdict count mismatch')
    ctx.traces += seen
    ctx.note('trace_regions_validated', seen)
    tlc.cleanup(res.workdir)
    tlc.cleanup(wd)


def bundled_files(ctx):
    """parse -> serialise -> parse on every bundled .reg file: equal within the precision on the first cycle, exact afterwards."""
    from regions import Regions
    files = sorted(glob.glob('/repo/regions/io/ds9/tests/data/*.reg'))
    n = 0
    for fpath in files:
        try:
            with warnings.catch_warnings():
                warnings.simplefilter('ignore')
                r1 = Regions.read(fpath, format='ds9')
                if len(r1) == 0:
                    continue
                s1 = r1.serialize(format='ds9', precision=8)
                r2 = Regions.parse(s1, format='ds9')
                s2 = r2.serialize(format='ds9', precision=8)
                r3 = Regions.parse(s2, format='ds9')
                s3 = r3.serialize(format='ds9', precision=8)
        except Exception as ex:  # noqa
            ctx.violation(f'C09|bundled|raises|{type(ex).__name__}|{os.path.basename(fpath)}', f'{os.path.basename(fpath)}: {ex!r}', {'file': fpath})
            continue
        n += 1
        ctx.case(('bundled', os.path.basename(fpath)), True)
        if len(r2) != len(r1) or [type(x) for x in r1] != [type(x) for x in r2]:
            ctx.violation(f'C09|bundled|classes|{os.path.basename(fpath)}', 'parse -> serialise -> parse changes the number or classes of regions', {'file': fpath})
        elif any(dict(a.visual) != dict(b.visual) or {k: v for k, v in a.meta.items()} != {k: v for k, v in b.meta.items()} for a, b in zip(r1, r2)):
            j = next(i for i, (a, b) in enumerate(zip(r1, r2)) if dict(a.visual) != dict(b.visual) or dict(a.meta) != dict(b.meta))
            ctx.violation(f'C09|bundled|meta-changed|{os.path.basename(fpath)}', f'region {j}: meta/visual change on parse -> serialise -> parse: {dict(r1[j].meta)} {dict(r1[j].visual)} -> {dict(r2[j].meta)} {dict(r2[j].visual)}', {'file': fpath})
        elif s3 != s2 or len(r3) != len(r2) or any(not (a == b) for a, b in zip(r2, r3)):
            ctx.violation(f'C09|bundled|fixedpoint|{os.path.basename(fpath)}', 'not a fixed point from the second cycle on', {'file': fpath})
    ctx.traces += n
    ctx.note('bundled_files', n)


FOREIGN = [
    'image\npoint(10,20) # point=diamond 14 color=red',
    'image\npoint(10,20) # point=boxcircle',
    'fk5\npoint(150.25,-20.5) # point=cross 7 width=2',
    'image\ncircle(10,20,3) # dash=1 dashlist=8 3 color=blue',
    'image\nbox(10,20,4,2,30) # fill=1 width=3',
    'image\ntext(10,20) # text={hello} font="times 14 bold italic" textangle=30',
    'image\ntext(10,20) # text={hello} font="helvetica 10 normal roman"',
    'galactic\nellipse(150.25,-20.5,0.02,0.01,40) # tag={a} tag={b c} color=#00ff7f',
    'image\n-circle(10,20,3) # edit=0 move=0 select=1 highlite=0',
    'image\nline(1,2,3,4) # line=0 0 color=cyan',
]


def foreign_text(ctx):
    """Hand-written DS9 lines exercising the visual vocabulary: parse -> serialise -> parse must keep every meta and visual entry."""
    from regions import Regions
    for text in FOREIGN:
        ctx.case(('foreign', text), True)
        try:
            with warnings.catch_warnings():
                warnings.simplefilter('ignore')
                r1 = Regions.parse(text, format='ds9')
                s1 = r1.serialize(format='ds9', precision=6)
                r2 = Regions.parse(s1, format='ds9')
                s2 = r2.serialize(format='ds9', precision=6)
        except Exception as ex:  # noqa
            ctx.violation(f'C09|foreign|raises|{type(ex).__name__}', f'{text!r}: {ex!r}', {'text': text})
            continue
        a, b = r1[0], r2[0]
        if type(a) is not type(b) or dict(a.meta) != dict(b.meta) or dict(a.visual) != dict(b.visual) or s1 != s2:
            key = text.split('# ')[1].split('=')[0]
            ctx.violation(f'C09|foreign|fixedpoint|{key}', f'{text!r}: {dict(a.meta)} {dict(a.visual)} -> {s1!r} -> {dict(b.meta)} {dict(b.visual)}', {'text': text, 's1': s1, 's2': s2})
    ctx.traces += len(FOREIGN)


def run(ctx):
    quick = ctx.tier == 'quick'
    dev = tlc.run('MC_Ds9Write', cfg_text=CFG.format(maxlen=1, dev='OldCode'), tag='c09dev')
    ctx.tlc(dev, 'MC_Ds9Write with the pre-fix deviations (must violate RoundTrip)')
    if dev.violated != 'RoundTrip':
        raise tlc.TlcError(f'self-test: the IncludeVerbatim/HoistInclude deviations should violate RoundTrip in the model, got {dev.violated}')
    tlc.cleanup(dev.workdir)
    res = tlc.run('MC_Ds9Write', cfg_text=CFG.format(maxlen=2 if quick else 3, dev='NoDev'), dump=True, tag='c09', timeout=3000)
    ctx.tlc(res, 'MC_Ds9Write lists over a 14-region pool')
    if res.violated:
        ctx.violation(f'C09|model|{res.violated}', f'Ds9Write.tla: {res.violated} fails in the model', {'trace': res.trace[-1:]})
    else:
        n = 0
        for idx, st in enumerate(parse_dump(res.dump_path, only='pc = "done"')):
            n += 1
            ctx.case(json.dumps(st['lst'], sort_keys=True), len(st['back']['out']) > 0)
            bad = replay(ctx, st, idx)
            if not bad and n % 53 == 1:
                ctx.sample({'list': st['lst'], 'lines': st['lines']})
        ctx.traces += n
        ctx.note('replayed_states', n)
    tlc.cleanup(res.workdir)
    bundled_files(ctx)
    foreign_text(ctx)
    from . import ds9visual
    ds9visual.run(ctx)
    trace_validation(ctx)
    ctx.assumptions += ['half-unit tolerance is inclusive (Python formats 11.25 at one decimal as 11.2); ellipse axes are written as semi-axes, so a full unit',
                        'foreign text (bundled files) is required to be a fixed point from the second cycle on; the first re-parse can only agree within the precision']
