"""C14 — file writing never clobbers or half-writes, and files read back as written.

(A) TLC checks FileIO.tla: NoClobber, FailureAtomic, SuccessComplete, OnlyLastStepWrites over
    formats x destination states {absent, file, live symlink, dangling symlink} x overwrite x
    serialisation outcome; the variant with the steps swapped (open before serialise) is checked to
    VIOLATE FailureAtomic (self-test that the property is not vacuous).
(B) every terminal state of the model is executed in a scratch directory with real files, symlinks
    and failing elements injected at each list position, through Region.write and Regions.write;
    destination bytes and link targets must be one of the outcomes the model allows.  After every
    successful write the file is read back with the format given, inferred from the extension, and
    inferred from the content of a renamed copy and of gzip copies.
(C) random sequences of writes over a directory whose state evolves are recorded as events and
    validated by Trace_FileIO.tla.
(D) Registry.tla (see engines/registry.py): dispatch and format identification for every registration
    order of the identifiers, replayed into the real RegionsRegistry with throw-away classes, and the
    real identifiers / identify_format evaluated on real files for every extension x content signature.
"""
import gzip
import json
import operator
import os
import random
import shutil
import warnings

from .. import tlc
from ..tlaparse import parse_dump

EXT = {'ds9': ['.reg', '.ds9'], 'crtf': ['.crtf'], 'fits': ['.fits', '.fit', '.fts']}
OLD = b'old content that must survive\n'


def good_lists(k=0):
    import astropy.units as u
    from astropy.coordinates import SkyCoord

    import regions as R
    from regions import PixCoord
    # (sizes and angles that are not exact in single precision: the file holds what the serialiser produced, to the last bit)
    pix = [R.CirclePixelRegion(PixCoord(3, 4.7), 2.3 + k, meta={'label': 'c1'}),
           R.RectanglePixelRegion(PixCoord(10.1, 12), 4.1, 2.7, angle=30.1 * u.deg, visual={'color': 'red'}),
           R.PointPixelRegion(PixCoord(1, 1))]
    sky = [R.CircleSkyRegion(SkyCoord(10, 20, unit='deg'), (3 + k) * u.arcsec), R.EllipseSkyRegion(SkyCoord(11, 21, unit='deg'), 6 * u.arcsec, 3 * u.arcsec, angle=10 * u.deg)]
    return pix, sky


def failing_elements(fmt):
    """Candidate elements that may make serialisation fail; whether they do is observed, not assumed."""
    import astropy.units as u
    from astropy.coordinates import SkyCoord

    import regions as R
    from regions import PixCoord
    a, b = R.CirclePixelRegion(PixCoord(3, 4), 2.5), R.CirclePixelRegion(PixCoord(5, 4), 2.5)
    out = [('compound', R.CompoundPixelRegion(a, b, operator.or_))]
    out.append(('unnamed-frame', R.CircleSkyRegion(SkyCoord(10, 20, unit='deg', frame='supergalactic'), 3 * u.arcsec)))
    out.append(('line', R.LinePixelRegion(PixCoord(0, 0), PixCoord(3, 3))))
    # elements the serialiser skips with a warning: a failure when the caller has turned warnings into errors
    out.append(('warning-as-error:compound', R.CompoundPixelRegion(a, b, operator.and_)))
    out.append(('warning-as-error:sky', R.CircleSkyRegion(SkyCoord(10, 20, unit='deg'), 3 * u.arcsec)))
    out.append(('warning-as-error:text', R.TextPixelRegion(PixCoord(2, 2), 'label')))
    return out


BAD_OPTS = {'ds9': {'precision': 'x'}, 'crtf': {'radunit': 'parsec'}, 'fits': {'header': 12345}}


def given_opts(fmt, variant):
    """Valid non-default options of each writer (they must reach the file whichever entry point is used)."""
    if fmt == 'ds9':
        return {'precision': 5 + variant % 3}
    if fmt == 'crtf':
        return [{'fmt': '.8f'}, {'coordsys': 'galactic'}, {'radunit': 'arcsec', 'fmt': '.3f'}][variant % 3]
    from astropy.io import fits
    return {'header': fits.Header([('EXTNAME', 'REGION'), ('OBSERVER', f'verif{variant}')])}


def classify(path, old, new_check):
    if os.path.islink(path):
        return {'t': 'link'}
    if not os.path.exists(path):
        return {'t': 'absent'}
    with open(path, 'rb') as f:
        data = f.read()
    if data == old:
        return {'t': 'file', 'c': 'old'}
    if new_check(path, data):
        return {'t': 'file', 'c': 'new'}
    return {'t': 'file', 'c': 'truncated' if len(data) == 0 else 'partial'}


def same_regions(r1, r2):
    if len(r1) != len(r2):
        return False
    return all(type(a) is type(b) and a == b for a, b in zip(r1, r2))


class Scratch:
    def __init__(self):
        self.d = tlc.workdir('c14fs')

    def setup(self, dest, ext, old=None):
        old = OLD if old is None else old
        for f in os.listdir(self.d):
            p = os.path.join(self.d, f)
            (shutil.rmtree if os.path.isdir(p) and not os.path.islink(p) else os.remove)(p)
        a = os.path.join(self.d, 'dest' + ext)
        b = os.path.join(self.d, 'target' + ext)
        if dest == 'file':
            open(a, 'wb').write(old)
        elif dest == 'emptyfile':
            open(a, 'wb').close()
        elif dest in ('link', 'dangling'):
            if dest == 'link':
                open(b, 'wb').write(old)
            os.symlink(b, a)
        return a, b

    def close(self):
        tlc.cleanup(self.d)


_OW = [0]


def do_write(obj, path, fmt, ow, opts, strict=False, pathlike=False):
    try:
        with warnings.catch_warnings():
            warnings.simplefilter('error' if strict else 'ignore')       # strict: the caller turns warnings into errors
            if pathlike:
                import pathlib
                path = pathlib.Path(path)
            _OW[0] += 1
            fkw = {} if fmt is None else {'format': fmt}
            if ow is False and _OW[0] % 2:
                obj.write(path, **fkw, **opts)          # overwrite not given at all: the default is "do not overwrite"
            else:
                obj.write(path, overwrite=ow, **fkw, **opts)
        return 'ok'
    except OSError:
        return 'OSError'
    except Exception:  # noqa
        return 'Error'


def expected_new(obj, fmt, opts):
    """What a successful write must put on disk: the serialised text (or table, compared after reading)."""
    from regions import Regions
    with warnings.catch_warnings():
        warnings.simplefilter('ignore')
        ser = obj.serialize(format=fmt, **{k: v for k, v in opts.items() if k not in ('header',)})
        parsed = Regions.parse(ser, format=fmt)
    return ser, parsed


def run_case(ctx, sc, req, allowed, variant, rnd):
    """Execute one model request with real files; return the observed (result, fs)."""
    from regions import Regions
    fmt, ow, ser, dest = req['fmt'], req['ow'], req['ser'], req['dest']
    content, via, optsel = req['content'], req['via'], req['opts']
    pathlike = req['path'] == 'pathlike'
    strict = False
    ext = EXT[fmt][variant % len(EXT[fmt])]
    pix, sky = good_lists()
    items = {'ds9': list(pix) + (list(sky) if variant % 2 else []), 'crtf': list(sky), 'fits': list(pix)}[fmt]
    if content == 'nothing':
        # nothing the format can express: an empty list, or (FITS) sky regions only, which the serialiser skips with a warning
        items = list(sky) if (fmt == 'fits' and variant % 2) else []
    elif fmt != 'fits' and variant % 4 >= 2:
        # text outside ASCII is ordinary content: it must reach the file (or the file must stay as it was)
        import astropy.units as u  # noqa
        from astropy.coordinates import SkyCoord

        import regions as R
        items.append(R.TextSkyRegion(SkyCoord(12, 22, unit='deg'), '\u03b1 Cen \u2013 caf\u00e9'))
    opts = {}
    how = 'Region' if via == 'single' else 'Regions'
    inject = None
    single = None
    if ser == 'fail':
        if optsel == 'given':
            opts = dict(BAD_OPTS[fmt])
            inject = 'bad-option'
        else:
            cands = [c for c in failing_elements(fmt)]
            name, el = cands[variant % len(cands)]
            pos = (variant // len(cands)) % (len(items) + 1)
            items.insert(pos, el)
            single = el
            inject = f'{name}@{pos}'
            strict = name.startswith('warning-as-error')
    elif optsel == 'given':
        opts = given_opts(fmt, variant)
    if how == 'Region':
        single = single if single is not None else items[variant % len(items)]
    obj = single if how == 'Region' else Regions(items)
    # does serialisation really fail for this list?  (the model takes it as a parameter)
    try:
        with warnings.catch_warnings():
            warnings.simplefilter('error' if strict else 'ignore')
            if fmt == 'fits' and 'header' in opts and opts is not None and inject == 'bad-option':
                raise ValueError('bad header option')
            obj.serialize(format=fmt, **{k: v for k, v in opts.items() if k != 'header'})
        really_fails = False
    except Exception:  # noqa
        really_fails = True
    if (ser == 'fail') != really_fails:
        return None, inject            # this candidate does not fail (e.g. it is skipped with a warning): not a 'fail' request
    # the old content is shorter than any new text for even variants, much longer for odd ones (an overwrite must not leave a tail)
    old = b'' if dest == 'emptyfile' else (OLD if variant % 2 == 0 else OLD * 400)
    a, b = sc.setup(dest, ext, old)
    if not really_fails:
        text, parsed = expected_new(obj, fmt, opts)
    else:
        text, parsed = None, None
    if text is not None and fmt != 'fits' and text.encode() == old:
        # an empty list written over an empty file: old and new content cannot be told apart, nothing to observe
        sc.setup('absent', ext, old)
        return 'indistinguishable', inject

    def is_new(path, data):
        if parsed is None:
            return False
        if fmt != 'fits':
            return data == text.encode()
        try:
            with warnings.catch_warnings():
                warnings.simplefilter('ignore')
                from astropy.io import fits
                hdr = fits.getheader(path, 1)
                if 'header' in opts:
                    if hdr.get('OBSERVER') != opts['header']['OBSERVER']:
                        return False
                elif 'OBSERVER' in hdr:
                    return False          # a card given to an EARLIER call: the file is not what this call's options say
                return same_regions(Regions.read(path, format='fits'), parsed)
        except Exception:  # noqa
            return False
    # the format is left to be found from the (registered) extension for every third request; an existing file named through '~' (the home
    # directory set to the scratch directory) for every fifth refusal - however a destination is named, it is the same destination
    infer = variant % 3 == 2
    tilde = dest == 'file' and ow is False and ser == 'ok' and not pathlike and variant % 5 == 4     # (with a failing list the package does not get as far as looking at a '~' name)
    target = a
    home0 = os.environ.get('HOME')
    if tilde:
        os.environ['HOME'] = os.path.dirname(a)
        target = '~/' + os.path.basename(a)
    try:
        result = do_write(obj, target, None if infer else fmt, ow, opts, strict=strict, pathlike=pathlike)
    finally:
        if tilde:
            os.environ['HOME'] = home0 if home0 is not None else ''
    fs = {'a': classify(a, old, is_new), 'b': classify(b, old, is_new)}
    case = {'request': req, 'injected': inject, 'via': how, 'ext': ext, 'format_argument': 'inferred from the extension' if infer else 'given', 'tilde_path': tilde,
            'observed': {'result': result, 'fs': fs}, 'allowed': allowed}
    ctx.case((fmt, ow, ser, dest, content, optsel, inject, how, ext, pathlike), True)
    ok = any(result == r and fs == f for r, f in allowed)
    if not ok:
        changed = fs != init_fs(dest)
        kind = 'clobbered' if (result != 'ok' and changed) else ('half-written' if any(v.get('c') in ('truncated', 'partial') for v in fs.values()) else 'outcome')
        ctx.violation(f'C14|{kind}|{fmt}|{dest}|ow={ow}|ser={ser}', f'write({fmt}, overwrite={ow}) on a destination that is {dest}: result {result}, destination now {fs}', case)
        return (result, fs), inject
    if result == 'ok':
        read_back(ctx, sc, a, fmt, parsed, case)
    return (result, fs), inject


def init_fs(dest):
    return {'absent': {'a': {'t': 'absent'}, 'b': {'t': 'absent'}}, 'file': {'a': {'t': 'file', 'c': 'old'}, 'b': {'t': 'absent'}},
            'emptyfile': {'a': {'t': 'file', 'c': 'old'}, 'b': {'t': 'absent'}},
            'link': {'a': {'t': 'link'}, 'b': {'t': 'file', 'c': 'old'}}, 'dangling': {'a': {'t': 'link'}, 'b': {'t': 'absent'}}}[dest]


def read_back(ctx, sc, path, fmt, parsed, case):
    from regions import Regions
    routes = []
    base = os.path.join(sc.d, 'copy')
    renamed = base + '.dat'
    shutil.copyfile(path, renamed)
    gz_ext = base + EXT[fmt][0] + '.gz'
    gz_sig = base + '2.dat.gz'
    for g in (gz_ext, gz_sig):
        with open(path, 'rb') as fi, gzip.open(g, 'wb') as fo:
            fo.write(fi.read())
    routes = [('format given', path, fmt), ('by extension', path, None), ('by content of a renamed copy', renamed, None),
              ('gzip copy, by extension', gz_ext, None), ('gzip copy, by content', gz_sig, None), ('renamed copy, format given', renamed, fmt)]
    if os.path.getsize(path) == 0:
        # an empty DS9 file (an empty list) carries no content signature to infer a format from
        routes = [r for r in routes if 'by content' not in r[0]]
    for name, p, f in routes:
        ctx.case(('readback', fmt, name), True)
        try:
            with warnings.catch_warnings():
                warnings.simplefilter('ignore')
                got = Regions.read(p, format=f) if f else Regions.read(p)
            ok = same_regions(got, parsed)
            why = 'regions differ from parsing the serialised text/table'
        except Exception as ex:  # noqa
            ok, why = False, f'raised {type(ex).__name__}: {ex}'
        if not ok:
            ctx.violation(f'C14|readback|{fmt}|{name}', f'reading back ({name}): {why}', dict(case, route=name))


def model_view(fs):
    def v(x):
        if x['t'] == 'file':
            return {'t': 'file', 'c': x['c']}
        return {'t': x['t']}
    return {'a': v(fs['a']), 'b': v(fs['b'])}


def run(ctx):
    quick = ctx.tier == 'quick'
    rnd = random.Random(ctx.seed * 53 + 14)
    res = tlc.run('FileIO', cfg='FileIO.cfg', dump=True, tag='c14')
    ctx.tlc(res, 'FileIO: formats x destination states x overwrite x serialisation outcome')
    if res.violated:
        ctx.violation(f'C14|model|{res.violated}', f'FileIO.tla: {res.violated} fails in the model', {'trace': res.trace[-2:]})
        tlc.cleanup(res.workdir)
        return
    sw = tlc.run('FileIO', cfg='FileIO_swapped.cfg', tag='c14swap')
    ctx.tlc(sw, 'FileIO with open-before-serialise (must violate FailureAtomic)')
    if sw.violated != 'FailureAtomic':
        raise tlc.TlcError(f'self-test: the swapped-steps model should violate FailureAtomic, got {sw.violated}')
    tlc.cleanup(sw.workdir)
    allowed = {}
    for st in parse_dump(res.dump_path, only='pc = "done"'):
        r = st['req']
        key = (r['fmt'], r['ow'], r['ser'], r['dest'], r['content'], r['via'], r['opts'], r['path'])
        fs = model_view(st['fs'])
        fs = json.loads(json.dumps(fs).replace('"new"', '"new"'))
        allowed.setdefault(key, [])
        if (st['result'], fs) not in allowed[key]:
            allowed[key].append((st['result'], fs))
    tlc.cleanup(res.workdir)
    sc = Scratch()
    try:
        n = 0
        unexercised = set()
        nvar = 9 if quick else 40
        for key, outs in sorted(allowed.items()):
            req = dict(zip(('fmt', 'ow', 'ser', 'dest', 'content', 'via', 'opts', 'path'), key))
            hit = False
            for variant in range(nvar):
                obs, inject = run_case(ctx, sc, req, outs, variant, rnd)
                if obs is not None:
                    hit = True
                    n += 1
                    if n % 97 == 1:
                        ctx.sample({'request': req, 'injected': inject, 'observed': obs})
            if not hit:
                unexercised.add(key)
        ctx.traces += n
        ctx.note('executed_requests', n)
        ctx.note('requests_without_a_failing_candidate', sorted(map(str, unexercised)))
        if any(k[2] == 'ok' for k in unexercised):
            raise tlc.TlcError('a successful-serialisation request could not be exercised')
        trace_validation(ctx, sc, rnd)
        from . import registry
        registry.run(ctx, sc.d)
    finally:
        sc.close()
    ctx.assumptions += ['dangling symlink without overwrite: OSError with nothing changed, or a successful write, are both allowed (lexists vs exists)',
                        'overwrite=True on a live symlink may write through the link or replace it by a regular file',
                        'which lists fail to serialise is observed, not predicted; the model constrains what may happen to the destination in each case']
    ctx.level = 'model_checking'


def trace_validation(ctx, sc, rnd):
    """Random writes over a directory whose state evolves (no reset between calls)."""
    from regions import Regions
    events = []
    n = 60 if ctx.tier == 'quick' else 600
    for fmt in ('ds9', 'crtf', 'fits'):
        ext = EXT[fmt][0]
        a, b = sc.setup(rnd.choice(['absent', 'file', 'link', 'dangling']), ext)
        for k in range(n // 3):
            pix, sky = good_lists(k + 1)          # every call writes different content, so "new" and "old" are distinguishable
            if rnd.random() < 0.25:      # the environment changes the directory between calls
                a, b = sc.setup(rnd.choice(['absent', 'file', 'link', 'dangling']), ext)
            ow = rnd.random() < 0.5
            fail = rnd.random() < 0.4
            items = list(sky) if fmt == 'crtf' else list(pix)
            opts = {}
            if fail:
                if rnd.random() < 0.5:
                    opts = dict(BAD_OPTS[fmt])
                else:
                    items.insert(rnd.randint(0, len(items)), rnd.choice(failing_elements(fmt))[1])
            obj = Regions(items)
            try:
                with warnings.catch_warnings():
                    warnings.simplefilter('ignore')
                    if fmt == 'fits' and 'header' in opts:
                        raise ValueError
                    text = obj.serialize(format=fmt, **opts)
                    parsed = Regions.parse(text, format=fmt)
                ser = 'ok'
            except Exception:  # noqa
                ser, text, parsed = 'fail', None, None
            # "old" = whatever is there now
            cur = {}
            for p in (a, b):
                if os.path.exists(p) and not os.path.islink(p):
                    cur[p] = open(p, 'rb').read()

            def cls(path, _cur=cur, _text=text, _parsed=parsed, _fmt=fmt):
                def is_new(pp, data):
                    if _parsed is None:
                        return False
                    if _fmt != 'fits':
                        return data == _text.encode()
                    try:
                        with warnings.catch_warnings():
                            warnings.simplefilter('ignore')
                            return same_regions(Regions.read(pp, format='fits'), _parsed)
                    except Exception:  # noqa
                        return False
                return classify(path, _cur.get(path, b'\0no'), is_new)
            pre = {'a': cls(a), 'b': cls(b)}
            # a pre-existing file counts as "old" even if it happens to equal the new content
            for kx in pre:
                if pre[kx]['t'] == 'file':
                    pre[kx]['c'] = 'old'
            result = do_write(obj, a, fmt, ow, opts, pathlike=bool(rnd.random() < 0.3))
            post = {'a': cls(a), 'b': cls(b)}
            events.append({'fmt': fmt, 'ow': ow, 'ser': ser, 'pre': pre, 'post': post, 'result': result})
    wd = tlc.workdir('c14trace')
    path = os.path.join(wd, 'events.json')
    with open(path, 'w') as f:
        json.dump(events, f)
    res = tlc.run('Trace_FileIO', cfg='Trace_FileIO.cfg', dump=True, env={'TRACE_FILE': path}, tag='c14trace')
    ctx.tlc(res, 'Trace_FileIO validation of recorded writes')
    seen = 0
    for st in res.states():
        seen += 1
        e = events[st['i'] - 1]
        ctx.case(('trace', json.dumps(e, sort_keys=True)), True)
        if st['verdict'] != 'ok':
            ctx.violation(f"C14|trace|{st['verdict']}|{e['fmt']}", f"recorded write rejected by Trace_FileIO: {st['verdict']}", e)
    if seen != len(events):
        raise tlc.TlcError('Trace_FileIO verdict count mismatch')
    ctx.traces += seen
    ctx.note('trace_events_validated', seen)
    tlc.cleanup(res.workdir)
    tlc.cleanup(wd)
