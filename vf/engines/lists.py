"""Regions lists: Lists.tla model-checked, every state replayed into the real Regions class."""
from .. import tlc
from ..tlaparse import parse_dump


def tokens():
    from regions import CirclePixelRegion, PixCoord, PointPixelRegion
    return {'r1': CirclePixelRegion(PixCoord(0, 0), 1), 'r2': PointPixelRegion(PixCoord(1, 1)),
            'r3': CirclePixelRegion(PixCoord(2, 2), 3), 'str': 'abc', 'none': None, 'int': 7}


def proj(lst, tok):
    if lst is None:
        return ['-']
    rev = {id(v): k for k, v in tok.items()}
    return [rev.get(id(x), f'?{type(x).__name__}') for x in lst.regions]


def build(seq, tok):
    from regions import Regions
    if seq == ['-']:
        return None
    r = Regions([])
    for t in seq:
        r.regions.append(tok[t])       # bypass validation: the pre-state is given
    return r


ALIAS = []


def apply(src, der, act, tok):
    from regions import Regions
    a = act['a']
    try:
        if a == 'new':
            items = [tok[t] for t in act['items']]
            arg = {'list': lambda: items, 'tuple': lambda: tuple(items), 'generator': lambda: (x for x in items)}[act.get('form', 'list')]()
            return Regions(arg), None, 'ok'
        if a == 'append':
            src.append(tok[act['item']])
        elif a == 'extend':
            items = [tok[t] for t in act['items']]
            if act['how'] == 'regions':
                other = Regions([])
                other.regions.extend(items)
                src.extend(other)
                # the Regions object handed over stays the caller's: a later edit of the receiver may not show in it
                if items:
                    last = src.pop()
                    if [id(x) for x in other.regions] != [id(x) for x in items]:
                        ALIAS.append(f'after extend({act["items"]}) on {len(src) + 1 - len(items)} element(s), pop() on the receiver changed the Regions object that was passed in')
                    src.append(last)
            else:
                src.extend(items)
        elif a == 'insert':
            src.insert(act['index'], tok[act['item']])
        elif a == 'pop':
            src.pop(act['index'] - 1 if act['index'] >= 1 else -(len(src) + 1) - 1)
        elif a == 'reverse':
            src.reverse()
        elif a == 'slice':
            der = src[act['lo']:act['hi']]
        elif a == 'copy':
            der = src.copy()
        elif a == 'der_append':
            der.append(tok[act['item']])
        elif a == 'der_pop':
            der.pop()
        elif a == 'der_reverse':
            der.reverse()
        else:
            raise AssertionError(a)
    except Exception as ex:  # noqa
        return src, der, type(ex).__name__
    return src, der, 'ok'


def run(ctx, pid):
    tok = tokens()
    depth = 3 if ctx.tier == 'quick' else 4
    cfg = open(tlc.SPECS + '/Lists.cfg').read().replace('MaxDepth = 3', f'MaxDepth = {depth}')
    res = tlc.run('Lists', cfg_text=cfg, dump=True, tag=pid.lower() + 'lists')
    ctx.tlc(res, f'Lists depth {depth}')
    if res.violated:
        ctx.violation(f'{pid}|model|Lists.{res.violated}', f'Lists.tla: invariant {res.violated} fails', {'trace': res.trace[-2:]})
        tlc.cleanup(res.workdir)
        return
    n = 0
    for st in parse_dump(res.dump_path):
        if st['depth'] == 0:
            continue
        n += 1
        src, der = build(st['pre']['src'], tok), build(st['pre']['der'], tok)
        if src is None:
            continue
        # a derived list is obtained from the source by a real slice / copy whenever the pre-state allows it, so that
        # storage shared between the two shows in the step that follows (edits of one may never appear in the other)
        ps, pd = st['pre']['src'], st['pre']['der']
        if pd != ['-']:
            cands = [(lo, lo + len(pd)) for lo in range(len(ps) - len(pd) + 1) if ps[lo:lo + len(pd)] == pd]
            if cands:
                lo, hi = cands[n % len(cands)]
                how = n % 4
                if (lo, hi) == (0, len(ps)):
                    der = [lambda: src[:], lambda: src[0:hi], lambda: src.copy(), lambda: src[0:hi + 5]][how]()
                else:
                    der = src[lo:hi] if how % 2 or not (0 < lo < len(ps)) else src[lo - len(ps):hi]
                if proj(der, tok) != pd:
                    ctx.violation(f'{pid}|list|state|slice|', f'slicing {ps} [{lo}:{hi}] gives {proj(der, tok)}', {'pre': st['pre']})
                    continue
        del ALIAS[:]
        src2, der2, out = apply(src, der, st['act'], tok)
        if ALIAS:
            ctx.violation(f'{pid}|list|alias|extend', ALIAS[0], {'pre': st['pre'], 'act': st['act']})
            continue
        got = (proj(src2, tok), proj(der2, tok))
        want = (st['src'], st['der'])
        a = st['act']
        ctx.case(('list', str(a), str(st['pre'])), True)
        if out != st['out'] or got != want:
            kind = 'accepted' if out == 'ok' and st['out'] != 'ok' else 'state'
            ctx.violation(f"{pid}|list|{kind}|{a['a']}|{a.get('item', '')}",
                          f"Regions.{a['a']}({ {k: v for k, v in a.items() if k != 'a'} }) on {st['pre']['src']}: model {st['out']} -> {want}, package {out} -> {got}",
                          {'pre': st['pre'], 'act': a, 'model': {'out': st['out'], 'src': st['src'], 'der': st['der']},
                           'real': {'out': out, 'src': got[0], 'der': got[1]}})
    ctx.traces += n
    ctx.note('replayed_list_states', n)
    tlc.cleanup(res.workdir)
