"""C11 — CRTF text round-trips and is read according to the CASA conventions.

(A) TLC checks Crtf.tla: reader rules (inline keys override the global defaults, coord= selects the
    frame, '-' excludes, 'ann' marks annotations, ellipse axes are [major, minor] semi-axes,
    box/centerbox/rotbox become rectangles) over a lexical config (shape x frame x coordinate
    notation x length unit x sign x ann) and all sequences of <= 3 global/region/comment lines; and
    the writer composed with the reader: Read(Write(L, opts)) = L and the fixed point, over lists
    from an 11-region pool x radunit.
(B) every reader state is rendered to CRTF text and parsed by the real reader (class, frame, numbers
    to 1e-9, include, type, label/text, meta with values compared as text); every writer state is
    replayed: the real serialize(coordsys, fmt, radunit) text is tokenised independently and compared
    with the model's lines, the real parse compared with the model.
(C) random lists of mixed sky regions: serialize -> parse -> serialize -> parse in the region's
    own frame and in another coordsys (positions compared on the sky), fmt .3f .. .9f, radunit
    deg/arcmin/arcsec; numbers validated by Trace_Ds9Write.tla's half-unit clause.
(D) per-line trace validation: the guarded hook `crtf.read.line` logs the parser's persistent state
    (global_meta, number of shapes) after every physical line of the files of (B);
    Trace_CrtfSteps.tla steps Crtf!StepLine along the file and requires the projected model state
    to equal the logged one after every line (self-test: corrupted logs must be rejected).
"""
import json
import math
import os
import random
import warnings

import numpy as np

from .. import crtftext, ds9text, tlc
from ..tlaparse import parse_dump

CFG = """SPECIFICATION Spec
CONSTANTS Mode = "{mode}"
 MaxLen = {maxlen}
INVARIANT ReaderRules
INVARIANT RoundTrip
INVARIANT FixedPoint
CHECK_DEADLOCK FALSE
"""
CLS = ds9text.CLS
SIZES = ds9text.SIZES


STEPLOG = []          # per-line parser states recorded by the hook during the last parse_real call
STEP_EVENTS = []      # (abstract physical lines, logged states, text) collected for Trace_CrtfSteps


_EXC = [0]


def hooks():
    try:
        from regions._utils import verif
    except ImportError:
        if os.environ.get('VERIF_ALLOW_NO_HOOKS') == '1':
            return None
        raise tlc.TlcError('regions/_utils/verif.py (guarded tracing hooks) is missing from the tree under test')
    if not verif.enabled():
        raise tlc.TlcError('tracing hooks are not enabled (ASTROPY_REGIONS_VERIF=1 expected)')
    return verif


def parse_real(text):
    from regions import Regions
    hk = hooks()
    if hk:
        hk.events.clear()
    del STEPLOG[:]
    with warnings.catch_warnings():
        warnings.simplefilter('ignore')
        try:
            return list(Regions.parse(text, format='crtf'))
        finally:
            if hk:
                STEPLOG.extend(f for nm, f in hk.events if nm == 'crtf.read.line')
                hk.events.clear()


def record_steps(lines, text):
    """physical lines = the #CRTF header (a comment), the lines, the empty tail."""
    if hooks() is None:
        return
    log = [{'gmeta': dict({str(k): str(v) for k, v in f['global_meta'].items()}, zz='zz'), 'n': f['n_shapes']} for f in STEPLOG]
    STEP_EVENTS.append(([{'k': 'comment'}] + list(lines) + [{'k': 'comment'}], log, text))


def step_validation(ctx, cap):
    """(D) Trace_CrtfSteps over the per-line logs of the reader replays."""
    import copy
    evs = STEP_EVENTS
    if not evs:
        if hooks() is None:
            ctx.note('step_validation', 'skipped: tree without hooks (VERIF_ALLOW_NO_HOOKS=1)')
            return
        raise tlc.TlcError('no per-line parser states were recorded')
    evs = evs[::max(1, len(evs) // cap)]
    wd = tlc.workdir('c11steps')
    path = os.path.join(wd, 'events.json')
    with open(path, 'w') as f:
        json.dump([{'file': e[0], 'log': e[1]} for e in evs], f)
    res = tlc.run('Trace_CrtfSteps', cfg='Trace_CrtfSteps.cfg', dump=True, env={'TRACE_FILE': path}, tag='c11steps', timeout=2400)
    ctx.tlc(res, 'Trace_CrtfSteps: per-line validation of the parser state logged by the hook')
    done = set()
    for st in res.states():
        e = evs[st['t'] - 1]
        if st['verdict'] != 'ok':
            done.add(st['t'])
            k = st['i'] - 1 if st['i'] > 1 else 0
            line = e[0][k - 1] if k else None
            sig = (line or {}).get('kind', (line or {}).get('k', '-'))
            ctx.violation(f"C11|steps|{st['verdict']}|{sig}", f"after physical line {k} ({sig}) the parser's {st['verdict']} is not the state Crtf!StepLine defines: "
                          f"model gmeta {st['s']['gmeta'] if k else '-'}, {len(st['s']['out']) if k else '-'} shapes; logged {e[1][k - 1] if k and k <= len(e[1]) else len(e[1])}",
                          {'text': e[2], 'line_index': k, 'logged': e[1]})
        elif st['i'] > len(e[0]):
            done.add(st['t'])
    if len(done) != len(evs):
        raise tlc.TlcError(f'Trace_CrtfSteps: {len(evs) - len(done)} traces did not reach a verdict')
    tlc.cleanup(res.workdir)
    # binding self-test: corrupted logs must be rejected
    bad = []
    for j, e in enumerate(evs[:30]):
        log = copy.deepcopy(e[1])
        k = len(log) // 2
        if j % 3 == 0:
            log[k]['n'] += 1
        elif j % 3 == 1:
            log[k]['gmeta'] = dict(log[k]['gmeta'], color='corrupted')
        else:
            del log[k]
        bad.append({'file': e[0], 'log': log})
    with open(path, 'w') as f:
        json.dump(bad, f)
    neg = tlc.run('Trace_CrtfSteps', cfg='Trace_CrtfSteps.cfg', dump=True, env={'TRACE_FILE': path}, tag='c11stepsneg', timeout=600)
    rejected = {st['t'] for st in neg.states() if st['verdict'] != 'ok'}
    if len(rejected) != len(bad):
        raise tlc.TlcError(f'binding self-test: {len(bad) - len(rejected)} corrupted traces were accepted by Trace_CrtfSteps')
    ctx.note('step_selftest_corrupted_traces_rejected', len(rejected))
    tlc.cleanup(neg.workdir)
    ctx.traces += len(evs)
    ctx.note('step_traces_validated', len(evs))
    tlc.cleanup(wd)
    del STEP_EVENTS[:]


def compare(m, r, rel=1e-9):
    """model region (Crtf.tla) vs real region."""
    from regions import PixelRegion
    ispix = isinstance(r, PixelRegion)
    want = CLS[m['cls']] + ('PixelRegion' if m['frame'] == 'image' else 'SkyRegion')
    if type(r).__name__ != want:
        return 'class', f'{type(r).__name__}, expected {want}'
    kind = m['cls']
    if kind == 'polygon':
        co = r.vertices
        xs, ys = (np.atleast_1d(co.x), np.atleast_1d(co.y)) if ispix else (co.spherical.lon.deg, co.spherical.lat.deg)
        got = [v for pair in zip(xs, ys) for v in pair]
    elif kind == 'line':
        got = []
        for co in (r.start, r.end):
            got += [co.x, co.y] if ispix else [co.spherical.lon.deg, co.spherical.lat.deg]
    else:
        co = r.center
        got = [co.x, co.y] if ispix else [co.spherical.lon.deg, co.spherical.lat.deg]
    if not ispix:
        fr = (r.vertices if kind == 'polygon' else r.start if kind == 'line' else r.center).frame.name
        if fr != m['frame']:
            return 'frame', f'{fr}, expected {m["frame"]} (coord= selects the frame)'
    if len(got) != len(m['pos']):
        return 'positions', f'{len(got)} coordinates, expected {len(m["pos"])}'
    for i, (g, mv) in enumerate(zip(got, m['pos'])):
        k, w = ds9text.value(mv)
        d = abs(((float(g) - w + 180.0) % 360.0) - 180.0) if (k == 'deg' and i % 2 == 0) else abs(float(g) - w)
        if d > rel * max(1.0, abs(w)):
            return f'position[{i}]', f'{float(g)!r}, the format defines {w!r} ({k})'
    for name, mv in zip(SIZES.get(kind, []), m['sizes']):
        k, w = ds9text.value(mv)
        g = getattr(r, name)
        g = float(g) if ispix else float(g.to_value('deg'))
        if abs(g - w) > rel * abs(w):
            return f'size:{name}', f'{g!r}, the format defines {w!r} ({k})'
    if m['ang']['u'] != 'none':
        _, w = ds9text.value(m['ang'])
        g = float(r.angle.to_value('deg'))
        if abs(g - w) > 1e-9 * max(1.0, abs(w)):
            return 'angle', f'{g!r} deg, the format defines {w!r} deg'
    if bool(r.meta.get('include', True)) != bool(m['inc']):
        return 'include', f"meta include={r.meta.get('include')!r}, expected {m['inc']} (a leading '-' excludes)"
    if r.meta.get('type', 'reg') != m['typ']:
        return 'type', f"type {r.meta.get('type')!r}, expected {m['typ']!r} ('ann' marks annotations)"
    p = {k: v for k, v in m['props'].items() if k != 'zz'}
    if kind == 'text' and 'text' in p and r.text != p['text']:
        return 'text', f'{r.text!r}, expected {p["text"]!r}'
    for k, v in p.items():
        if k in ('text',):
            continue
        g = r.meta.get(k, r.visual.get(k))
        if str(g) != str(v):
            return f'meta:{k}', f'{g!r}, expected {v!r} (inline keys override the global defaults)'
    return None


def build(u_, rad=False):
    import astropy.units as u
    from astropy.coordinates import SkyCoord

    import regions as R
    from regions import PixCoord
    cls, frame = u_['cls'], u_['frame']
    pix = frame == 'image'
    pos = [ds9text.value(v)[1] for v in u_['pos']]

    def coord(i):
        return PixCoord(pos[i], pos[i + 1]) if pix else SkyCoord(pos[i], pos[i + 1], unit='deg', frame=frame)
    sz = [ds9text.value(v)[1] if pix else ds9text.value(v)[1] * u.deg for v in u_['sizes']]
    if pix and _EXC[0] % 3 == 1:
        # pixel sizes as numpy scalars that are not Python numbers (a value taken from an integer or single-precision array)
        sz = [np.int64(v) if v == int(v) else (np.float32(v) if float(np.float32(v)) == v else v) for v in sz]
    # an excluded region carries a false include flag in any of the forms the package itself stores (False; the integer 0 of the DS9 and
    # FITS readers; numpy's False)
    _EXC[0] += 1
    meta = {'include': [False, 0, np.False_, np.int64(0)][_EXC[0] % 4]} if not u_['inc'] else {}
    visual = {}
    if u_['typ'] == 'ann':
        meta['type'] = 'ann'
    for k, v in u_['props'].items():
        if k == 'zz' or k == 'text':
            continue
        if k in ('linewidth', 'symsize', 'symthick'):
            visual[k] = int(v)            # a number, as a caller gives it (0 is a value)
        elif k == 'usetex':
            visual[k] = (v == 'True')
        elif k in ('color', 'symbol'):
            visual[k] = v
        else:
            meta[k] = v
    kw = {'meta': meta, 'visual': visual}
    K = getattr(R, CLS[cls] + ('PixelRegion' if pix else 'SkyRegion'))
    ang = ds9text.value(u_['ang'])[1] * u.deg if u_['ang']['u'] != 'none' else None
    if ang is not None and rad:
        ang = ang.to(u.rad)          # the angle is handed over in another unit
    if cls == 'circle':
        return K(coord(0), sz[0], **kw)
    if cls in ('ellipse', 'rectangle'):
        return K(coord(0), sz[0], sz[1], angle=ang, **kw)
    if cls == 'cannulus':
        return K(coord(0), sz[0], sz[1], **kw)
    if cls == 'polygon':
        xs, ys = pos[0::2], pos[1::2]
        return K(PixCoord(np.array(xs), np.array(ys)) if pix else SkyCoord(xs, ys, unit='deg', frame=frame), **kw)
    if cls == 'line':
        return K(coord(0), coord(2), **kw)
    if cls == 'point':
        return K(coord(0), **kw)
    if cls == 'text':
        return K(coord(0), u_['props'].get('text', ''), **kw)
    raise ValueError(cls)


def same_lines(model, real):
    if len(model) != len(real):
        return 'line-count', f'{len(real)} lines, model {len(model)}'
    for m, r in zip(model, real):
        if m['k'] != r['k']:
            return 'line-kind', f"{r['k']} vs {m['k']}"
        if m['k'] == 'global':
            want = {k: v for k, v in m['props'].items() if k != 'zz'}
            if {k: v for k, v in r['props'].items()} != want:
                return 'global', f"{r['props']} vs model {want}"
            continue
        if (m['sign'], m['ann'], m['kind']) != (r['sign'], r['ann'], r['kind']) and not (m['kind'] == 'symbol' and r['kind'] in ('symbol', 'point')):
            return 'head', f"{r['sign']}{'ann ' if r['ann'] else ''}{r['kind']} vs model {m['sign']}{'ann ' if m['ann'] else ''}{m['kind']}"
        want = [(t['v'] / 1000.0, {'asecq': '"', 'aminq': "'", 'plain': ''}.get(t['n'], t['n'])) for t in m['toks']]
        got = [(float(a), b) for a, b in r['nums']]
        if len(want) != len(got) or any(abs(a[0] - b[0]) > 1e-6 * max(1, abs(a[0])) or a[1] != b[1] for a, b in zip(want, got)):
            return 'numbers', f'{got} vs model {want}'
        if m['kind'] == 'text' and r['text'] != m['props'].get('text', ''):
            return 'text', f"text {r['text']!r}, model {m['props'].get('text')!r}"
        wantp = {k: str(v) for k, v in m['props'].items() if k not in ('zz', 'text', 'symbol')}
        if {k: str(v) for k, v in r['props'].items()} != wantp:
            return 'props', f"{r['props']} vs model {wantp}"
    return None


def run(ctx):
    quick = ctx.tier == 'quick'
    # ---- reader
    res = tlc.run('MC_Crtf', cfg_text=CFG.format(mode='reader', maxlen=3 if quick else 4), dump=True, tag='c11r', timeout=3000)
    ctx.tlc(res, 'MC_Crtf reader: lexical lines and line sequences')
    if res.violated:
        ctx.violation(f'C11|model|{res.violated}', f'Crtf.tla: {res.violated} fails in the model', {'trace': res.trace[-1:]})
    else:
        n = 0
        for idx, st in enumerate(parse_dump(res.dump_path, only='pc = "done"')):
            lines = list(st['file'])
            text = crtftext.render(lines, spaced=bool(idx % 2))
            n += 1
            ctx.case(json.dumps(lines, sort_keys=True), len(st['out']) > 0)
            case = {'text': text, 'abstract_file': lines}
            try:
                regs = parse_real(text)
            except Exception as ex:  # noqa
                kinds = sorted({l.get('kind', l['k']) for l in lines})
                nots = sorted({t['n'] for l in lines if l['k'] == 'region' for t in l['toks']})
                ctx.violation(f"C11|read|raises|{type(ex).__name__}|{'+'.join(kinds)}|{'+'.join(nots)}", f'parsing raised {ex!r}', case)
                continue
            record_steps(lines, text)
            if len(regs) != len(st['out']):
                ctx.violation('C11|read|count', f'{len(regs)} regions parsed, the format defines {len(st["out"])}', case)
                continue
            for j, (m, r) in enumerate(zip(st['out'], regs)):
                bad = compare(m, r)
                if bad:
                    nots = '+'.join(sorted({t['n'] for l in lines if l['k'] == 'region' for t in l['toks']}))
                    ctx.violation(f"C11|read|{bad[0]}|{m['cls']}|{nots}", f'region {j}: {bad[1]}', dict(case, model=m))
                    break
            else:
                if n % 397 == 1:
                    ctx.sample({'text': text, 'regions': st['out']})
        ctx.traces += n
        ctx.note('reader_states_replayed', n)
    tlc.cleanup(res.workdir)
    # ---- writer
    res = tlc.run('MC_Crtf', cfg_text=CFG.format(mode='writer', maxlen=2 if quick else 3), dump=True, tag='c11w', timeout=3000)
    ctx.tlc(res, 'MC_Crtf writer composed with the reader')
    if res.violated:
        ctx.violation(f'C11|model|{res.violated}', f'Crtf.tla: {res.violated} fails in the model', {'trace': res.trace[-1:]})
    else:
        from regions import Regions
        n = 0
        for idx, st in enumerate(parse_dump(res.dump_path, only='pc = "done"')):
            lst, opts = list(st['lst']), st['opts']
            n += 1
            sig = ','.join(f"{u_['cls']}@{u_['frame']}" for u_ in lst)
            case = {'list': lst, 'opts': opts}
            ctx.case((json.dumps(lst, sort_keys=True), json.dumps(opts)), True)
            try:
                regs = [build(u_, rad=bool(idx % 2)) for u_ in lst]
                with warnings.catch_warnings():
                    warnings.simplefilter('ignore')
                    text = Regions(regs).serialize(format='crtf', coordsys=opts['coordsys'], fmt='.6f', radunit=opts['radunit'])
                    text2 = Regions(regs).serialize(format='crtf', coordsys=opts['coordsys'], fmt='.6f', radunit=opts['radunit'])
            except Exception as ex:  # noqa
                ctx.violation(f"C11|serialize|raises|{type(ex).__name__}|{lst[0]['cls']}|{opts['radunit']}", f'serialize raised {ex!r} for [{sig}] {opts}', case)
                continue
            case['text'] = text
            if text != text2:
                ctx.violation('C11|determinism', 'serialising twice gives different text (or the first call changed its input)', case)
                continue
            why = same_lines(list(st['file']), crtftext.tokenize(text))
            if why:
                ctx.violation(f"C11|text|{why[0]}|{opts['radunit']}", f'serialised text differs from the model for [{sig}]: {why[1]}', dict(case, model_lines=st['file']))
                continue
            try:
                back = parse_real(text)
            except Exception as ex:  # noqa
                ctx.violation(f"C11|roundtrip|raises|{type(ex).__name__}|{opts['radunit']}", f'parsing the serialised text raised {ex!r}', case)
                continue
            if len(back) != len(st['out']):
                ctx.violation('C11|roundtrip|count', f'{len(back)} regions read back, expected {len(st["out"])}', case)
                continue
            for j, (m, r) in enumerate(zip(st['out'], back)):
                bad = compare(m, r, rel=2e-6)
                if bad:
                    ctx.violation(f"C11|roundtrip|{bad[0]}|{m['cls']}|{opts['radunit']}", f'region {j} of [{sig}] reads back wrong: {bad[1]}', case)
                    break
        ctx.traces += n
        ctx.note('writer_states_replayed', n)
    tlc.cleanup(res.workdir)
    step_validation(ctx, 3000 if quick else 30000)
    trace_validation(ctx)
    ctx.assumptions += ['in the image coordinate system the reader takes bare numeric values as pixels whatever their unit suffix, and the writer emits pixel positions with a '
                        '"deg" suffix: modelled as the code does (round trip holds), noted as a deviation from CASA in DESIGN.md',
                        'transforms between different celestial frames are astropy\'s: positions are compared on the sky; metadata values are compared as text']


def trace_validation(ctx):
    """Random lists of sky regions through serialize -> parse -> serialize -> parse; numbers within half a unit of fmt."""
    import astropy.units as u
    from astropy.coordinates import SkyCoord

    import regions as R
    from regions import Regions
    rnd = random.Random(ctx.seed * 89 + 11)
    n = 150 if ctx.tier == 'quick' else 3000
    events = []
    from astropy.coordinates import FK4, FK5
    frames = ['fk5', 'fk4', 'icrs', 'galactic', 'supergalactic', 'geocentrictrueecliptic']
    # the region's frame may carry non-default attributes (another equinox): the file names the default frame, so the
    # coordinates written must be those of the default frame (positions are compared on the sky)
    variants = {'fk5': [FK5(equinox='J1975'), FK5(equinox='J2010.5')], 'fk4': [FK4(equinox='B1975')]}
    for t in range(n):
        fname = rnd.choice(frames)
        frame = rnd.choice(variants[fname]) if fname in variants and rnd.random() < 0.4 else fname
        coordsys = fname if rnd.random() < 0.7 else rnd.choice(frames)
        digits = rnd.randint(3, 9)
        radunit = rnd.choice(['deg', 'arcmin', 'arcsec'])
        regs = []
        for _ in range(rnd.randint(1, 6)):
            c = SkyCoord(rnd.uniform(1, 359), rnd.uniform(-80, 80), unit='deg', frame=frame)
            s = lambda: rnd.uniform(0.02, 2.0) * u.deg  # noqa
            meta = {}
            if rnd.random() < 0.4:
                meta['include'] = rnd.choice([True, False, 0, 1])
            if rnd.random() < 0.4:
                meta['label'] = rnd.choice(['lab', 'two words', 'source #3', '#1', 'global fit', 'a global maximum'])
            if rnd.random() < 0.3:
                meta['type'] = rnd.choice(['ann', 'reg'])
            kind = rnd.choice(['circle', 'ellipse', 'rectangle', 'cannulus', 'polygon', 'line', 'point', 'text'])
            kw = {'meta': meta}
            # list-valued CRTF metadata: a frequency range, correlations, a label offset
            if rnd.random() < 0.15:
                meta['range'] = [1.0 * u.GHz, 2.5 * u.GHz]
            if rnd.random() < 0.15:
                meta['corr'] = ['I', 'Q']
            if rnd.random() < 0.15:
                kw['visual'] = {'labeloff': [1, 2]}
            if kind == 'circle':
                regs.append(R.CircleSkyRegion(c, s(), **kw))
            elif kind == 'ellipse':
                regs.append(R.EllipseSkyRegion(c, s(), s(), angle=rnd.uniform(-180, 360) * u.deg, **kw))
            elif kind == 'rectangle':
                regs.append(R.RectangleSkyRegion(c, s(), s(), angle=rnd.uniform(-180, 360) * u.deg, **kw))
            elif kind == 'cannulus':
                r1 = s()
                regs.append(R.CircleAnnulusSkyRegion(c, r1, r1 * 2, **kw))
            elif kind == 'polygon':
                lon0, lat0 = rnd.uniform(5, 350), rnd.uniform(-70, 70)
                regs.append(R.PolygonSkyRegion(SkyCoord([lon0, lon0 + rnd.uniform(0.5, 1.5), lon0 + rnd.uniform(0.1, 0.9)],
                                                        [lat0, lat0 + rnd.uniform(0.2, 0.6), lat0 + rnd.uniform(1.0, 1.7)], unit='deg', frame=frame), **kw))
            elif kind == 'line':
                regs.append(R.LineSkyRegion(c, SkyCoord(c.spherical.lon.deg + 0.5, c.spherical.lat.deg, unit='deg', frame=frame), **kw))
            elif kind == 'point':
                regs.append(R.PointSkyRegion(c, **kw))
            else:
                regs.append(R.TextSkyRegion(c, rnd.choice(['Hello', 'some text']), **kw))
        case = {'coordsys': coordsys, 'fmt': f'.{digits}f', 'radunit': radunit, 'regions': [repr(r) for r in regs]}
        try:
            with warnings.catch_warnings():
                warnings.simplefilter('ignore')
                t1 = Regions(regs).serialize(format='crtf', coordsys=coordsys, fmt=f'.{digits}f', radunit=radunit)
                r1 = parse_real(t1)
                t2 = Regions(r1).serialize(format='crtf', coordsys=coordsys, fmt=f'.{digits}f', radunit=radunit)
                r2 = parse_real(t2)
        except Exception as ex:  # noqa
            ctx.violation(f'C11|trace|raises|{type(ex).__name__}|{radunit}', f'round trip raised {ex!r}', dict(case, text=locals().get('t1')))
            continue
        case['text'] = t1
        if len(r1) != len(regs) or [type(a) for a in regs] != [type(b) for b in r1]:
            ctx.violation('C11|trace|classes', 'classes or number of regions change on the round trip', case)
            continue
        bad = None
        for j, (a, b) in enumerate(zip(regs, r1)):
            if bool(a.meta.get('include', True)) != bool(b.meta.get('include', True)):
                bad = ('include', f'region {j}: include {a.meta.get("include", True)} read back as {b.meta.get("include")}')
            elif a.meta.get('type', 'reg') != b.meta.get('type', 'reg'):
                bad = ('type', f'region {j}: annotation type {a.meta.get("type", "reg")} read back as {b.meta.get("type")}')
            elif a.meta.get('label') != b.meta.get('label') and not hasattr(a, 'text'):
                bad = ('label', f'region {j}: label {a.meta.get("label")!r} read back as {b.meta.get("label")!r}')
            elif hasattr(a, 'text') and a.text != b.text:
                bad = ('text', f'region {j}: text {a.text!r} read back as {b.text!r}')
            if bad:
                break
            # geometry within half a unit of fmt, in the unit it was written in
            unit_pos = 10.0 ** (-digits)                      # degrees
            conv = {'deg': 1.0, 'arcmin': 60.0, 'arcsec': 3600.0}[radunit]
            ca = getattr(a, 'center', getattr(a, 'start', None))
            cb = getattr(b, 'center', getattr(b, 'start', None))
            ev = {'p': digits, 'got': [], 'half': []}
            pairs = [(ca, cb)] if ca is not None else []
            if hasattr(a, 'end'):
                pairs.append((a.end, b.end))
            if hasattr(a, 'vertices'):
                if len(a.vertices) != len(b.vertices):
                    bad = ('vertices', f'region {j}: {len(a.vertices)} vertices read back as {len(b.vertices)}')
                    break
                pairs += [(a.vertices[q], b.vertices[q]) for q in range(len(a.vertices))]
            for pa, pb in pairs:
                with warnings.catch_warnings():
                    warnings.simplefilter('ignore')
                    sep = pa.transform_to(pb.frame, merge_attributes=False).separation(pb).deg     # the frame read back, with ITS attributes
                ev['got'].append(int(round(sep / unit_pos * 1000)))
                ev['half'].append(800 + int(math.ceil(1e-9 / unit_pos * 1000)))        # sqrt(2)/2 unit in two coordinates, plus transform noise
            for nm in ('radius', 'width', 'height', 'inner_radius', 'outer_radius'):
                if hasattr(a, nm):
                    va, vb = getattr(a, nm).to_value('deg') * conv, getattr(b, nm).to_value('deg') * conv
                    mult = 2 if type(a).__name__.startswith('Ellipse') else 1
                    ev['got'].append(int(round((vb - va) / unit_pos * 1000)))
                    ev['half'].append(500 * mult + 1)
            if hasattr(a, 'angle'):
                ev['got'].append(int(round(math.remainder(b.angle.to_value('deg') - a.angle.to_value('deg'), 360.0) / unit_pos * 1000)))
                ev['half'].append(501)
            events.append(dict(ev, case=case, j=j))
        if bad:
            ctx.violation(f'C11|trace|{bad[0]}', bad[1], case)
            continue
        if len(r2) != len(r1) or any(not (x == y) for x, y in zip(r1, r2)):
            t3 = Regions(r2).serialize(format='crtf', coordsys=coordsys, fmt=f'.{digits}f', radunit=radunit)
            if t3 != t2:
                ctx.violation('C11|trace|fixedpoint', 'parse -> serialise -> parse is not a fixed point', dict(case, t2=t2, t3=t3))
    wd = tlc.workdir('c11trace')
    path = os.path.join(wd, 'events.json')
    with open(path, 'w') as f:
        json.dump([{k: v for k, v in e.items() if k != 'case'} for e in events], f)
    res = tlc.run('Trace_Ds9Write', cfg='Trace_Ds9.cfg', dump=True, env={'TRACE_FILE': path}, tag='c11trace')
    ctx.tlc(res, 'half-unit clause (Trace_Ds9Write) on CRTF round trips')
    seen = 0
    for st in res.states():
        seen += 1
        if st['verdict'] != 'ok':
            e = events[st['i'] - 1]
            ctx.violation(f"C11|trace|{st['verdict']}", f"region {e['j']}: {st['verdict']} (fmt .{e['p']}f)", e['case'])
    if seen != len(events):
        raise tlc.TlcError('trace verdict count mismatch')
    ctx.traces += seen
    ctx.note('trace_regions_validated', seen)
    tlc.cleanup(res.workdir)
    tlc.cleanup(wd)
