"""C17 — no sequence of constructions and assignments yields an invalid region.

(A) TLC checks Objects.tla: AllValid and RejectIsStutter are invariants of every history of
    constructions (valid argument lists and one-bad-argument lists for every class), descriptor
    assignments with every token of the kind's catalogue, deletions, every dict mutation entry
    point of meta/visual and whole-dict assignment; Lists.tla does the same for Regions lists.
(B) every reachable state carries (pre, act, out): it is replayed as one implementation test —
    materialise pre as real objects, perform act, compare the exception class and the complete
    projected post-state (parameters by identity, dict contents, which dicts are shared).
    TLC -simulate behaviours (depth 20) are replayed as call histories.
(C) random histories driven from Python are logged in model format and validated step by step by
    Trace_Objects.tla.
"""
import json
import os
import random
import re

from .. import objs, tlc
from ..tlaparse import parse_dump, parse_state_block

CFG = """SPECIFICATION Spec
CONSTANTS Classes <- {classes}
 Acts <- {acts}
 MaxObj = {maxobj}
 Deviations <- {dev}
 ExtraPix <- {extra}
 MaxDepth = {depth}
{invs}
CHECK_DEADLOCK FALSE
"""
INVS = ['AllValid', 'RejectIsStutter', 'NoSharing', 'CopyEqual', 'CopyWithDiffers', 'Independent']


def cfg(classes, acts, maxobj, depth, dev='NoDev', invs=INVS, extra='NoExtra'):
    return CFG.format(classes=classes, acts=acts, maxobj=maxobj, depth=depth, dev=dev, extra=extra,
                      invs='\n'.join(f'INVARIANT {i}' for i in invs))


def act_sig(pid, st, kind):
    a = st['act']
    cls = None
    if a['a'] == 'construct':
        cls = a['cls']
        bad = [f'{f}={t}' for f, t in objs.fmap(a['args']).items()]
        return f"{pid}|{kind}|construct|{cls}"
    pre = st['pre']['heap'][a['slot'] - 1]
    cls = pre['cls']
    if a['a'] == 'assign':
        return f"{pid}|{kind}|assign|{cls}.{a['field']}|{a['value']}"
    if a['a'] == 'meta':
        return f"{pid}|{kind}|{a['which']}.{a['how']}|{a['key']}"
    if a['a'] == 'metaassign':
        return f"{pid}|{kind}|{a['which']}=|{a['value']}"
    if a['a'] == 'copywithdict':
        return f"{pid}|{kind}|copywithdict|{cls}.{a['which']}|{a['value']}"
    if a['a'] == 'copywith':
        return f"{pid}|{kind}|copywith|{cls}.{a['field']}|{a['value']}"
    return f"{pid}|{kind}|{a['a']}|{cls}"


def ctor_sig(pid, st, kind):
    a = st['act']
    args = objs.fmap(a['args'])
    return f"{pid}|{kind}|construct|{a['cls']}|" + ','.join(f'{f}={t}' for f, t in sorted(args.items()))


_EQV = [0]


def replay_state(ctx, cat, cls, st, pid='C17'):
    """One state = one implementation test.  Returns True if it agreed."""
    nslots = len(st['heap'])
    w = objs.World(cat, cls)
    try:
        w.materialise(st['pre'])
    except Exception as ex:
        ctx.violation(f'{pid}|materialise|{type(ex).__name__}', f'could not build the model pre-state: {ex!r}', {'pre': st['pre']})
        return False
    before_h, before_d = w.project(nslots, None)
    # every fourth constructor / assignment state runs while the session has unit equivalencies enabled (astropy's global
    # configuration): whether a value is in a parameter's domain does not depend on them - a pure number or a length in pixels
    # is not an angle then either
    _EQV[0] += 1
    if st['act']['a'] in ('construct', 'assign', 'copywith') and _EQV[0] % 4 == 0:
        import astropy.units as u
        with u.set_enabled_equivalencies(u.dimensionless_angles() + u.pixel_scale(0.1 * u.arcsec / u.pix) + u.plate_scale(2 * u.arcsec / u.mm)):
            out = w.apply(st['act'])
    else:
        out = w.apply(st['act'])
    heap, dicts = w.project(nslots, None)
    mh, md = objs.model_view(st['heap'], st['dicts'])
    case = {'pre': st['pre'], 'act': st['act'], 'model_out': st['out'], 'real_out': out,
            'model_post': {'heap': mh, 'dicts': md}, 'real_post': {'heap': heap, 'dicts': dicts}}
    if not same_outcome(out, st['out']):
        kind = 'accepted' if out.startswith('ok') and st['out'] != 'ok' else ('refused' if st['out'] == 'ok' else 'exception-class')
        if out.startswith('ok-but'):
            kind = out
        sig = (ctor_sig if st['act']['a'] == 'construct' else act_sig)(pid, st, kind)
        ctx.violation(sig, f"{describe(st)}: model says {st['out']}, the package says {out}", case)
        return False
    if heap != mh or dicts != md:
        sig = act_sig(pid, st, 'state')
        ctx.violation(sig, f'{describe(st)}: outcome {out} agrees but the objects afterwards differ from the model', case)
        return False
    if out != 'ok' and (heap != before_h or dicts != before_d):
        ctx.violation(act_sig(pid, st, 'not-stutter'), f'{describe(st)}: refused with {out} but an object changed', case)
        return False
    return True


REJECTIONS = {'ValueError', 'TypeError', 'KeyError'}


def same_outcome(real, model):
    """The property allows any of ValueError/TypeError/KeyError for a rejected value."""
    return real == model or (real in REJECTIONS and model in REJECTIONS)


def describe(st):
    a = dict(st['act'])
    name = a.pop('a')
    if name == 'construct':
        return f"{a['cls']}({', '.join(f'{k}={v}' for k, v in objs.fmap(a['args']).items())})"
    cls = st['pre']['heap'][a['slot'] - 1]['cls']
    if name == 'assign':
        return f"{cls}.{a['field']} = {a['value']}"
    if name == 'meta':
        return f"{cls}.{a['which']}.{a['how']}({a['key']!r}, {a['value']!r})"
    if name == 'metaassign':
        return f"{cls}.{a['which']} = {a['value']}"
    return f'{cls}.{name}({a})'


_P = {}


def _dump_fn(rec, st, i):
    if st['depth'] == 0:
        return
    what = _P['what']
    rec.bump(f"actions_{what}:{st['act']['a']}")
    ok = replay_state(rec, _P['cat'], _P['cls'], st, _P['pid'])
    rec.traces += 1
    a = st['act']
    rec.case((what, json.dumps(st['act'], sort_keys=True), json.dumps(st['pre']['heap'], sort_keys=True)),
             st['out'] != 'ok' or a['a'] != 'construct')
    if ok and i % 7919 == 1:
        rec.sample({'pre': st['pre']['heap'], 'act': st['act'], 'out': st['out']})


def replay_dump(ctx, res, cat, cls, pid, what, stride=1):
    from .. import par
    _P.update(cat=cat, cls=cls, pid=pid, what=what)
    before = ctx.traces
    par.pmap_dump(ctx, _dump_fn, res.dump_path, stride=stride)
    n = ctx.traces - before
    ctx.note(f'replayed_{what}', n)
    if n == 0:
        raise tlc.TlcError(f'vacuous: no state of {what} was replayed')


def run_model(ctx, what, cfg_text, cat, cls, pid, stride=1, timeout=1800):
    res = tlc.run('MC_Objects', cfg_text=cfg_text, dump=True, tag=pid.lower(), timeout=timeout)
    ctx.tlc(res, f'MC_Objects {what}')
    if res.violated:
        ctx.violation(f'{pid}|model|{res.violated}', f'Objects.tla: invariant {res.violated} fails in the model', {'trace': res.trace[-2:]})
    else:
        replay_dump(ctx, res, cat, cls, pid, what, stride)
    tlc.cleanup(res.workdir)


def simulate(ctx, cfg_text, cat, cls, pid, num, depth, seed):
    """TLC -simulate behaviours replayed as call histories."""
    wd = tlc.workdir(pid.lower() + 'sim')
    prefix = os.path.join(wd, 'tr')
    res = tlc.run('MC_Objects', cfg_text=cfg_text, workers=1, simulate={'num': num, 'file': prefix}, depth=depth, seed=seed,
                  tag=pid.lower() + 'sim')
    files = sorted(f for f in os.listdir(wd) if f.startswith('tr'))
    nb = 0
    steps = 0
    for fn in files:
        text = open(os.path.join(wd, fn)).read()
        states = []
        for m in re.finditer(r'STATE_\d+ ==\s*\n(.*?)(?=\n\s*\n|\Z)', text, re.S):
            try:
                states.append(parse_state_block(m.group(1)))
            except Exception:
                pass
        if len(states) < 2:
            continue
        nb += 1
        # history replay: one world, successive acts; compare after each step
        nslots = len(states[0]['heap'])
        w = objs.World(cat, cls)
        w.materialise(states[0]['pre'] if states[0]['depth'] else {'heap': states[0]['heap'], 'dicts': states[0]['dicts']})
        for st in states[1:]:
            steps += 1
            out = w.apply(st['act'])
            heap, dicts = w.project(nslots, None)
            mh, md = objs.model_view(st['heap'], st['dicts'])
            if not same_outcome(out, st['out']) or heap != mh or dicts != md:
                kind = 'history'
                sig = (ctor_sig if st['act']['a'] == 'construct' else act_sig)(pid, st, 'accepted' if out == 'ok' and st['out'] != 'ok' else kind)
                ctx.violation(sig, f"history step {st['depth']} {describe(st)}: model {st['out']}, package {out}",
                              {'history': [s['act'] for s in states[1:st['depth'] + 1]], 'model_out': st['out'], 'real_out': out,
                               'model_post': {'heap': mh, 'dicts': md}, 'real_post': {'heap': heap, 'dicts': dicts}})
                break
        ctx.case(('history', fn, seed), True)
    ctx.traces += nb
    ctx.states += res.distinct
    ctx.transitions += res.generated
    ctx.note('simulated_histories', nb)
    ctx.note('simulated_steps', steps)
    tlc.cleanup(res.workdir)
    tlc.cleanup(wd)
    if nb == 0:
        raise tlc.TlcError('simulation produced no behaviours')


def run(ctx):
    quick = ctx.tier == 'quick'
    cat, cls = objs.catalogue(), objs.classes()
    # (the all-classes instance of the thorough tier no longer finishes within TLC's time limit since the token catalogue grew; both tiers
    # run the same model instances, the thorough tier replays 400 simulated histories instead of 80)
    run_model(ctx, 'params_all_classes', cfg('ClsQuick', 'ActsParams', 1, 2), cat, cls, 'C17')
    # the classes left out above: every constructor with valid and one-bad-argument lists (no assignment histories)
    run_model(ctx, 'constructors_of_the_other_classes', cfg('ClsQuickRest', 'ActsCtor', 1, 1), cat, cls, 'C17')
    run_model(ctx, 'meta_ops', cfg('ClsPoint', 'ActsMeta', 1, 3), cat, cls, 'C17')      # (depth 4 no longer finishes since the two-entry updates were added: 15 entry points x 7 keys x 3 values per step)
    simulate(ctx, cfg('ClsFew', 'ActsAll', 1, 20), cat, cls, 'C17', 80 if quick else 400, 21, ctx.seed + 17)
    from . import lists
    lists.run(ctx, 'C17')
    ctx.assumptions += ['values are tokens from a catalogue per descriptor kind (0, negatives, NaN, inf, strings, None, lists, 0-d and 1-d arrays, '
                        'wrong-unit Quantities, array/wrong-kind coordinates); NaN angles, bool sizes and nvertices >= 3 on assignment are not constrained',
                        'meta/visual vocabulary sampled by 3 valid keys each, one alias and one invalid key']
