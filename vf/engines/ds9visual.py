"""Ds9Visual.tla bound to regions/io/ds9/meta.py through the public API (part of C09: 'metadata/visual vocabularies ...
parse -> serialise -> parse is a fixed point').

(A) TLC checks Ds9Visual.tla - the case-by-case transcription of _translate_ds9_to_visual (with its shape-dependent
    filtering) and of _translate_metadata_to_ds9 - over 8 shapes x every combination of colour, fill, dash, dashlist,
    width, point symbol(+size), font (1..4 parts), textangle, textrotate (82 944 combinations): the second parse equals
    the first, the filtering rules hold, colour and width survive.
(B) every terminal state is one implementation test: the DS9 line with these properties is parsed by the real reader
    (visual dict compared key by key with the model), serialised by the real writer (the visual properties written are
    compared with the model's), and parsed again (compared with the model's second parse).
"""
import re
import warnings

from .. import par, tlc

CFG = """SPECIFICATION Spec
CONSTANTS Shapes <- ShapesMC
 Colors <- ColorsMC
 Fills <- FillsMC
 Dashes <- DashesMC
 Dashlists <- DashlistsMC
 Widths <- WidthsMC
 Points <- PointsMC
 Fonts <- FontsMC
 Angles <- AnglesMC
 Rotates <- RotatesMC
INVARIANT FixedPoint
INVARIANT TextHasNoLineProps
INVARIANT OnlyPointsHaveMarkers
INVARIANT PointsAreNotDashed
INVARIANT OnlyFillableIsFilled
INVARIANT ColourGoesToTheRightKeys
INVARIANT OnlyTextRotates
INVARIANT ColourSurvives
INVARIANT WidthSurvives
CHECK_DEADLOCK FALSE
"""
BODY = {'circle': 'circle(10,20,3)', 'ellipse': 'ellipse(10,20,3,2,30)', 'box': 'box(10,20,4,2,0)', 'polygon': 'polygon(1,2,5,2,3,6)',
        'annulus': 'annulus(10,20,2,4)', 'line': 'line(1,2,5,6)', 'point': 'point(10,20)', 'text': 'text(10,20)'}
ORDER = ['color', 'fill', 'dash', 'dashlist', 'width', 'point', 'font', 'textangle', 'textrotate']
VKEYS = ['color', 'facecolor', 'edgecolor', 'fill', 'linestyle', 'linewidth', 'markeredgewidth', 'marker', 'markersize', 'fontname', 'fontsize',
         'fontweight', 'fontstyle', 'rotation', 'textrotate']
KEYRE = re.compile(r'(?:^|\s)(color|fill|dash|dashlist|width|point|font|textangle|textrotate|text|include|tag|select|highlite|fixed|edit|move|delete|rotate|source|background)=')


def line_of(shape, p, k):
    parts = []
    keys = ORDER if k % 2 == 0 else ORDER[::-1]
    for key in keys:
        v = p[key]
        if v == 'A':
            continue
        parts.append(f'font="{v}"' if key == 'font' else f'{key}={v}')
    if shape == 'text':
        parts.insert(0, 'text={t}')
    return 'image\n' + BODY[shape] + (' # ' + ' '.join(parts) if parts else '') + '\n'


def proj_visual(vis):
    out = {}
    for k in VKEYS:
        if k not in vis:
            out[k] = 'A'
            continue
        v = vis[k]
        if k == 'fill':
            out[k] = 'T' if v is True else ('F' if v is False else repr(v))
        elif k == 'linestyle':
            out[k] = 'dashed' if v == 'dashed' else ('dashes ' + ' '.join(str(x) for x in v[1]) if isinstance(v, tuple) else repr(v))
        elif isinstance(v, float) and v == int(v):
            out[k] = str(int(v))
        else:
            out[k] = str(v)
    return out


def written_props(text):
    """visual properties written for the (single) region: the global line and the region line merged."""
    got = {}
    for raw in text.split('\n'):
        raw = raw.strip()
        if not raw or raw.startswith('#') and not raw.startswith('# text('):
            continue
        if raw.startswith('global '):
            s = raw[7:]
        elif ' # ' in raw:
            s = raw.split(' # ', 1)[1]
        else:
            continue
        ms = list(KEYRE.finditer(s))
        for j, mo in enumerate(ms):
            end = ms[j + 1].start() if j + 1 < len(ms) else len(s)
            val = s[mo.end():end].strip()
            if len(val) >= 2 and val[0] + val[-1] in ('""', "''", '{}'):
                val = val[1:-1]
            got[mo.group(1)] = val
    return {k: got.get(k, 'A') for k in ORDER}


def replay_state(rec, st, idx):
    from regions import Regions
    shape, p = st['shape'], st['props']
    rec.traces += 1
    text = line_of(shape, p, idx)
    case = {'shape': shape, 'ds9_text': text, 'model_first_parse': st['vis1'], 'model_written': st['out']}
    rec.case((shape, tuple(p[k] for k in ORDER)), any(p[k] != 'A' for k in ORDER))
    try:
        with warnings.catch_warnings():
            warnings.simplefilter('ignore')
            r1 = Regions.parse(text, format='ds9')
            if len(r1) != 1:
                rec.violation(f'C09|visual|count|{shape}', f'{len(r1)} regions parsed from one line', case)
                return
            v1 = proj_visual(r1[0].visual)
            out = Regions(list(r1)).serialize(format='ds9')
            r2 = Regions.parse(out, format='ds9')
    except Exception as ex:  # noqa
        rec.violation(f'C09|visual|raises|{shape}|{type(ex).__name__}', f'{ex!r}', case)
        return
    want1 = dict(st['vis1'])
    d = [k for k in VKEYS if v1[k] != want1[k]]
    if d:
        rec.violation(f'C09|visual|read|{shape}|{d[0]}', f'{shape} line: visual[{d[0]!r}] is {v1[d[0]]!r} after parsing, Ds9Visual!ToVisual says {want1[d[0]]!r}', dict(case, real_first_parse=v1))
        return
    w = written_props(out)
    wantw = dict(st['out'])
    d = [k for k in ORDER if w[k] != wantw[k]]
    if d:
        rec.violation(f'C09|visual|write|{shape}|{d[0]}', f'{shape}: property {d[0]} written as {w[d[0]]!r}, Ds9Visual!ToDs9 says {wantw[d[0]]!r}', dict(case, written=out))
        return
    if len(r2) != 1:
        rec.violation(f'C09|visual|count2|{shape}', f'{len(r2)} regions after the round trip', dict(case, written=out))
        return
    v2 = proj_visual(r2[0].visual)
    want2 = dict(st['vis2'])
    d = [k for k in VKEYS if v2[k] != want2[k]]
    if d:
        rec.violation(f'C09|visual|fixedpoint|{shape}|{d[0]}', f'{shape}: visual[{d[0]!r}] is {v2[d[0]]!r} after parse-serialise-parse, the first parse gave {v1[d[0]]!r}', dict(case, written=out))
        return
    if idx % 9001 == 1:
        rec.sample({'shape': shape, 'ds9_text': text, 'visual': {k: v for k, v in v1.items() if v != 'A'}, 'written': {k: v for k, v in w.items() if v != 'A'}})


def api_region(shape, vis):
    """A pixel region of the DS9 shape with visual attributes given through the API, as a matplotlib user writes them."""
    import astropy.units as u
    import numpy as np
    import regions as R
    from regions import PixCoord, RegionVisual
    v = {}
    for k, t in vis.items():
        if t == 'A':
            continue
        if k in ('fontsize', 'markersize', 'linewidth', 'markeredgewidth'):
            v[k] = int(t)
        elif k == 'fill':
            v[k] = True
        elif k == 'linestyle':
            v[k] = {'dashed': 'dashed', 'solid': ['solid', '-'][len(vis) % 2]}.get(t, (0, (8, 3)))
        else:
            v[k] = t
    c = PixCoord(9.0, 19.0)
    vis_ = RegionVisual(v)
    return {'circle': lambda: R.CirclePixelRegion(c, 3.0, visual=vis_), 'ellipse': lambda: R.EllipsePixelRegion(c, 6.0, 4.0, angle=30 * u.deg, visual=vis_),
            'box': lambda: R.RectanglePixelRegion(c, 4.0, 2.0, visual=vis_), 'polygon': lambda: R.PolygonPixelRegion(PixCoord(np.array([0.0, 4, 2]), np.array([1.0, 1, 5])), visual=vis_),
            'annulus': lambda: R.CircleAnnulusPixelRegion(c, 2.0, 4.0, visual=vis_), 'line': lambda: R.LinePixelRegion(PixCoord(0.0, 1.0), PixCoord(4.0, 5.0), visual=vis_),
            'point': lambda: R.PointPixelRegion(c, visual=vis_), 'text': lambda: R.TextPixelRegion(c, 't', visual=vis_)}[shape]()


def replay_write_first(rec, st, idx):
    """SpecW: visual attributes given through the API, serialised first (Ds9Visual!ToDs9 incl. the defaults the writer assumes), parsed back."""
    from regions import Regions
    shape = st['shape']
    rec.traces += 1
    given = {k: v for k, v in dict(st['vis1']).items() if v != 'A'}
    case = {'shape': shape, 'visual_given': given, 'model_written': st['out'], 'model_read_back': {k: v for k, v in dict(st['vis2']).items() if v != 'A'}}
    rec.case(('write-first', shape, tuple(sorted(given.items()))), bool(given))
    try:
        with warnings.catch_warnings():
            warnings.simplefilter('ignore')
            out = Regions([api_region(shape, st['vis1'])]).serialize(format='ds9')
            r2 = Regions.parse(out, format='ds9')
    except Exception as ex:  # noqa
        rec.violation(f'C09|visual-api|raises|{shape}|{type(ex).__name__}', f'{ex!r}', case)
        return
    w = written_props(out)
    wantw = dict(st['out'])
    d = [k for k in ORDER if w[k] != wantw[k]]
    if d:
        rec.violation(f'C09|visual-api|write|{shape}|{d[0]}', f'{shape} with visual {given}: property {d[0]} written as {w[d[0]]!r}, Ds9Visual!ToDs9 says {wantw[d[0]]!r}', dict(case, written=out))
        return
    if len(r2) != 1:
        rec.violation(f'C09|visual-api|count|{shape}', f'{len(r2)} regions after the round trip', dict(case, written=out))
        return
    v2 = proj_visual(r2[0].visual)
    want2 = dict(st['vis2'])
    d = [k for k in VKEYS if v2[k] != want2[k]]
    if d:
        rec.violation(f'C09|visual-api|read-back|{shape}|{d[0]}', f'{shape} with visual {given}: visual[{d[0]!r}] reads back as {v2[d[0]]!r}, the model says {want2[d[0]]!r}', dict(case, written=out))


def run(ctx):
    quick = ctx.tier == 'quick'
    resw = tlc.run('MC_Ds9Visual', cfg_text=CFG.replace('SPECIFICATION Spec', 'SPECIFICATION SpecW').split('INVARIANT')[0]
                   + 'INVARIANT WriterDefaultsAreDs9s\nINVARIANT SecondCycleFixed\nINVARIANT LineStyleSurvives\nCHECK_DEADLOCK FALSE\n', dump=True, tag='c09visw', timeout=600)
    ctx.tlc(resw, 'MC_Ds9Visual SpecW: visual attributes given through the API, serialised first')
    if resw.violated:
        ctx.violation(f'C09|model|Ds9Visual.{resw.violated}', f'Ds9Visual.tla (SpecW): {resw.violated} fails in the model', {'trace': resw.trace[-1:]})
    else:
        before = ctx.traces
        par.pmap_dump(ctx, replay_write_first, resw.dump_path, only='pc = "done"', stride=1, chunk=200)
        ctx.note('visual_api_states_replayed', ctx.traces - before)
        if ctx.traces == before:
            raise tlc.TlcError('no Ds9Visual SpecW state was replayed')
    tlc.cleanup(resw.workdir)
    res = tlc.run('MC_Ds9Visual', cfg_text=CFG, dump=True, tag='c09vis', timeout=1800)
    ctx.tlc(res, 'MC_Ds9Visual: 8 shapes x every combination of DS9 visual properties; parse, serialise, parse again')
    if res.violated:
        ctx.violation(f'C09|model|Ds9Visual.{res.violated}', f'Ds9Visual.tla: {res.violated} fails in the model', {'trace': res.trace[-1:]})
    else:
        before = ctx.traces
        par.pmap_dump(ctx, replay_state, res.dump_path, only='pc = "done"', stride=4 if quick else 1, chunk=1000)
        ctx.note('visual_states_replayed', ctx.traces - before)
        if ctx.traces == before:
            raise tlc.TlcError('no Ds9Visual state was replayed')
    tlc.cleanup(res.workdir)
