"""C10 — DS9 text is read according to the DS9 region-file conventions.

(A) TLC checks Ds9.tla's reader state machine over all files of up to 3 (thorough: 4) lines from an
    alphabet of frame / global / region / composite / comment / unsupported lines, and over a
    lexical config (one frame line + one region line: shape x frame x coordinate notation x size
    unit x sign): no region without a frame, skipped lines are stutter steps and deleting them does
    not change the result, an unsupported frame clears the frame, the fold and the steps agree.
(B) every final state is rendered to text in several interchangeable styles (newline vs ';',
    parentheses/commas vs spaces, upper/lower case, with/without header, text delimiters) and
    parsed by the real reader: number of regions, classes, frames, every number (1e-9), include
    flag, text, tags, colour precedence and the number of 'skipping' warnings must be the model's.
(C) a grammar of long files (<= 40 lines) is parsed by the real reader; the abstract file and the
    observed regions are validated by Trace_Ds9.tla.
(D) per-line trace validation: the guarded hook `ds9.read.line` (regions/_utils/verif.py) logs the
    reader's persistent variables (frame, global_meta, composite_meta, number of region records)
    after every physical line; Trace_Ds9Steps.tla re-uses Ds9!StepLine as its only action and
    requires the projected model state to equal the logged one after every step, for the files of
    (B) and (C).  A divergence of the internal state is reported even when this file's output
    happens not to show it.
"""
import json
import os
import random
import warnings

from .. import ds9text, tlc
from ..tlaparse import parse_dump

CFG = """SPECIFICATION Spec
CONSTANTS Files <- {files}
INVARIANT NoRegionWithoutFrame
INVARIANT NonInterference
INVARIANT FoldAgrees
PROPERTY SkipIsStutter
PROPERTY UnsupportedFrameClears
CHECK_DEADLOCK FALSE
"""


STEPLOG = []          # per-line reader states recorded by the hook during the last parse_real call
STEP_EVENTS = []      # (abstract physical lines, logged states, text) collected for Trace_Ds9Steps


def hooks():
    """The guarded tracing module of the implementation (machinery failure if it is missing)."""
    try:
        from regions._utils import verif
    except ImportError:
        if os.environ.get('VERIF_ALLOW_NO_HOOKS') == '1':
            return None
        raise tlc.TlcError('regions/_utils/verif.py (guarded tracing hooks) is missing from the tree under test')
    if not verif.enabled():
        raise tlc.TlcError('tracing hooks are not enabled (ASTROPY_REGIONS_VERIF=1 expected)')
    return verif


def parse_real(text):
    from astropy.utils.exceptions import AstropyUserWarning

    from regions import Regions
    hk = hooks()
    if hk:
        hk.events.clear()
    del STEPLOG[:]
    with warnings.catch_warnings(record=True) as wl:
        warnings.simplefilter('always')
        try:
            regs = Regions.parse(text, format='ds9')
        finally:
            if hk:
                STEPLOG.extend(f for nm, f in hk.events if nm == 'ds9.read.line')
                hk.events.clear()
    nskip = sum(1 for w in wl if issubclass(w.category, AstropyUserWarning) and 'skipping' in str(w.message))
    return list(regs), nskip


def physical(lines, st):
    """The abstract lines as the reader's line splitter sees them: optional header comment, the lines, the empty tail."""
    return ([{'k': 'comment'}] if st['header'] else []) + list(lines) + [{'k': 'blank'}]


def _pr(d):
    out = {'zz': 'zz'}
    for k, v in (d or {}).items():
        out[str(k)] = str(v[0]) if isinstance(v, list) and len(v) == 1 else str(v)
    return out


def record_steps(lines, st, text):
    if hooks() is None:
        return
    log = [{'frame': f['frame'] if f['frame'] is not None else 'none', 'gmeta': _pr(f['global_meta']), 'cmeta': _pr(f['composite_meta']),
            'n': f['n_region_data']} for f in STEPLOG]
    # the hook fires at the head of every loop iteration and once after the loop: the first event is the initial state,
    # event k the state after physical line k
    STEP_EVENTS.append((physical(lines, st), log[1:], text, log[:1]))


def step_validation(ctx, cap):
    """(D) Trace_Ds9Steps over the per-line logs collected so far."""
    evs = STEP_EVENTS
    if not evs:
        if hooks() is None:
            ctx.note('step_validation', 'skipped: tree without hooks (VERIF_ALLOW_NO_HOOKS=1)')
            return
        raise tlc.TlcError('no per-line reader states were recorded')
    stride = max(1, len(evs) // cap)
    evs = evs[::stride]
    wd = tlc.workdir('c10steps')
    path = os.path.join(wd, 'events.json')
    with open(path, 'w') as f:
        json.dump([{'file': e[0], 'log': e[1], 'init': e[3]} for e in evs], f)
    res = tlc.run('Trace_Ds9Steps', cfg='Trace_Ds9Steps.cfg', dump=True, env={'TRACE_FILE': path}, tag='c10steps', timeout=2400)
    ctx.tlc(res, 'Trace_Ds9Steps: per-line validation of the reader state logged by the hook')
    done, steps = set(), 0
    for st in res.states():
        steps += 1
        e = evs[st['t'] - 1]
        if st['verdict'] != 'ok':
            done.add(st['t'])
            k = st['i'] - 1 if st['i'] > 1 else 0
            line = e[0][k - 1] if k else None
            sig = (line['k'] if line and line['k'] != 'region' else (line or {}).get('shape', '-'))
            ctx.violation(f"C10|steps|{st['verdict']}|{sig}",
                          f"after physical line {k} ({sig}) the reader's {st['verdict']} is not the state Ds9!StepLine defines: model {st['s'] if k else '-'}, "
                          f"logged {e[1][k - 1] if k and k <= len(e[1]) else len(e[1])}", {'text': e[2], 'line_index': k, 'logged': e[1]})
        elif st['i'] > len(e[0]):
            done.add(st['t'])
    if len(done) != len(evs):
        raise tlc.TlcError(f'Trace_Ds9Steps: {len(evs) - len(done)} traces did not reach a verdict')
    # binding self-test: the same traces with one logged field corrupted (or one logged line removed) must be rejected
    import copy
    bad = []
    for j, e in enumerate(evs[:40]):
        log = copy.deepcopy(e[1])
        k = len(log) // 2
        if j % 4 == 0:
            log[k]['frame'] = 'fk4' if log[k]['frame'] != 'fk4' else 'image'
        elif j % 4 == 1:
            log[k]['n'] += 1
        elif j % 4 == 2:
            log[k]['gmeta'] = dict(log[k]['gmeta'], color='corrupted')
        else:
            del log[k]
        bad.append({'file': e[0], 'log': log, 'init': e[3]})
    with open(path, 'w') as f:
        json.dump(bad, f)
    neg = tlc.run('Trace_Ds9Steps', cfg='Trace_Ds9Steps.cfg', dump=True, env={'TRACE_FILE': path}, tag='c10stepsneg', timeout=600)
    rejected = {st['t'] for st in neg.states() if st['verdict'] != 'ok'}
    if len(rejected) != len(bad):
        raise tlc.TlcError(f'binding self-test: {len(bad) - len(rejected)} corrupted traces were accepted by Trace_Ds9Steps')
    ctx.note('step_selftest_corrupted_traces_rejected', len(rejected))
    tlc.cleanup(neg.workdir)
    ctx.traces += len(evs)
    ctx.note('step_traces_validated', len(evs))
    ctx.note('step_states', steps)
    tlc.cleanup(res.workdir)
    tlc.cleanup(wd)
    del STEP_EVENTS[:]


def line_sig(lines):
    return '>'.join(l['k'] if l['k'] != 'region' else l['shape'] for l in lines)


def replay(ctx, lines, out, warn, style_idx, pid='C10'):
    st = ds9text.STYLES[style_idx % len(ds9text.STYLES)]
    text = ds9text.render(lines, st)
    case = {'text': text, 'style': st, 'abstract_file': lines}
    try:
        regs, nskip = parse_real(text)
    except Exception as ex:  # noqa
        ctx.violation(f'{pid}|raises|{type(ex).__name__}|{line_sig(lines)[:60]}', f'parsing raised {ex!r}', case)
        return True
    if pid == 'C10':
        record_steps(lines, st, text)
    if len(regs) != len(out):
        ctx.violation(f'{pid}|count|{line_sig(lines)[:60]}', f'{len(regs)} regions parsed, the format defines {len(out)}', case)
        return True
    for j, (m, r) in enumerate(zip(out, regs)):
        bad = ds9text.compare(m, r)
        if bad:
            fr = next((l['name'] for l in lines if l['k'] == 'frame'), '-')
            ctx.violation(f"{pid}|{bad[0]}|{m['cls']}|{m['frame']}", f"region {j} ({m['cls']} in {fr}): {bad[1]}", dict(case, region_index=j, model=m))
            return True
    if nskip != warn:
        ctx.violation(f'{pid}|warnings|{line_sig(lines)[:60]}', f'{nskip} skip warning(s), expected {warn}', case)
        return True
    if pid == 'C10' and style_idx % 3 == 1 and regs:
        # what a parse returns belongs to the caller, who may edit it (append to a tag list, change a colour): reading the same text again
        # still gives what the text says
        for r in regs:
            if isinstance(r.meta.get('tag'), list):
                r.meta['tag'].append('edited by the caller')
            r.meta['text'] = 'edited'
            r.visual['color'] = 'magenta'
            r.visual['edgecolor'] = 'magenta'
        try:
            again, _ = parse_real(text)
        except Exception as ex:  # noqa
            ctx.violation(f'{pid}|reparse|raises|{type(ex).__name__}', f'parsing the same text again raised {ex!r}', case)
            return True
        for j, (m, r) in enumerate(zip(out, again)):
            bad = ds9text.compare(m, r)
            if bad or len(again) != len(out):
                ctx.violation(f"{pid}|reparse|{(bad or ['count'])[0]}|{m['cls']}", f'the same text parsed again after the caller edited the regions of the first parse: region {j}: {(bad or [0, len(again)])[1]}',
                              dict(case, region_index=j, model=m))
                return True
    return False


def run(ctx):
    quick = ctx.tier == 'quick'
    n = 0
    for files in (('FilesQuick' if quick else 'FilesState4'), 'FilesLex', 'FilesSpell'):
        res = tlc.run('MC_Ds9', cfg_text=CFG.format(files=files), dump=True, tag='c10', timeout=3000)
        ctx.tlc(res, f'MC_Ds9 {files}')
        if res.violated:
            ctx.violation(f'C10|model|{res.violated}', f'Ds9.tla: {res.violated} fails in the model', {'trace': res.trace[-1:]})
            tlc.cleanup(res.workdir)
            continue
        k = 0
        for idx, st in enumerate(parse_dump(res.dump_path)):
            if st['i'] <= len(st['file']):
                continue
            k += 1
            lines = list(st['file'])
            ctx.case(json.dumps(lines, sort_keys=True), len(st['s']['out']) > 0)
            bad = replay(ctx, lines, st['s']['out'], st['s']['warn'], idx)
            if files == 'FilesLex' and not bad:
                replay(ctx, lines, st['s']['out'], st['s']['warn'], idx + 1)
            if files == 'FilesSpell':         # every spelling in every style
                for extra in range(1, len(ds9text.STYLES)):
                    replay(ctx, lines, st['s']['out'], st['s']['warn'], idx + extra)
            if not bad and k % 1201 == 1:
                ctx.sample({'text': ds9text.render(lines, ds9text.STYLES[idx % len(ds9text.STYLES)]), 'regions': st['s']['out']})
        n += k
        ctx.note(f'replayed_{files}', k)
        tlc.cleanup(res.workdir)
    ctx.traces += n
    trace_validation(ctx)
    step_validation(ctx, 4000 if quick else 40000)
    ctx.assumptions += ['the supported subset: frames image/icrs/fk5/j2000/fk4/b1950/galactic/ecliptic; shapes circle, ellipse, box, annulus, polygon, line, point, text, '
                        'multi-radius annulus/ellipse/box, composite; the concretiser (ds9text.py) is trusted to render abstract lines faithfully']


def trace_validation(ctx):
    """Long random files: abstract lines + observed regions (projected to canonical integers) -> Trace_Ds9."""
    rnd = random.Random(ctx.seed * 79 + 10)
    n = 60 if ctx.tier == 'quick' else 1500
    T = lambda nn, v: {'n': nn, 'v': v}  # noqa
    events = []
    for t in range(n):
        lines = []
        frame = None
        for _ in range(rnd.randint(5, 40)):
            r = rnd.random()
            if r < 0.15:
                frame = rnd.choice(['image', 'fk5', 'icrs', 'galactic', 'ecliptic', 'j2000', 'b1950', 'fk4', 'physical'])
                lines.append({'k': 'frame', 'name': frame})
            elif r < 0.25:
                lines.append({'k': 'global', 'props': {'zz': 'zz', 'color': rnd.choice(['blue', 'green', 'cyan'])}})
            elif r < 0.35:
                kk = rnd.choice(['comment', 'blank', 'badshape', 'badword'])
                lines.append({'k': kk, 'cont': False} if kk == 'badshape' else {'k': kk})
            else:
                f = frame if frame not in (None, 'physical') else 'fk5'
                pix = f == 'image'
                pn = lambda: rnd.choice(['plain', 'i'] if pix else ['plain', 'd', 'dms'])  # noqa
                sn = lambda: rnd.choice(['plain', 'i'] if pix else ['plain', 'asec', 'amin', 'd'])  # noqa

                def pv(nn, lon):
                    if nn in ('plain', 'd', 'i'):
                        return rnd.randint(1000, 359000) if lon else rnd.randint(-80000, 80000)
                    return rnd.randint(0, 86000000) if lon else rnd.randint(-280000000, 280000000)

                def sv(nn):
                    return {'plain': rnd.randint(100, 5000), 'i': rnd.randint(100, 5000), 'd': rnd.randint(100, 5000), 'asec': rnd.randint(1000, 9000000), 'amin': rnd.randint(1000, 200000)}[nn]
                shape = rnd.choice(['circle', 'circle', 'ellipse', 'box', 'annulus', 'polygon', 'line', 'point', 'text'])
                a, b = pn(), pn()
                toks = [T(a, pv(a, True)), T(b, pv(b, False))]
                if shape == 'circle':
                    z = sn()
                    toks.append(T(z, sv(z)))
                elif shape in ('ellipse', 'box'):
                    z = sn()
                    toks += [T(z, sv(z)), T(z, sv(z)), T('plain', rnd.randint(-180000, 180000))]
                elif shape == 'annulus':
                    z = sn()
                    rs = sorted({sv(z) for _ in range(rnd.randint(2, 4))})
                    if len(rs) < 2:
                        rs = [1000, 2000]
                    toks += [T(z, v) for v in rs]
                elif shape == 'polygon':
                    for _ in range(rnd.randint(2, 4)):
                        toks += [T('plain', pv('plain', True)), T('plain', pv('plain', False))]
                elif shape == 'line':
                    toks += [T('plain', pv('plain', True)), T('plain', pv('plain', False))]
                pr = {'zz': 'zz'}
                if rnd.random() < 0.3:
                    pr['color'] = rnd.choice(['red', 'magenta'])
                if shape == 'text' or rnd.random() < 0.2:
                    pr['text'] = rnd.choice(['label', 'two words', 'x; y', 'a=b'])
                if rnd.random() < 0.15:
                    pr['include'] = rnd.choice(['0', '1'])
                lines.append({'k': 'region', 'shape': shape, 'sign': rnd.choice(['', '', '+', '-']), 'toks': toks, 'props': pr, 'cont': False})
        text = ds9text.render(lines, ds9text.STYLES[t % len(ds9text.STYLES)])
        try:
            regs, nskip = parse_real(text)
        except Exception as ex:  # noqa
            ctx.violation(f'C10|trace|raises|{type(ex).__name__}', f'parsing a generated file raised {ex!r}', {'text': text})
            continue
        record_steps(lines, ds9text.STYLES[t % len(ds9text.STYLES)], text)
        events.append({'file': lines, 'warn': nskip, 'out': [observe(r) for r in regs], 'text': text})
    wd = tlc.workdir('c10trace')
    path = os.path.join(wd, 'events.json')
    with open(path, 'w') as f:
        json.dump([{k: v for k, v in e.items() if k != 'text'} for e in events], f)
    res = tlc.run('Trace_Ds9', cfg='Trace_Ds9.cfg', dump=True, env={'TRACE_FILE': path}, tag='c10trace', timeout=1200)
    ctx.tlc(res, 'Trace_Ds9 validation of parsed generated files')
    seen = 0
    for st in res.states():
        seen += 1
        e = events[st['i'] - 1]
        ctx.case(('trace', st['i']), len(e['out']) > 0)
        if st['verdict'] != 'ok':
            ctx.violation(f"C10|trace|{st['verdict']}", f"parsed file rejected by Trace_Ds9: {st['verdict']} (region {st['at']})", {'text': e['text'], 'observed': e['out'][:st['at'] + 1][-1:] if e['out'] else []})
    if seen != len(events):
        raise tlc.TlcError('Trace_Ds9 verdict count mismatch')
    ctx.traces += seen
    ctx.note('trace_files_validated', seen)
    tlc.cleanup(res.workdir)
    tlc.cleanup(wd)


def observe(r):
    """real region -> canonical integers: positions/sizes in mas (sky) or mpix (image), rounded."""
    import numpy as np

    from regions import PixelRegion
    ispix = isinstance(r, PixelRegion)
    cls = type(r).__name__.replace('PixelRegion', '').replace('SkyRegion', '')
    rev = {v: k for k, v in ds9text.CLS.items()}
    kind = rev[cls]
    q = (lambda v: int(round(float(v) * 1000))) if ispix else (lambda v: int(round(float(v) * 3.6e6)))
    if kind == 'polygon':
        co = r.vertices
        xs, ys = (np.atleast_1d(co.x), np.atleast_1d(co.y)) if ispix else (co.spherical.lon.deg, co.spherical.lat.deg)
        pos = [q(v) for pair in zip(xs, ys) for v in pair]
    elif kind == 'line':
        pos = []
        for co in (r.start, r.end):
            pos += [q(co.x), q(co.y)] if ispix else [q(co.spherical.lon.deg), q(co.spherical.lat.deg)]
    else:
        co = r.center
        pos = [q(co.x), q(co.y)] if ispix else [q(co.spherical.lon.deg), q(co.spherical.lat.deg)]
    fr = 'image' if ispix else (r.vertices if kind == 'polygon' else r.start if kind == 'line' else r.center).frame.name
    sizes = [q(getattr(r, nm)) if ispix else q(getattr(r, nm).to_value('deg')) for nm in ds9text.SIZES.get(kind, [])]
    ang = int(round(float(r.angle.to_value('deg')) * 3.6e6)) if hasattr(r, 'angle') else 0
    text = r.text if kind == 'text' else r.meta.get('text', '-')
    return {'cls': kind, 'frame': fr, 'pos': pos, 'sizes': sizes, 'ang': ang, 'inc': str(r.meta.get('include', '?')),
            'text': str(text), 'color': str(r.visual.get('edgecolor', r.visual.get('color', '-')))}
