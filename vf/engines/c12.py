"""C12 — FITS region tables round-trip every supported pixel region.

(A) TLC checks Fits.tla: Decode(Encode(L)) = Representable(L) with identical integers, exclusion
    and given components kept, fresh components distinct, unsupported items are stutter steps on the
    rows, parse->serialise->parse is a fixed point; with the code-shaped deviation BangBeforeMap
    switched on TLC produces the excluded-ellipse counterexample without running any code.
(B) every 'done' state is replayed: real serialize(format='fits') table compared column by column
    with the model's rows, real parse compared with the model's regions, the same through a real
    file, and the fixed point.  Read-side notations box / rectangle / rotrectangle from hand-built
    tables.
(C) random lists of 1..8 regions validated by Trace_Fits.tla.
"""
import json
import operator
import os
import random
import warnings

import numpy as np

from .. import par, tlc
from ..tlaparse import parse_dump

CFG = """SPECIFICATION Spec
CONSTANTS Pool <- {pool}
 MaxLen = {maxlen}
 Deviations <- {dev}
INVARIANT RoundTrip
INVARIANT Components
INVARIANT SkipIsStutter
INVARIANT FixedPoint
CHECK_DEADLOCK FALSE
"""
INC = {'T': True, 'F': False, '1': 1, '0': 0}
Q = 4.0     # model integers are quarter pixels / quarter degrees


def build(it):
    import astropy.units as u
    from astropy.coordinates import SkyCoord

    import regions as R
    from regions import PixCoord
    cls = it['cls']
    if cls == 'line':
        return R.LinePixelRegion(PixCoord(1, 2), PixCoord(3, 4))
    if cls == 'text':
        return R.TextPixelRegion(PixCoord(1, 2), 'hello')
    if cls == 'rannulus':
        return R.RectangleAnnulusPixelRegion(PixCoord(5, 5), 2, 4, 1, 3)
    if cls == 'compound':
        return R.CompoundPixelRegion(R.CirclePixelRegion(PixCoord(1, 1), 2), R.CirclePixelRegion(PixCoord(2, 1), 2), operator.or_)
    if cls == 'sky':
        return R.CircleSkyRegion(SkyCoord(10, 20, unit='deg'), 3 * u.arcsec)
    meta = {}
    if it['inc'] != 'absent':
        meta['include'] = INC[it['inc']]
    if it['comp'] != -1:
        meta['component'] = it['comp']
    x, y, r = [v / Q for v in it['x']], [v / Q for v in it['y']], [v / Q for v in it['r']]
    ang = (it['ang'] / Q) * u.deg
    # the angle is handed over in different units (the table must hold one consistent ROTANG unit)
    ang = [ang, ang.to(u.rad), ang.to(u.arcmin)][(int(it['x'][0]) + len(it['r'])) % 3]
    c = PixCoord(x[0], y[0])
    if cls == 'point':
        return R.PointPixelRegion(c, meta=meta)
    if cls == 'circle':
        return R.CirclePixelRegion(c, r[0], meta=meta)
    if cls == 'ellipse':
        return R.EllipsePixelRegion(c, r[0], r[1], angle=ang, meta=meta)
    if cls == 'cannulus':
        return R.CircleAnnulusPixelRegion(c, r[0], r[1], meta=meta)
    if cls == 'eannulus':
        return R.EllipseAnnulusPixelRegion(c, r[0], r[1], r[2], r[3], angle=ang, meta=meta)
    if cls == 'rectangle':
        return R.RectanglePixelRegion(c, r[0], r[1], angle=ang, meta=meta)
    if cls == 'polygon':
        return R.PolygonPixelRegion(PixCoord(np.array(x), np.array(y)), meta=meta)
    if cls == 'regpoly4':
        return R.RegularPolygonPixelRegion(c, 4, r[0], meta=meta)
    raise ValueError(cls)


KIND = {'PointPixelRegion': 'point', 'CirclePixelRegion': 'circle', 'EllipsePixelRegion': 'ellipse', 'CircleAnnulusPixelRegion': 'cannulus',
        'EllipseAnnulusPixelRegion': 'eannulus', 'RectanglePixelRegion': 'rectangle', 'PolygonPixelRegion': 'polygon'}


SUPPORTED = set(KIND.values()) | {'regpoly4'}


def project(reg):
    """real region -> model record (quarter units, exact)."""
    cls = KIND.get(type(reg).__name__, type(reg).__name__)
    q = lambda v: float(v) * Q  # noqa

    def ints(vals):
        out = []
        for v in vals:
            f = q(v)
            out.append(int(f) if f == int(f) else f)
        return out
    if cls == 'polygon':
        x, y, r = ints(np.atleast_1d(reg.vertices.x)), ints(np.atleast_1d(reg.vertices.y)), []
    else:
        x, y = ints([reg.center.x]), ints([reg.center.y])
        names = {'point': [], 'circle': ['radius'], 'ellipse': ['width', 'height'], 'cannulus': ['inner_radius', 'outer_radius'],
                 'eannulus': ['inner_width', 'outer_width', 'inner_height', 'outer_height'], 'rectangle': ['width', 'height']}.get(cls, [])
        r = ints([getattr(reg, n) for n in names])
    ang = 0
    if hasattr(reg, 'angle'):
        a = round(float(reg.angle.to_value('deg')) * Q, 6)
        ang = int(a) if a == int(a) else a
    inc = reg.meta.get('include', 'absent')
    inc = 'absent' if inc == 'absent' else ('0' if inc in (0, False) else 'T')
    return {'cls': cls, 'x': x, 'y': y, 'r': r, 'ang': ang, 'inc': inc, 'comp': reg.meta.get('component', -1)}


def table_rows(tbl):
    """real table -> list of model rows."""
    rows = []
    for row in tbl:
        shape = str(row['SHAPE']).strip()
        excl = shape.startswith('!')

        def col(name):
            v = np.atleast_1d(row[name])
            v = getattr(v, 'value', v)
            out = []
            for a in v:
                f = float(a) * Q
                out.append(int(f) if f == int(f) else f)
            return out
        rot = np.atleast_1d(row['ROTANG'])
        rot = float(rot.to_value('deg')[0] if hasattr(rot, 'to_value') else rot[0]) * Q
        rot = round(rot, 6)
        rows.append({'shape': {'excl': excl, 'name': shape[1:] if excl else shape}, 'x': col('X'), 'y': col('Y'), 'r': col('R'),
                     'rotang': int(rot) if rot == int(rot) else rot, 'comp': int(row['COMPONENT']) if 'COMPONENT' in tbl.colnames else -1})
    return rows


def sig_items(items):
    ks = []
    for it in items:
        k = it['cls']
        if it.get('inc') in ('F', '0'):
            k = '!' + k
        ks.append(k)
    return ','.join(ks)


def replay(ctx, st, idx, sc, light=False):
    from regions import Regions
    items = list(st['items'])
    case = {'items': items}
    try:
        regs = [build(it) for it in items]
    except Exception as ex:  # noqa
        ctx.violation(f'C12|build|{type(ex).__name__}', f'could not construct the regions: {ex!r}', case)
        return True
    lst = Regions(regs)
    want_rows = [dict(r) for r in st['table']]
    want_back = [dict(b) for b in st['back']]
    comps = {it.get('comp', -1) for it in items if it['cls'] in SUPPORTED}
    compsig = 'none' if comps <= {-1} else ('all' if -1 not in comps else 'partial')
    POLY = ('polygon', 'regpoly4')
    mixed = len({(4 if it['cls'] == 'regpoly4' else len(it['x'])) for it in items if it['cls'] in POLY}) > 1 or \
        (any(it['cls'] in POLY for it in items) and any(it['cls'] in SUPPORTED and it['cls'] not in POLY for it in items))
    try:
        with warnings.catch_warnings(record=True) as wlist:
            warnings.simplefilter('always')
            tbl = lst.serialize(format='fits')
    except Exception as ex:  # noqa
        ctx.violation(f'C12|serialize|raises|{type(ex).__name__}|components-{compsig}', f'serialize(format="fits") raised {ex!r} for [{sig_items(items)}]', case)
        return True
    nskip = sum(1 for it in items if it['cls'] not in SUPPORTED)
    if nskip and len([w for w in wlist if 'skipping' in str(w.message)]) < nskip:
        ctx.violation('C12|skip|no-warning', f'{nskip} unsupported item(s) but no skip warning', case)
    try:
        got_rows = table_rows(tbl)
    except Exception as ex:  # noqa
        ctx.violation(f'C12|table|unreadable|{type(ex).__name__}|components-{compsig}', f'cannot read the serialised table back as rows: {ex!r}', case)
        return True
    if got_rows != want_rows:
        d = first_diff(got_rows, want_rows)
        ctx.violation(f'C12|table|{d}', f'serialised table differs from the model rows ({d}) for [{sig_items(items)}]',
                      dict(case, model_rows=want_rows, real_rows=got_rows))
        return True
    # parse (in memory) and through a file
    outs = {}
    for route in (('memory',) if (light and idx % 5) else ('memory', 'file')):
        try:
            with warnings.catch_warnings():
                warnings.simplefilter('ignore')
                if route == 'memory':
                    back = Regions.parse(tbl, format='fits')
                else:
                    path = os.path.join(sc, f'r{os.getpid()}_{idx % 7}.fits')
                    lst.write(path, format='fits', overwrite=True)
                    back = Regions.read(path, format='fits')
            outs[route] = [project(r) for r in back]
        except Exception as ex:  # noqa
            ctx.violation(f'C12|parse|{route}|raises|{type(ex).__name__}|components-{compsig}', f'reading the table back ({route}) raised {ex!r} for [{sig_items(items)}]', case)
            return True
        if outs[route] != want_back:
            d = first_diff_regions(outs[route], want_back)
            if d.startswith('polygon-vertices') and mixed:
                d = 'polygon-padding'
            ctx.violation(f'C12|roundtrip|{route}|{d}', f'regions read back ({route}) differ from the model ({d}) for [{sig_items(items)}]',
                          dict(case, model=want_back, real=outs[route]))
            return True
    # fixed point: serialise what was parsed, parse again
    if light and idx % 3:
        return False
    try:
        with warnings.catch_warnings():
            warnings.simplefilter('ignore')
            again = [project(r) for r in Regions.parse(Regions.parse(tbl, format='fits').serialize(format='fits'), format='fits')]
        if again != outs['memory']:
            ctx.violation('C12|fixedpoint', 'parse -> serialise -> parse is not a fixed point', dict(case, first=outs['memory'], second=again))
            return True
    except Exception as ex:  # noqa
        ctx.violation(f'C12|fixedpoint|raises|{type(ex).__name__}', f'parse -> serialise -> parse raised {ex!r}', case)
        return True
    return False


def first_diff(got, want):
    if len(got) != len(want):
        return f'rows-{len(got)}-vs-{len(want)}'
    for g, w in zip(got, want):
        for k in ('shape', 'x', 'y', 'r', 'rotang', 'comp'):
            if g[k] != w[k]:
                if k == 'shape':
                    return f"shape-{'!' if g['shape']['excl'] else ''}{g['shape']['name']}-vs-{'!' if w['shape']['excl'] else ''}{w['shape']['name']}"
                return f"{k}|{'!' if w['shape']['excl'] else ''}{w['shape']['name']}"
    return 'same'


def first_diff_regions(got, want):
    if len(got) != len(want):
        return f'count-{len(got)}-vs-{len(want)}'
    for g, w in zip(got, want):
        if g['cls'] != w['cls']:
            return f"class-{g['cls']}-vs-{w['cls']}"
        if w['cls'] == 'polygon' and (g['x'] != w['x'] or g['y'] != w['y']):
            return 'polygon-vertices'
        for k in ('x', 'y', 'r', 'ang'):
            if g[k] != w[k]:
                return f"{k}|{w['cls']}|{'excluded' if w['inc'] == '0' else 'included'}"
        if g['inc'] != w['inc']:
            return f"include-flag|{w['cls']}|comp-{'given' if w['comp'] != -1 else 'none'}"
        if g['comp'] != w['comp']:
            return f"component|{w['cls']}"
    return 'same'


def other_notations(ctx):
    """box / rectangle / rotrectangle rows built by hand (not produced by the writer)."""
    import astropy.units as u
    from astropy.table import QTable

    from regions import Regions
    cases = [('box', [10.0, 0], [12.0, 0], [4.0, 2.0], 0.0, {'cls': 'rectangle', 'x': [40], 'y': [48], 'r': [16, 8], 'ang': 0}),
             ('rotbox', [10.0, 0], [12.0, 0], [4.0, 2.0], 30.0, {'cls': 'rectangle', 'x': [40], 'y': [48], 'r': [16, 8], 'ang': 120}),
             ('rectangle', [2.0, 6.0], [1.0, 4.0], [0.0, 0.0], 0.0, {'cls': 'rectangle', 'x': [16], 'y': [10], 'r': [16, 12], 'ang': 0}),
             ('rotrectangle', [2.0, 6.0], [1.0, 4.0], [0.0, 0.0], 20.0, {'cls': 'rectangle', 'x': [16], 'y': [10], 'r': [16, 12], 'ang': 80}),
             ('!box', [10.0, 0], [12.0, 0], [4.0, 2.0], 0.0, {'cls': 'rectangle', 'x': [40], 'y': [48], 'r': [16, 8], 'ang': 0, 'inc': '0'})]
    for shape, x, y, r, rot, want in cases:
        t = QTable()
        t['SHAPE'] = [shape]
        t['X'] = [x] * u.pix
        t['Y'] = [y] * u.pix
        t['R'] = [r] * u.pix
        t['ROTANG'] = [rot] * u.deg
        ctx.case(('notation', shape), True)
        try:
            with warnings.catch_warnings():
                warnings.simplefilter('ignore')
                got = project(Regions.parse(t, format='fits')[0])
            ok = all(got[k] == v for k, v in want.items()) and (('inc' in want) or got['inc'] == 'absent')
        except Exception as ex:  # noqa
            ok, got = False, repr(ex)
        if not ok:
            ctx.violation(f'C12|notation|{shape}', f'a {shape} row is read as {got}, expected {want}', {'shape': shape, 'x': x, 'y': y, 'r': r, 'rotang': rot})
    ctx.traces += len(cases)
    # a table that has no ROTANG column at all (circles, points, unrotated boxes; an ellipse row in it lacks a column and is skipped with a
    # warning - alone): the rows that need no angle are read, and what is read here leaves nothing behind for later tables
    t = QTable()
    t['SHAPE'] = ['circle', 'box', 'point', 'annulus', '!box', 'ellipse']
    t['X'] = [[10.0, 0], [10.0, 0], [3.0, 0], [5.0, 0], [7., 0], [9., 0]] * u.pix
    t['Y'] = [[12.0, 0], [12.0, 0], [4.0, 0], [6.0, 0], [8., 0], [9., 0]] * u.pix
    t['R'] = [[4.0, 0], [4.0, 2.0], [0., 0], [1., 3.], [2., 2.], [3., 2.]] * u.pix
    want = [{'cls': 'circle', 'x': [40], 'y': [48], 'r': [16]}, {'cls': 'rectangle', 'x': [40], 'y': [48], 'r': [16, 8], 'ang': 0},
            {'cls': 'point', 'x': [12], 'y': [16]}, {'cls': 'cannulus', 'x': [20], 'y': [24], 'r': [4, 12]},
            {'cls': 'rectangle', 'x': [28], 'y': [32], 'r': [8, 8], 'ang': 0, 'inc': '0'}]
    ctx.case(('notation', 'no-ROTANG-column'), True)
    try:
        with warnings.catch_warnings():
            warnings.simplefilter('ignore')
            got = [project(r_) for r_ in Regions.parse(t, format='fits')]
        ok = len(got) == len(want) and all(all(g[k] == v for k, v in w.items()) for g, w in zip(got, want))
    except Exception as ex:  # noqa
        ok, got = False, repr(ex)
    if not ok:
        ctx.violation('C12|notation|no-rotang-column', f'a table without a ROTANG column is read as {got}, expected {want} (the ellipse row skipped)', {'shapes': list(t['SHAPE'])})
    ctx.traces += 1


_CFG = {}


def _state_fn(rec, st, idx):
    rec.case(json.dumps(st['items'], sort_keys=True), len(st['table']) > 0)
    bad = replay(rec, st, idx, _CFG['sc'], light=_CFG['light'])
    rec.traces += 1
    if not bad and idx % 1499 == 1:
        rec.sample({'items': st['items'], 'table': st['table'], 'back': st['back']})


def run(ctx):
    quick = ctx.tier == 'quick'
    # design-level self-test: the code-shaped deviation must produce a counterexample in the model
    dev = tlc.run('MC_Fits', cfg_text=CFG.format(pool='PoolTiny', maxlen=1, dev='CodeDev'), tag='c12dev')
    ctx.tlc(dev, 'MC_Fits with deviation BangBeforeMap (must violate RoundTrip)')
    if dev.violated != 'RoundTrip':
        raise tlc.TlcError(f'self-test: BangBeforeMap should violate RoundTrip in the model, got {dev.violated}')
    tlc.cleanup(dev.workdir)
    sc = tlc.workdir('c12fs')
    plans = [('PoolQuick', 2), ('PoolTiny', 3)] if quick else [('PoolQuick', 2), ('PoolSmall', 3)]
    try:
        for pool, maxlen in plans:
            res = tlc.run('MC_Fits', cfg_text=CFG.format(pool=pool, maxlen=maxlen, dev='NoDev'), dump=True, tag='c12', timeout=3000)
            ctx.tlc(res, f'MC_Fits lists of length <= {maxlen} over {pool}')
            if res.violated:
                ctx.violation(f'C12|model|{res.violated}', f'Fits.tla: invariant {res.violated} fails in the model', {'trace': res.trace[-1:]})
                tlc.cleanup(res.workdir)
                continue
            _CFG.update(sc=sc, light=quick)
            n = par.pmap_dump(ctx, _state_fn, res.dump_path, only='pc = "done"', stride=1)
            ctx.note(f'replayed_{pool}_{maxlen}', n)
            tlc.cleanup(res.workdir)
        other_notations(ctx)
        trace_validation(ctx, sc)
    finally:
        tlc.cleanup(sc)
    ctx.assumptions += ['numbers are multiples of 1/4 pixel / 1/4 degree (exact in FITS doubles); include flags {absent,T,F,0,1}; components {absent, given, partially given}']


def trace_validation(ctx, sc):
    """Random lists of 1..8 regions: the real table and the real parse are logged and validated by Trace_Fits."""
    from regions import Regions
    rnd = random.Random(ctx.seed * 59 + 12)
    n = 150 if ctx.tier == 'quick' else 3000
    events = []
    for k in range(n):
        items = []
        for _ in range(rnd.randint(1, 8)):
            cls = rnd.choice(['point', 'circle', 'ellipse', 'cannulus', 'eannulus', 'rectangle', 'polygon', 'polygon', 'regpoly4', 'line', 'sky'])
            if cls in ('line', 'sky'):
                items.append({'cls': cls})
                continue
            g = lambda lo, hi: 4 * rnd.randint(lo, hi) + rnd.choice([0, 0, 1, 2])  # noqa
            nv = rnd.randint(3, 6) if cls == 'polygon' else 1
            sizes = {'point': 0, 'circle': 1, 'ellipse': 2, 'cannulus': 2, 'eannulus': 4, 'rectangle': 2, 'polygon': 0, 'regpoly4': 1}[cls]
            r = sorted(2 * g(1, 20) for _ in range(sizes))
            if cls == 'eannulus':
                if r[0] < r[1] and r[2] < r[3] and rnd.random() < 0.5:       # tall and thin / wide and flat: all of one axis below all of the other
                    r = [r[0], r[1], r[2], r[3]] if rnd.random() < 0.5 else [r[2], r[3], r[0], r[1]]
                else:
                    r = [r[0], r[2], r[1], r[3]] if r[0] < r[2] and r[1] < r[3] else [8, 24, 4, 16]
            if cls == 'cannulus' and r[0] == r[1]:
                r[1] += 4
            xs, ys = [g(-50, 50) for _ in range(nv)], [g(-50, 50) for _ in range(nv)]
            if cls == 'regpoly4':        # r < 0.22 * centre, so that centre + r*cos(90 deg) etc. round to exactly the centre
                xs, ys = [g(60, 80)], [g(60, 80)]
                r = [2 * g(1, 5)]
            if cls == 'polygon' and rnd.random() < 0.4:      # axis-aligned edges: consecutive vertices share a coordinate
                for j in range(1, nv):
                    if j % 2:
                        ys[j] = ys[j - 1]
                    else:
                        xs[j] = xs[j - 1]
                if len({(a, b) for a, b in zip(xs, ys)}) < nv or (xs[-1], ys[-1]) == (xs[-2], ys[-2]):
                    xs, ys = ([0, 16, 16, 0] + [8, 4])[:nv], ([0, 0, 12, 12] + [20, 16])[:nv]        # no repeated trailing vertex (that is what padding looks like)
            items.append({'cls': cls, 'x': xs, 'y': ys, 'r': r,
                          'ang': g(-90, 90) if cls in ('ellipse', 'eannulus', 'rectangle') else 0,
                          'inc': rnd.choice(['absent', 'absent', 'T', 'F', '0', '1']), 'comp': rnd.choice([-1, -1, rnd.randint(0, 9), 0, rnd.choice([40000, 100234, 70000 + rnd.randint(0, 9)])])})
        try:
            with warnings.catch_warnings():
                warnings.simplefilter('ignore')
                lst = Regions([build(it) for it in items])
                tbl = lst.serialize(format='fits')
                rows = table_rows(tbl)
                back = [project(r) for r in Regions.parse(tbl, format='fits')]
        except Exception as ex:  # noqa
            comps = {it.get('comp', -1) for it in items if it['cls'] in SUPPORTED}
            compsig = 'none' if comps <= {-1} else ('all' if -1 not in comps else 'partial')
            ctx.violation(f'C12|trace|raises|{type(ex).__name__}|components-{compsig}', f'serialise/parse raised {ex!r}', {'items': items})
            continue
        for b in back:
            for kx in ('x', 'y', 'r'):
                b[kx] = [int(v) if v == int(v) else -999999 for v in b[kx]]
        events.append({'items': items, 'rows': rows, 'back': back})
    wd = tlc.workdir('c12trace')
    path = os.path.join(wd, 'events.json')
    with open(path, 'w') as f:
        json.dump(events, f)
    res = tlc.run('Trace_Fits', cfg='Trace_Fits.cfg', dump=True, env={'TRACE_FILE': path}, tag='c12trace')
    ctx.tlc(res, 'Trace_Fits validation of recorded serialise/parse calls')
    seen = 0
    for st in res.states():
        seen += 1
        e = events[st['i'] - 1]
        ctx.case(('trace', json.dumps(e['items'], sort_keys=True)), True)
        if st['verdict'] != 'ok':
            ctx.violation(f"C12|trace|{st['verdict']}", f"recorded call rejected by Trace_Fits: {st['verdict']}", e)
    if seen != len(events):
        raise tlc.TlcError('Trace_Fits verdict count mismatch')
    ctx.traces += seen
    ctx.note('trace_events_validated', seen)
    tlc.cleanup(res.workdir)
    tlc.cleanup(wd)
