"""C01 — point membership equals the geometric definition.

(A) TLC checks MC_Geometry (annulus-as-xor = outer minus inner, equivariance under translation
    and scaling) on families of lattice shapes with all 44 rational directions.
(B) every returning 'contains' state is replayed into the real region classes under an exact
    embedding (power-of-two scale 2^-30..2^30, integer translation to 1e4, angle unit and
    winding variants); answers compared exactly except where the model says EDGE; result shape
    and type compared for N-D, 0-length and scalar queries, int and float dtypes.
(C) random lattice shapes outside the families, with random query points, are run through the
    real classes and the recorded answers validated by Trace_Geometry.tla.
"""
import json
import math
import os
import random

import numpy as np

from .. import geom, geomgen, tlc
from ..tlaparse import parse_dump

CFG = """SPECIFICATION Spec
CONSTANTS Family <- {fam}
 Ops <- {ops}
 WLo <- {wlo}
 WHi = {whi}
 SubN <- {subn}
 Pivots <- {piv}
 RotDirs <- {dirs}
{invs}
CHECK_DEADLOCK FALSE
"""
NEG = {-1: 'M1', -2: 'M2', -4: 'M4', -8: 'M8', -10: 'M10', -12: 'M12', -14: 'M14', -16: 'M16', -20: 'M20'}
RESHAPES = ['flat', '2d', '3d', 'transposed', 'reversed', '2d', 'flat']


def cfg(fam, ops, wlo, whi, invs, subn='N1', piv='PivQuick', dirs='DirsQuick'):
    return CFG.format(fam=fam, ops=ops, wlo=NEG[wlo], whi=whi, subn=subn, piv=piv, dirs=dirs,
                      invs='\n'.join(f'INVARIANT {i}' for i in invs))


def pick_frame(rnd, U, want_int=False):
    k = rnd.choice([0, 0, 1, 3, -3, 10, -10, 20, -20, 30, -30])
    if want_int:
        k = rnd.choice([1, 2, 5, 12])
    scale = 2.0 ** k
    if k >= 0:
        t = rnd.choice([0, 0, 1, -7, 1000, -10000, 4096])
        if k <= 1 and rnd.random() < 0.25:
            t = rnd.choice([10 ** 6, -3 * 10 ** 6, 2 ** 24])        # a small shape very far from the origin (still exact in doubles)
    else:
        t = rnd.choice([0, 0, 1, -7]) * 1.0
    return geom.Frame(U, scale, float(t), float(-t if rnd.random() < 0.5 else t // 3), rnd.randint(0, 5), ints=want_int)


def query(region, xs, ys, how):
    from regions import PixCoord
    n = len(xs)
    if how == 'transposed' and n % 5 == 0:
        # a non-contiguous 2-D query (transposed view); answers are brought back to the model's order
        pc = PixCoord(xs.reshape(n // 5, 5).T, ys.reshape(n // 5, 5).T)
        out = region.contains(pc)
        if isinstance(out, np.ndarray) and out.shape == (5, n // 5):
            return np.ascontiguousarray(out.T), (n // 5, 5)
        return out, (5, n // 5)
    if how == 'reversed':
        pc = PixCoord(xs[::-1], ys[::-1])          # negative strides
        out = region.contains(pc)
        return (out[::-1].copy() if isinstance(out, np.ndarray) and out.shape == (n,) else out), (n,)
    if how == '2d' and n % 5 == 0:
        shp = (5, n // 5)
    elif how == '3d' and n % 25 == 0:
        shp = (5, 5, n // 25)
    else:
        shp = (n,)
    pc = PixCoord(xs.reshape(shp), ys.reshape(shp))
    out = region.contains(pc)
    return out, shp


def check_result_form(ctx, out, shp, s, what, pid='C01'):
    ok = isinstance(out, np.ndarray) and out.dtype == np.bool_ and out.shape == shp
    if not ok:
        form = f'{type(out).__name__}{getattr(out, "shape", "")}{getattr(out, "dtype", "")}'
        ctx.violation(f"{pid}|form|{s['k']}|{what}", f'contains({what} query of shape {shp}) returned {form}',
                      {'shape': s, 'query_shape': list(shp), 'returned': form})
    return ok


def scalar_form_ok(out):
    """A plain bool for a scalar: python bool or 0-d numpy bool_."""
    if isinstance(out, (bool, np.bool_)):
        return True
    return isinstance(out, np.ndarray) and out.shape == () and out.dtype == np.bool_


def replay_state(ctx, rnd, s, win, wlo, whi, idx, pid='C01'):
    from regions import PixCoord
    U = 2
    xs_u, ys_u = geom.window(wlo, whi)
    want_int = (idx % 7 == 3)
    fr = pick_frame(rnd, U, want_int)
    try:
        if idx % 4 == 1 and s.get('inc') == 'absent' and s['k'] != 'compound':
            # a region of the same class built without meta / visual, whose meta the caller then edits (an include flag, a label): regions
            # built afterwards without meta are regions of their own, they share no default object with it
            sib = geom.build(s, fr)
            sib.meta['include'] = False
            sib.visual['color'] = 'red'
        if idx % 5 == 2:
            # the region is first built with other parameters, queried once, then assigned the wanted ones
            from regions import PixCoord as _PC
            region = geom.build_via_assign(s, fr, lambda r: r.contains(_PC(np.array([0.5, 2.0]), np.array([1.0, -3.0]))))
        else:
            region = geom.build(s, fr)
    except Exception as ex:  # the model only proposes valid shapes
        ctx.violation(f"{pid}|build|{s['k']}|{type(ex).__name__}", f'constructing a valid {s["k"]} raised {ex!r}', {'shape': s})
        return
    xs = xs_u / U * fr.scale + fr.tx
    ys = ys_u / U * fr.scale + fr.ty
    if want_int:
        xi, yi = xs.astype(np.int64), ys.astype(np.int64)
        if np.array_equal(xi, xs) and np.array_equal(yi, ys):
            # the smallest integer type that holds the coordinates (products of such values must not wrap around)
            big = max(int(np.abs(xi).max()), int(np.abs(yi).max()))
            it = np.int16 if big < 2 ** 15 else (np.int32 if big < 2 ** 31 else np.int64)
            if idx % 2 == 1 and int(xi.min()) >= 0 and int(yi.min()) >= 0:
                # unsigned coordinates (as read from an image header or a catalogue column): a position left of or
                # below the centre has a negative offset, which the unsigned type cannot hold
                it = np.uint16 if big < 2 ** 15 else (np.uint32 if big < 2 ** 31 else np.uint64)
            xs, ys = xi.astype(it), yi.astype(it)
    how = RESHAPES[idx % len(RESHAPES)]
    model = np.asarray(win)
    try:
        out, shp = query(region, xs, ys, how)
    except Exception as ex:
        ctx.violation(f"{pid}|contains|{s['k']}|{type(ex).__name__}", f'contains raised {ex!r}', {'shape': s})
        return
    if not check_result_form(ctx, out, shp, s, f'{how}-{xs.dtype}', pid):
        return
    real = out.reshape(-1).astype(int)
    care = model != 2
    ctx.dontcare += int((~care).sum())
    bad = np.nonzero(care & (real != model))[0]
    key = geom.shape_key(s)
    ctx.case(('contains', key), geom.nontrivial_answers(model))
    if len(bad):
        i = int(bad[0])
        ctx.violation(f"{pid}|member|{kind_sig(s)}", f'{len(bad)} of {int(care.sum())} window points answered differently from the exact model',
                      {'shape': s, 'frame': vars(fr), 'first_bad_point_units': [int(xs_u[i]), int(ys_u[i])],
                       'model': int(model[i]), 'real': int(real[i])})
    elif idx % 997 == 0:
        ctx.sample({'shape': s, 'frame': vars(fr), 'members': int((model == 1).sum()), 'edge': int((~care).sum())})
    # scalar and 0-length queries
    if idx % 3 == 0:
        js = [j for j in rnd.sample(range(len(model)), 6) if model[j] != 2][:3]
        for j in js:
            pc = PixCoord(xs[j], ys[j]) if idx % 2 else PixCoord(float(xs[j]), float(ys[j]))
            try:
                o1 = region.contains(pc)
                o2 = pc in region
            except Exception as ex:
                ctx.violation(f"{pid}|scalar|{s['k']}|{type(ex).__name__}", f'scalar contains raised {ex!r}', {'shape': s})
                break
            ctx.case(None, False)
            if not scalar_form_ok(o1):
                ctx.violation(f"{pid}|form|{s['k']}|scalar", f'contains(scalar) returned {type(o1).__name__} of shape {getattr(o1, "shape", None)}, not a plain bool',
                              {'shape': s, 'returned_shape': list(getattr(o1, 'shape', []))})
                break
            if bool(np.all(o1)) != bool(model[j]) or bool(o2) != bool(model[j]):
                ctx.violation(f"{pid}|member-scalar|{kind_sig(s)}", 'scalar query answered differently from the exact model',
                              {'shape': s, 'frame': vars(fr), 'point_units': [int(xs_u[j]), int(ys_u[j])], 'model': int(model[j])})
                break
        # an array that holds exactly one position is still an array: the answer has its shape ((1,), (1, 1), (1, 1, 1)), it is not a scalar
        for j in js[:1]:
            shp1 = [(1,), (1, 1), (1, 1, 1)][(idx // 3) % 3]
            try:
                o1 = region.contains(PixCoord(np.asarray(xs[j:j + 1]).reshape(shp1), np.asarray(ys[j:j + 1]).reshape(shp1)))
            except Exception as ex:
                ctx.violation(f"{pid}|contains|{s['k']}|{type(ex).__name__}", f'contains of a one-element array raised {ex!r}', {'shape': s})
                break
            if not (isinstance(o1, np.ndarray) and o1.shape == shp1 and o1.dtype == np.bool_):
                ctx.violation(f"{pid}|form|{s['k']}|one-element", f'contains(array of shape {shp1}) returned {type(o1).__name__} of shape {getattr(o1, "shape", None)}',
                              {'shape': s, 'query_shape': list(shp1)})
            elif bool(o1.reshape(-1)[0]) != bool(model[j]):
                ctx.violation(f"{pid}|member|{kind_sig(s)}", 'one-element array query answered differently from the exact model',
                              {'shape': s, 'frame': vars(fr), 'point_units': [int(xs_u[j]), int(ys_u[j])], 'model': int(model[j])})
        try:
            o0 = region.contains(PixCoord(np.zeros((0,)), np.zeros((0,))))
            if not (isinstance(o0, np.ndarray) and o0.shape == (0,)):
                ctx.violation(f"{pid}|form|{s['k']}|empty", f'contains(0-length) returned shape {getattr(o0, "shape", None)}', {'shape': s})
        except Exception as ex:
            ctx.violation(f"{pid}|form|{s['k']}|empty", f'contains(0-length) raised {ex!r}', {'shape': s})


def replay_to_polygon(ctx, rnd, st, wlo, whi, idx, pid='C01'):
    """RectanglePixelRegion.corners / to_polygon() against Geometry!Corners2h / ToPolygon2h."""
    s, res = st['shape'], st['res']
    U = 2
    fr = pick_frame(rnd, U)
    try:
        region = geom.build(s, fr)
        if idx % 3 == 1 and float(region.width) == int(region.width) and float(region.height) == int(region.height) and max(region.width, region.height) < 250:
            # whole-number sizes handed over as unsigned numpy integers (a size read from an image header): still the same rectangle
            region = type(region)(region.center, np.uint8(region.width), np.uint16(region.height), angle=region.angle, meta=region.meta.copy(), visual=region.visual.copy())
        region.meta['label'] = 'kept'
        region.visual['color'] = 'red'
        poly = region.to_polygon()
        corners = np.asarray(region.corners, dtype=float)
    except Exception as ex:  # noqa
        ctx.violation(f'{pid}|to_polygon|raises|{type(ex).__name__}', f'to_polygon / corners raised {ex!r}', {'shape': s})
        return
    m = float(res['scale'] * U)
    want = np.array([[v[0] / m * fr.scale + fr.tx, v[1] / m * fr.scale + fr.ty] for v in res['poly']['vs']])
    tol = 1e-9 * (abs(fr.scale) * 40 + abs(fr.tx) + abs(fr.ty))
    got = np.column_stack([np.atleast_1d(poly.vertices.x), np.atleast_1d(poly.vertices.y)]) if type(poly).__name__ == 'PolygonPixelRegion' else None
    ctx.case(('to_polygon', geom.shape_key(s)), True)
    case = {'shape': s, 'frame': vars(fr), 'model_corners': want.tolist(), 'corners': corners.tolist()}
    if got is None or got.shape != (4, 2) or np.abs(got - want).max() > tol or corners.shape != (4, 2) or np.abs(corners - want).max() > tol:
        ctx.violation(f'{pid}|to_polygon|corners', 'corners / to_polygon().vertices are not the rotated corners of the rectangle (in the documented order)',
                      dict(case, polygon=None if got is None else got.tolist()))
        return
    if dict(poly.meta) != dict(region.meta) or dict(poly.visual) != dict(region.visual) or poly.meta is region.meta or poly.visual is region.visual:
        ctx.violation(f'{pid}|to_polygon|meta', 'to_polygon() does not carry an independent copy of meta/visual', case)
        return
    xs_u, ys_u = geom.window(wlo, whi)
    xs = xs_u / U * fr.scale + fr.tx
    ys = ys_u / U * fr.scale + fr.ty
    out, shp = query(poly, xs, ys, RESHAPES[idx % len(RESHAPES)])
    if not check_result_form(ctx, out, shp, s, 'to_polygon', pid):
        return
    model = np.asarray(res['win'])
    real = out.reshape(-1).astype(int)
    care = model != 2
    bad = np.nonzero(care & (real != model))[0]
    if len(bad):
        i = int(bad[0])
        ctx.violation(f'{pid}|to_polygon|member', f'to_polygon() of a rectangle answers {len(bad)} window points differently from the rectangle',
                      dict(case, first_bad_point_units=[int(xs_u[i]), int(ys_u[i])], model=int(model[i]), real=int(real[i])))


def kind_sig(s):
    if s['k'] == 'compound':
        return f"compound-{s['op']}"
    return s['k']


_P = {}


def _st_contains(rec, st, j):
    idx = _P['base'] + j
    rnd = random.Random(_P['seed'] + 7919 * idx)
    rec.traces += 1
    replay_state(rec, rnd, st['shape'], st['res']['win'], _P['wlo'], _P['whi'], idx)


def _st_to_polygon(rec, st, j):
    rnd = random.Random(_P['seed'] + 7919 * j)
    rec.traces += 1
    replay_to_polygon(rec, rnd, st, -12, 12, j)


def regular_polygons(ctx, rnd):
    """RegPoly.tla: vertex k of a regular n-gon lies at distance r from the centre in the direction 90 + a + 360 k / n degrees (exact, in
    units of 1/n degree); the region answers membership as the n-gon with those vertices (half-plane definition, computed here
    independently of the library's polygon code)."""
    import astropy.units as u
    from regions import PixCoord, RegularPolygonPixelRegion
    res = tlc.run('RegPoly', cfg='RegPoly.cfg', dump=True, tag='c01rp')
    ctx.tlc(res, 'RegPoly: vertex directions of regular polygons, n-fold symmetry')
    if res.violated:
        ctx.violation(f'C01|model|{res.violated}', f'RegPoly.tla: invariant {res.violated} fails in the model', {'trace': res.trace})
        tlc.cleanup(res.workdir)
        return
    n_st = 0
    for st in parse_dump(res.dump_path, only='pc = "ret"'):
        n, a, vs = st['n'], st['a'], list(st['vs'])
        n_st += 1
        cx, cy = rnd.choice([(0.0, 0.0), (12.5, -3.25), (1000.0, 77.0)])
        r = rnd.choice([1.0, 4.0, 7.5, 0.25])
        ang = [a * u.deg, math.radians(a) * u.rad, (a * 60.0) * u.arcmin][n_st % 3]
        case = {'nvertices': n, 'angle_deg': a, 'centre': [cx, cy], 'radius': r, 'angle_given_as': str(ang.unit)}
        ctx.case(('regpoly', n, a), True)
        try:
            reg = RegularPolygonPixelRegion(PixCoord(cx, cy), n, r, angle=ang)
            vx, vy = np.asarray(reg.vertices.x, dtype=float), np.asarray(reg.vertices.y, dtype=float)
        except Exception as ex:  # noqa
            ctx.violation(f'C01|regpoly|raises|{type(ex).__name__}', f'constructing a regular {n}-gon raised {ex!r}', case)
            continue
        want = np.radians(np.array(vs, dtype=float) / n)
        wx, wy = cx + r * np.cos(want), cy + r * np.sin(want)
        if len(vx) != n or not (np.allclose(vx, wx, rtol=0, atol=1e-9 * max(r, 1.0) + 1e-12 * abs(cx)) and np.allclose(vy, wy, rtol=0, atol=1e-9 * max(r, 1.0) + 1e-12 * abs(cy))):
            ctx.violation('C01|regpoly|vertices', f'the vertices of a regular {n}-gon rotated by {a} deg are not at 90 + a + 360 k / n degrees on the circumcircle',
                          dict(case, real=[vx.tolist(), vy.tolist()], model_directions_deg=[v / n for v in vs]))
            continue
        # membership on a grid over the circumscribed square: inside iff on the inner side of all n edges (edge normals half a step from the vertices)
        g = np.linspace(-1.2, 1.2, 41)
        gx, gy = [v.ravel() for v in np.meshgrid(g * r, g * r)]
        nrm = np.radians((np.array(vs, dtype=float) + 180.0) / n)
        dist = np.max(np.outer(gx, np.cos(nrm)) + np.outer(gy, np.sin(nrm)), axis=1) - r * math.cos(math.pi / n)
        care = np.abs(dist) > 1e-9 * r
        try:
            got = np.asarray(reg.contains(PixCoord(gx + cx, gy + cy)))
        except Exception as ex:  # noqa
            ctx.violation(f'C01|regpoly|contains|{type(ex).__name__}', f'contains raised {ex!r}', case)
            continue
        ctx.dontcare += int((~care).sum())
        bad = care & (got != (dist < 0))
        if bad.any():
            i = int(np.nonzero(bad)[0][0])
            ctx.violation('C01|regpoly|member', f'{int(bad.sum())} of {int(care.sum())} positions answered differently from the regular {n}-gon',
                          dict(case, position=[float(gx[i] + cx), float(gy[i] + cy)], says=bool(got[i])))
    ctx.traces += n_st
    ctx.note('regular_polygon_states', n_st)
    tlc.cleanup(res.workdir)


def run(ctx):
    quick = ctx.tier == 'quick'
    rnd = random.Random(ctx.seed * 1000003 + 1)
    runs = [('FamSimple', -12, 12, ['InvAnnulusXor', 'InvEquivariant', 'InvComplement']),
            ('FamCompound', -14, 20, [] if quick else ['InvEquivariant'])]
    idx = 0
    for fam, wlo, whi, invs in runs:
        res = tlc.run('MC_Geometry', cfg_text=cfg(fam, 'OpsContains', wlo, whi, invs), dump=True, coverage=True, tag='c01')
        ctx.tlc(res, f'MC_Geometry contains {fam} window {wlo}..{whi}')
        if res.violated:
            ctx.violation(f'C01|model|{res.violated}', f'Geometry.tla: invariant {res.violated} fails in the model', {'trace': res.trace})
            tlc.cleanup(res.workdir)
            continue
        from .. import par
        _P.update(seed=ctx.seed * 1000003 + 1, wlo=wlo, whi=whi, base=idx)
        before = ctx.traces
        n = par.pmap_dump(ctx, _st_contains, res.dump_path, only='pc = "ret"')
        idx += n
        n = ctx.traces - before
        ctx.note(f'replayed_{fam}', n)
        tlc.cleanup(res.workdir)
    res = tlc.run('MC_Geometry', cfg_text=cfg('FamRectangles', 'OpsToPolygon', -12, 12, ['InvToPolygon']), dump=True, tag='c01tp')
    ctx.tlc(res, 'MC_Geometry to_polygon / corners of every rectangle (InvToPolygon)')
    if res.violated:
        ctx.violation(f'C01|model|{res.violated}', f'Geometry.tla: invariant {res.violated} fails in the model', {'trace': res.trace})
    else:
        from .. import par
        _P.update(seed=ctx.seed * 1000003 + 77)
        before = ctx.traces
        par.pmap_dump(ctx, _st_to_polygon, res.dump_path, only='pc = "ret"')
        n = ctx.traces - before
        ctx.note('replayed_to_polygon', n)
    tlc.cleanup(res.workdir)
    regular_polygons(ctx, rnd)
    trace_validation(ctx, rnd)
    ctx.assumptions += ['rotation angles are the 44 rational directions; sizes and centres dyadic',
                        'EDGE points (exact equality or within 2^-20 relative) are not compared']


def trace_validation(ctx, rnd):
    n = 1500 if ctx.tier == 'quick' else 25000
    U = 2
    events = []
    for i in range(n):
        if rnd.random() < 0.6:
            s = geomgen.simple(rnd)
        else:
            s = geomgen.compound(rnd, rnd.randint(1, 3), kinds=geomgen.MASKABLE + ['point', 'line'])
        npts = 40
        pts = [[rnd.randint(-16, 16), rnd.randint(-16, 16)] for _ in range(npts)]
        fr = pick_frame(rnd, U)
        try:
            region = geom.build(s, fr)
            xs = np.array([p[0] for p in pts]) / U * fr.scale + fr.tx
            ys = np.array([p[1] for p in pts]) / U * fr.scale + fr.ty
            from regions import PixCoord
            out = region.contains(PixCoord(xs, ys))
            ans = [int(v) for v in np.asarray(out).reshape(-1)]
            if len(ans) != npts:
                raise ValueError(f'result length {len(ans)}')
        except Exception as ex:
            ctx.violation(f"C01|trace|{s['k']}|{type(ex).__name__}", f'contains raised {ex!r} on a valid region', {'shape': s})
            continue
        events.append({'ev': 'contains', 'shape': s, 'pts': pts, 'ans': ans, 'frame': vars(fr)})
    validate_events(ctx, events, 'C01')


def validate_events(ctx, events, pid, sigfn=None):
    """Run Trace_Geometry on events; register verdicts."""
    wd = tlc.workdir(pid.lower() + 'trace')
    path = os.path.join(wd, 'events.json')
    with open(path, 'w') as f:
        json.dump([{k: v for k, v in e.items() if k not in ('frame', 'extra')} for e in events], f)
    res = tlc.run('Trace_Geometry', cfg='Trace_Geometry.cfg', dump=True, env={'TRACE_FILE': path}, tag=pid.lower() + 'trace')
    ctx.tlc(res, f'Trace_Geometry validation of {len(events)} recorded calls')
    seen = 0
    for st in parse_dump(res.dump_path):
        seen += 1
        e = events[st['i'] - 1]
        ctx.dontcare += st['edges']
        ctx.case((e['ev'], json.dumps(e['shape'], sort_keys=True), json.dumps(e.get('pts', e.get('n', 0)))),
                 e['ev'] != 'contains' or (0 < sum(e['ans']) < len(e['ans'])))
        if st['verdict'] != 'ok':
            sig = sigfn(e, st) if sigfn else f"{pid}|trace|{st['verdict']}|{kind_sig(e['shape'])}"
            ctx.violation(sig, f"recorded call rejected by Trace_Geometry: {st['verdict']} (first at index {st['at']})", e)
    if seen != len(events):
        raise tlc.TlcError(f'Trace_Geometry produced {seen} verdicts for {len(events)} events')
    ctx.traces += seen
    ctx.note('trace_events_validated', ctx.notes.get('trace_events_validated', 0) + seen)
    if events:
        ctx.sample({'trace_event': {k: v for k, v in events[0].items() if k != 'pts'}})
    tlc.cleanup(res.workdir)
    tlc.cleanup(wd)
