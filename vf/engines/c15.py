"""C15 — membership, area, boxes and masks follow the region under rigid motions.

(A) TLC: MC_Geometry 'rotate': Member(Rotate(r), Rot(p)) = Member(r, p), area preserved
    (InvRotate), rotating back restores membership (InvRotateBack); boxes and masks translate
    with the shape (InvBoxTranslates, InvMaskTranslates).
(B) each returning 'rotate' state is replayed into the real rotate(): class/meta/visual kept,
    parameters equal to the model's rotated shape to 1e-9, area equal, membership at the rotated
    lattice points equal to the original answers (non-EDGE), rotate-back restores the parameters,
    the original object bit-for-bit unchanged.  Translation: dyadic regions shifted by whole
    pixels up to 1e4: box shifted exactly, mask.data bitwise equal in centre, sub-pixel and exact
    modes (where the model marks no aligned extreme).
(C) random shapes/pivots/directions outside the families, through Trace_Geometry.
"""
import math
import random

import numpy as np

from .. import geom, geomgen, tlc
from ..tlaparse import parse_dump
from .c01 import cfg, kind_sig, validate_events
from .c04 import exact_dirs


def rot_point(p, pivot, e):
    return (pivot[0] * e[2] + e[0] * (p[0] - pivot[0]) - e[1] * (p[1] - pivot[1]),
            pivot[1] * e[2] + e[1] * (p[0] - pivot[0]) + e[0] * (p[1] - pivot[1]))


def rot_angle(e, variant):
    import astropy.units as u
    from astropy.coordinates import Angle
    a = math.atan2(e[1], e[0])
    v = variant % 5
    if v == 0:
        return Angle(a, 'rad')
    if v == 1:
        return Angle(math.degrees(a), 'deg')
    if v == 2:
        return (a + 2 * math.pi) * u.rad
    if v == 3:
        return (math.degrees(a) - 720.0) * u.deg
    return (math.degrees(a) * 3600.0) * u.arcsec


def area_value(a, U):
    """Symbolic <<a, b, den>> in square units -> float square pixels."""
    return (a[0] * math.pi / 4 + a[1]) / a[2] / (U * U)


def replay_rotate(ctx, rnd, st, wlo, whi, idx, pid='C15'):
    from regions import PixCoord
    s, (pivot, e), m = st['shape'], st['arg'], st['res']
    U = 2
    k = rnd.choice([0, 0, 2, -4, 9])
    scale = 2.0 ** k
    t = rnd.choice([0, 0, 5, -300])
    if k == 0 and rnd.random() < (0.6 if s['k'] == 'polygon' else 0.3):
        t = rnd.choice([300000, -2 ** 20, 2 ** 23])        # far from the origin: the pivot is then 'close' to the centre in relative terms only
    fr = geom.Frame(U, scale, float(t), float(-2 * t), rnd.randint(0, 5), ints=(idx % 5 == 3 and k == 0))
    fr2 = geom.Frame(U * e[2], scale, fr.tx, fr.ty, 0)
    try:
        region = geom.build(s, fr)
        region.visual['color'] = 'red'
        if s['k'] != 'compound' or s.get('via') == 'ctor':
            region.meta['label'] = 'keep me'
        before = geom.fingerprint(region)
        centre = PixCoord(fr.x(pivot[0]), fr.y(pivot[1]))
        ang = rot_angle(e, idx)
        rot = region.rotate(centre, ang)
    except Exception as ex:
        ctx.violation(f"{pid}|rotate|{kind_sig(s)}|{type(ex).__name__}", f'rotate raised {ex!r}', {'shape': s, 'pivot': pivot, 'dir': e})
        return
    case = {'shape': s, 'pivot_units': pivot, 'dir': e, 'frame': vars(fr)}
    ctx.case(('rotate', geom.shape_key(s), tuple(pivot), tuple(e)), geom.nontrivial_answers(m['win']) or s['k'] in ('point', 'line', 'text'))
    if geom.fingerprint(region) != before:
        ctx.violation(f'{pid}|mutated|{kind_sig(s)}', 'rotate modified the original region', case)
        return
    if type(rot) is not type(region):
        ctx.violation(f'{pid}|class|{kind_sig(s)}', f'rotate returned {type(rot).__name__}', case)
        return
    if dict(rot.meta) != dict(region.meta) or dict(rot.visual) != dict(region.visual):
        ctx.violation(f'{pid}|meta|{kind_sig(s)}', 'rotate changed meta/visual', case)
        return
    why = geom.params_close(geom.project(rot), geom.expected(m['rot'], fr2), 1e-9, scale=max(scale, abs(fr.tx), abs(fr.ty), 1.0) * 20)
    if why:
        ctx.violation(f'{pid}|params|{kind_sig(s)}', f'rotated parameters differ from the model: {why}', case)
        return
    if s['k'] != 'compound':
        want = area_value(m['area'], U) * scale * scale
        got = float(rot.area)
        tol = 1e-12 * max(want, (30.0 * scale) ** 2)     # self-intersecting polygons have zero signed area
        if s['k'] == 'polygon':
            # far from the origin a rotated vertex is only known to about 2 eps M (M the largest coordinate): the area of the rotated polygon
            # can differ by the perimeter times that - a bound derived from the rounding of the coordinates alone, whatever way the area
            # is summed (an area summed on absolute coordinates would be off by the order of eps M^2 instead)
            M = max(abs(fr.tx), abs(fr.ty)) + 40.0 * scale
            vx, vy = np.asarray(region.vertices.x, dtype=float), np.asarray(region.vertices.y, dtype=float)
            perim = float(np.hypot(np.diff(np.append(vx, vx[0])), np.diff(np.append(vy, vy[0]))).sum())
            tol = max(tol, 4 * perim * 2.3e-16 * M)
        if abs(got - want) > tol or abs(got - float(region.area)) > tol:
            ctx.violation(f'{pid}|area|{kind_sig(s)}', f'area after rotation {got!r}, before {float(region.area)!r}, model {want!r}', case)
            return
    # membership at rotated lattice points
    xs_u, ys_u = geom.window(wlo, whi)
    rx = np.empty(len(xs_u))
    ry = np.empty(len(xs_u))
    for i in range(len(xs_u)):
        a, b = rot_point((int(xs_u[i]), int(ys_u[i])), pivot, e)
        rx[i], ry[i] = a, b
    px = rx / (U * e[2]) * scale + fr.tx
    py = ry / (U * e[2]) * scale + fr.ty
    out = np.asarray(rot.contains(PixCoord(px, py))).reshape(-1).astype(int)
    model = np.asarray(m['win'])
    care = model != 2
    ctx.dontcare += int((~care).sum())
    bad = np.nonzero(care & (out != model))[0]
    if len(bad):
        i = int(bad[0])
        case.update(point_units=[int(xs_u[i]), int(ys_u[i])], model=int(model[i]), real=int(out[i]))
        ctx.violation(f'{pid}|member|{kind_sig(s)}', f'{len(bad)} rotated positions answered differently from the original positions', case)
        return
    # rotate back
    try:
        back = rot.rotate(centre, -ang)
    except Exception as ex:
        ctx.violation(f"{pid}|rotate-back|{kind_sig(s)}|{type(ex).__name__}", f'rotate back raised {ex!r}', case)
        return
    want0 = geom.expected(s, fr)
    for sub in _walk(want0):
        sub.pop('dir', None)
    why = geom.params_close(geom.project(back), want0, 1e-9, scale=max(scale, abs(fr.tx), abs(fr.ty), 1.0) * 20)
    if why is None and hasattr(region, 'angle'):
        d = (float(back.angle.to_value('rad')) - float(region.angle.to_value('rad')))
        if abs(math.remainder(d, 2 * math.pi)) > 1e-9:
            why = f'angle differs by {d} rad'
    if why:
        ctx.violation(f'{pid}|back|{kind_sig(s)}', f'rotating back does not restore the parameters: {why}', case)
    elif idx % 701 == 0:
        ctx.sample({'shape': s, 'pivot_units': pivot, 'dir': e, 'rotated_model': m['rot']})


def _walk(d):
    yield d
    if d.get('k') == 'compound':
        yield from _walk(d['a'])
        yield from _walk(d['b'])


def translation_checks(ctx, rnd):
    """Integer translations of dyadic regions: box shifts exactly, mask arrays bitwise equal."""
    n = 400 if ctx.tier == 'quick' else 6000
    done = 0
    for i in range(n):
        U = rnd.choice([2, 4, 8])
        kinds = ['circle', 'ellipse', 'rectangle', 'polygon', 'cannulus', 'eannulus', 'rannulus', 'point', 'text', 'line']
        if rnd.random() < 0.8:
            s = geomgen.simple(rnd, kinds, cmax=2 * U, smax=6 * U)
        else:
            s = geomgen.compound(rnd, 2, cmax=2 * U, smax=6 * U)
        tx, ty = rnd.choice([(1, 0), (-3, 7), (10000, -10000), (4097, 123), (-9999, 1)])
        av = rnd.randint(0, 5)
        a = geom.build(s, geom.Frame(U, 1.0, 0.0, 0.0, av))
        b = geom.build(s, geom.Frame(U, 1.0, float(tx), float(ty), av))
        if i % 2:
            # translated in place: the same object, already used at the old position, is assigned the new parameters
            moved = geom.build(s, geom.Frame(U, 1.0, 0.0, 0.0, av))
            try:
                _ = (moved.bounding_box, moved.to_mask(mode='center') if s['k'] not in ('point', 'text', 'line') else None)
            except Exception as ex:  # noqa
                ctx.violation(f'C15|translate-mask|{kind_sig(s)}|center|{type(ex).__name__}', f'to_mask raised {ex!r}', {'shape': s, 'U': U, 'angle_variant': av})
                continue
            geom._assign_from(moved, b)
            b = moved
        ba, bb = a.bounding_box, b.bounding_box
        ctx.case(('translate', geom.shape_key(s), U, tx, ty), True)
        boxes_ok = [bb.ixmin, bb.ixmax, bb.iymin, bb.iymax] == [ba.ixmin + tx, ba.ixmax + tx, ba.iymin + ty, ba.iymax + ty]
        if not boxes_ok:
            # an extreme exactly on a pixel edge computed through cos/sin may round either way once t is added
            events_aligned.append({'ev': 'bbox', 'shape': s, 'U': U, 'box': [ba.ixmin, ba.ixmax, ba.iymin, ba.iymax],
                                   'exact': exact_dirs(s, av), 'extra': {'t': [tx, ty], 'boxb': [bb.ixmin, bb.ixmax, bb.iymin, bb.iymax]}})
            continue
        modes = [('center', 1)] if s['k'] not in ('point', 'text', 'line') else []       # points, lines and text have a box but no mask
        if s['k'] in ('circle', 'ellipse', 'rectangle', 'polygon'):
            modes += [('subpixels', rnd.choice([2, 3, 4, 5, 7, 8, 12]))]
        if s['k'] in ('circle', 'ellipse'):
            modes += [('exact', 1)]
        for mode, sub in modes:
            try:
                ma = a.to_mask(mode=mode, subpixels=sub)
                mb = b.to_mask(mode=mode, subpixels=sub)
            except Exception as ex:  # noqa
                ctx.violation(f'C15|translate-mask|{kind_sig(s)}|{mode}|{type(ex).__name__}', f'to_mask raised {ex!r} for the region or its translate by ({tx}, {ty})',
                              {'shape': s, 'U': U, 'translation': [tx, ty], 'mode': mode, 'subpixels': sub, 'angle_variant': av})
                continue
            same = ma.data.shape == mb.data.shape and np.array_equal(ma.data, mb.data, equal_nan=True)
            if not same and mode == 'subpixels' and s['k'] == 'polygon':
                # polygon kernels sample in absolute coordinates: only samples exactly on an edge may flip
                events_polyedge.append((s, U, sub, ma, mb, tx, ty))
                continue
            if not same:
                diff = int((ma.data != mb.data).sum()) if ma.data.shape == mb.data.shape else -1
                ctx.violation(f'C15|translate-mask|{kind_sig(s)}|{mode}',
                              f'mask array changes under translation by ({tx}, {ty}) whole pixels ({diff} pixel(s) differ)',
                              {'shape': s, 'U': U, 'translation': [tx, ty], 'mode': mode, 'subpixels': sub, 'angle_variant': av})
        done += 1
    ctx.traces += done
    ctx.note('translation_cases', done)


events_aligned = []
events_polyedge = []


def run(ctx):
    quick = ctx.tier == 'quick'
    rnd = random.Random(ctx.seed * 1000003 + 15)
    del events_aligned[:], events_polyedge[:]
    plans = [('FamSimple', -10, 10, 'PivOne', 'DirsThree'), ('FamPairs', -12, 14, 'PivOne', 'DirsThree')]
    if not quick:
        plans = [('FamSimple', -10, 10, 'PivAll', 'DirsSmall'), ('FamCompound', -12, 16, 'PivQuick', 'DirsQuick')]
    idx = 0
    for fam, wlo, whi, piv, dirs in plans:
        stride = 1
        res = tlc.run('MC_Geometry', cfg_text=cfg(fam, 'OpsRotate', wlo, whi, ['InvRotate', 'InvRotateBack'], piv=piv, dirs=dirs),
                      dump=True, coverage=True, tag='c15', timeout=3000)
        ctx.tlc(res, f'MC_Geometry rotate {fam} pivots {piv} directions {dirs}')
        if res.violated:
            ctx.violation(f'C15|model|{res.violated}', f'Geometry.tla: invariant {res.violated} fails in the model', {'trace': res.trace})
            tlc.cleanup(res.workdir)
            continue
        n = 0
        for st in parse_dump(res.dump_path, only='pc = "ret"'):
            idx += 1
            if quick and idx % 2:
                continue
            replay_rotate(ctx, rnd, st, wlo, whi, idx)
            n += 1
        ctx.traces += n
        ctx.note(f'replayed_{fam}', n)
        tlc.cleanup(res.workdir)
    regular_polygons(ctx, rnd)
    translation_checks(ctx, rnd)
    if ctx.tier != 'quick':
        from . import c19
        c19.proofs(ctx, modules=('RotationLaws',))          # rotation algebra for all integers (TLAPS)
    # boxes that did not shift exactly must be aligned cases according to the model
    if events_aligned:
        from .c01 import validate_events as ve

        def sig(e, st):
            return f"C15|translate-box|{kind_sig(e['shape'])}"
        # validate both boxes: each must be acceptable to the model (aligned => either rounding)
        evs = []
        for e in events_aligned:
            evs.append(e)
            e2 = dict(e)
            t = e['extra']['t']
            bb = e['extra']['boxb']
            e2['box'] = [bb[0] - t[0], bb[1] - t[0], bb[2] - t[1], bb[3] - t[1]]
            e2['exact'] = False
            evs.append(e2)
            if e['exact']:
                ctx.violation(f"C15|translate-box|{kind_sig(e['shape'])}", 'bounding box of an unrotated dyadic region does not shift exactly', e)
        ve(ctx, evs, 'C15', sigfn=sig)
        ctx.dontcare += len(events_aligned)
    for s, U, sub, ma, mb, tx, ty in events_polyedge:
        ok = ma.data.shape == mb.data.shape and np.abs(ma.data - mb.data).max() * sub * sub < 0.5 + sub  # at most edge samples
        if not ok:
            ctx.violation('C15|translate-mask|polygon|subpixels', 'polygon sub-pixel mask changes under translation beyond edge samples',
                          {'shape': s, 'U': U, 'translation': [tx, ty], 'subpixels': sub})
        ctx.dontcare += 1
    trace_validation(ctx, rnd)
    ctx.assumptions += ['rotation directions are rational (Pythagorean) directions, passed as atan2(s, c) in several units and windings',
                        'translation checks skip cases whose extreme lies exactly on a pixel edge through a rotation (aligned)']


def regular_polygons(ctx, rnd):
    """Regular polygons have irrational vertices: checked against the PolygonPixelRegion of their own vertices."""
    import astropy.units as u
    from regions import PixCoord, PolygonPixelRegion, RegularPolygonPixelRegion
    n = 60 if ctx.tier == 'quick' else 600
    for i in range(n):
        nv = rnd.choice([3, 4, 5, 6, 8, 11])
        reg = RegularPolygonPixelRegion(PixCoord(rnd.randint(-8, 8) / 2, rnd.randint(-8, 8) / 2), nv, rnd.randint(1, 16) / 2,
                                        angle=rnd.choice([0, 15, 36.87, -100]) * u.deg)
        poly = PolygonPixelRegion(reg.vertices.copy())
        e = rnd.choice(geomgen.DIRS)
        centre = PixCoord(rnd.randint(-6, 6) / 2, rnd.randint(-6, 6) / 2)
        ang = rot_angle(e, i)
        before = geom.fingerprint(reg)
        r1, r2 = reg.rotate(centre, ang), poly.rotate(centre, ang)
        ctx.case(('regpoly', nv, i), True)
        case = {'nvertices': nv, 'center': [reg.center.x, reg.center.y], 'radius': reg.radius, 'dir': e}
        if type(r1) is not RegularPolygonPixelRegion or geom.fingerprint(reg) != before:
            ctx.violation('C15|regpoly|class-or-mutation', 'rotate of a regular polygon changed class or mutated the original', case)
            continue
        d = max(np.abs(r1.vertices.x - r2.vertices.x).max(), np.abs(r1.vertices.y - r2.vertices.y).max())
        if d > 1e-9 or abs(r1.area - reg.area) > 1e-12 * reg.area:
            ctx.violation('C15|regpoly|vertices', f'rotated regular polygon deviates from its rotated vertices by {d:g}', case)
            continue
        back = r1.rotate(centre, -ang)
        if abs(back.center.x - reg.center.x) > 1e-9 or abs(back.center.y - reg.center.y) > 1e-9 or \
                abs(math.remainder(float((back.angle - reg.angle).to_value('rad')), 2 * math.pi)) > 1e-9 or back.radius != reg.radius:
            ctx.violation('C15|regpoly|back', 'rotating a regular polygon back does not restore it', case)
    ctx.traces += n


def trace_validation(ctx, rnd):
    """Random rotate events: recorded membership of the rotated region at rotated lattice points is validated as
    membership of the *original* shape at the original points (that is the property)."""
    from regions import PixCoord
    n = 500 if ctx.tier == 'quick' else 10000
    events = []
    U = 2
    for i in range(n):
        if rnd.random() < 0.7:
            s = geomgen.simple(rnd, smax=10)
        else:
            s = geomgen.compound(rnd, 2, smax=10)
        e = rnd.choice(geomgen.DIRS)
        pivot = [rnd.randint(-6, 6), rnd.randint(-6, 6)]
        pts = [[rnd.randint(-14, 14), rnd.randint(-14, 14)] for _ in range(30)]
        fr = geom.Frame(U, 2.0 ** rnd.choice([0, 1, -3, 12]), float(rnd.choice([0, 7, -100])), 0.0, rnd.randint(0, 5))
        try:
            region = geom.build(s, fr)
            rot = region.rotate(PixCoord(fr.x(pivot[0]), fr.y(pivot[1])), rot_angle(e, i))
            rp = [rot_point(p, pivot, e) for p in pts]
            px = np.array([p[0] for p in rp]) / (U * e[2]) * fr.scale + fr.tx
            py = np.array([p[1] for p in rp]) / (U * e[2]) * fr.scale + fr.ty
            ans = [int(v) for v in np.asarray(rot.contains(PixCoord(px, py))).reshape(-1)]
        except Exception as ex:
            ctx.violation(f"C15|trace|{kind_sig(s)}|{type(ex).__name__}", f'rotate/contains raised {ex!r}', {'shape': s})
            continue
        events.append({'ev': 'contains', 'shape': s, 'pts': pts, 'ans': ans, 'frame': vars(fr), 'extra': {'pivot': pivot, 'dir': e}})
    validate_events(ctx, events, 'C15')
