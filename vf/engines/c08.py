"""C08 — compound regions and annuli obey set algebra.

(A) TLC: MC_Geometry on the compound families (pairs over a leaf pool with overlapping, nested,
    disjoint and touching operands; nested expressions to depth 3; include flags on operands and
    on the compound) and on the annuli: membership is Kleene and/or/xor of the operands negated
    as a whole (Member), annulus-as-xor = outer minus inner (InvAnnulusXor), the padded-operator
    mask equals sampled membership on the union box (InvMaskImpl), rotation commutes (InvRotate).
(B) replay into the real operators &, |, ^ and CompoundPixelRegion: contains, centre masks,
    bounding box = union, rotate, and pixel->sky->pixel conversion (membership and include flag
    must survive); annulus area = outer area - inner area.
(C) random expression trees of depth <= 3 validated by Trace_Geometry (contains and mask events).
"""
import math
import random

import numpy as np

from .. import par, geom, geomgen, tlc, wcsutil
from ..tlaparse import parse_dump
from . import c01, c02, c15
from .c01 import cfg, kind_sig, validate_events


def sky_roundtrip(ctx, rnd, s, win, wlo, whi, idx, wcs_pool):
    """Convert the compound pixel->sky->pixel and ask both the sky region and the pixel image."""
    from regions import PixCoord
    U = 2
    fr = geom.Frame(U, 1.0, float(rnd.choice([0, 20])), float(rnd.choice([0, -10])), rnd.randint(0, 5))
    wname, w = wcs_pool[idx % len(wcs_pool)]
    case = {'shape': s, 'wcs': wname}
    try:
        region = geom.build(s, fr)
        sky = region.to_sky(w)
        pix = sky.to_pixel(w)
    except Exception as ex:
        ctx.violation(f"C08|sky|{kind_sig(s)}|{type(ex).__name__}", f'to_sky/to_pixel raised {ex!r}', case)
        return
    ctx.case(('sky', geom.shape_key(s), wname), geom.nontrivial_answers(win))
    xs_u, ys_u = geom.window(wlo, whi)
    if s['k'] == 'compound':
        # the sky compound answers op(answers of its sky operands), negated as a whole when excluded - for ANY WCS, distorted or not
        # (a Boolean identity: no tolerance, no model needed)
        import operator
        OPF = {'and': operator.and_, 'or': operator.or_, 'xor': operator.xor}
        scq = w.pixel_to_world(xs_u / U + fr.tx, ys_u / U + fr.ty)
        try:
            whole = np.asarray(sky.contains(scq, w))
            parts = OPF[s['op']](np.asarray(sky.region1.contains(scq, w)), np.asarray(sky.region2.contains(scq, w)))
            if not bool(sky.meta.get('include', True)):
                parts = np.logical_not(parts)
        except Exception as ex:  # noqa
            ctx.violation(f"C08|sky-identity|{kind_sig(s)}|{type(ex).__name__}", f'sky compound contains raised {ex!r}', case)
            return
        if whole.shape != parts.shape or (whole != parts).any():
            ctx.violation(f'C08|sky-identity|{kind_sig(s)}', f'{int((whole != parts).sum()) if whole.shape == parts.shape else "all"} sky positions: the sky compound does not answer '
                          f'{s["op"]}(answers of its operands)', case)
            return
    if s['k'] in ('cannulus', 'eannulus', 'rannulus'):
        # an annulus is outer minus inner on the sky as well: its sky image has the parameters of the sky images of its outer and
        # inner shapes (two code paths that must agree on every convention, the angle's zero direction included)
        import regions as R
        try:
            if s['k'] == 'cannulus':
                parts = [(R.CirclePixelRegion(region.center, region.inner_radius).to_sky(w), ('inner_radius',), ('radius',)),
                         (R.CirclePixelRegion(region.center, region.outer_radius).to_sky(w), ('outer_radius',), ('radius',))]
            else:
                cls = R.EllipsePixelRegion if s['k'] == 'eannulus' else R.RectanglePixelRegion
                parts = [(cls(region.center, region.inner_width, region.inner_height, angle=region.angle).to_sky(w), ('inner_width', 'inner_height', 'angle'), ('width', 'height', 'angle')),
                         (cls(region.center, region.outer_width, region.outer_height, angle=region.angle).to_sky(w), ('outer_width', 'outer_height', 'angle'), ('width', 'height', 'angle'))]
            for part, mine, theirs in parts:
                sep = float(part.center.separation(sky.center).deg)
                bad = [a for a, b in zip(mine, theirs)
                       if not abs(float(getattr(sky, a).to_value('deg')) - float(getattr(part, b).to_value('deg'))) <= 1e-9 * max(1.0, abs(float(getattr(part, b).to_value('deg'))))]
                if sep > 1e-10 or bad:
                    ctx.violation(f'C08|sky-annulus-parts|{s["k"]}', f'the sky image of the annulus differs from the sky image of its {mine[0].split("_")[0]} shape in {bad or "centre"}',
                                  dict(case, annulus=repr(sky), part=repr(part)))
                    return
        except Exception as ex:  # noqa
            ctx.violation(f"C08|sky-annulus-parts|{s['k']}|{type(ex).__name__}", f'converting the outer/inner shape raised {ex!r}', case)
            return
    if wname.startswith('TAN-SIP'):
        return          # a distorted WCS does not map shapes onto shapes: only the identity above is exact
    if dict(pix.meta) != dict(region.meta) or dict(pix.visual) != dict(region.visual):
        ctx.violation(f'C08|sky-meta|{via(s)}', f'compound meta/visual after pixel->sky->pixel: {dict(pix.meta)} (was {dict(region.meta)})', case)
        return
    xs = xs_u / U + fr.tx
    ys = ys_u / U + fr.ty
    model = np.asarray(win)
    care = model != 2
    out = np.asarray(pix.contains(PixCoord(xs, ys))).astype(int)
    bad = np.nonzero(care & (out != model))[0]
    if len(bad):
        ctx.violation(f'C08|sky-member|{kind_sig(s)}', f'{len(bad)} positions change membership after pixel->sky->pixel', case)
        return
    if idx % 4 == 0 or s['k'] != 'compound':
        sc = w.pixel_to_world(xs, ys)
        out2 = np.asarray(sky.contains(sc, w)).astype(int)
        bad = np.nonzero(care & (out2 != model))[0]
        if len(bad):
            ctx.violation(f'C08|sky-contains|{kind_sig(s)}', f'{len(bad)} sky positions answered differently by the sky compound', case)
            return
        # the same sky region with sizes / angles handed over in other units answers alike
        try:
            out3 = np.asarray(wcsutil.redescribe_units(sky, idx // 4).contains(sc, w)).astype(int)
        except Exception as ex:  # noqa
            ctx.violation(f'C08|sky-units|{kind_sig(s)}|{type(ex).__name__}', f'the sky region rebuilt with other units raised {ex!r}', case)
            return
        bad = np.nonzero(care & (out3 != model))[0]
        if len(bad):
            ctx.violation(f'C08|sky-units|{kind_sig(s)}', f'{len(bad)} sky positions answered differently once the sizes/angles of the sky region are given in other units', case)


def via(s):
    return f"{kind_sig(s)}|{s.get('via', '-')}"


def annulus_area(ctx, s):
    fr = geom.Frame(2, 1.0, 0.0, 0.0, 0)
    r = geom.build(s, fr)
    parts = {'cannulus': lambda: (math.pi * (s['r2'] / 2) ** 2, math.pi * (s['r1'] / 2) ** 2),
             'eannulus': lambda: (math.pi / 4 * s['w2'] * s['h2'] / 4, math.pi / 4 * s['w1'] * s['h1'] / 4),
             'rannulus': lambda: (s['w2'] * s['h2'] / 4, s['w1'] * s['h1'] / 4)}[s['k']]()
    want = parts[0] - parts[1]
    got = float(r.area)
    ctx.case(('area', geom.shape_key(s)), True)
    if abs(got - want) > 1e-12 * abs(want):
        ctx.violation(f"C08|area|{s['k']}", f'annulus area {got!r}, outer - inner = {want!r}', {'shape': s})


_P = {}


def _st_contains(rec, st, idx):
    rnd = random.Random(_P['seed'] + 7919 * idx)
    rec.traces += 1
    c01.replay_state(rec, rnd, st['shape'], st['res']['win'], _P['wlo'], _P['whi'], idx, pid='C08')
    if _P['annuli']:
        annulus_area(rec, st['shape'])
    if idx % _P['sky_stride'] == 0:
        sky_roundtrip(rec, rnd, st['shape'], st['res']['win'], _P['wlo'], _P['whi'], idx, _P['wcs_pool'])


def _st_rotate(rec, st, idx):
    rnd = random.Random(_P['seed'] + 104729 * idx)
    rec.traces += 1
    c15.replay_rotate(rec, rnd, st, -12, 14, idx, pid='C08')


def run(ctx):
    quick = ctx.tier == 'quick'
    rnd = random.Random(ctx.seed * 1000003 + 8)
    wcs_pool = [('TAN icrs 1e-3 rot 3-4-5', wcsutil.make_wcs(1e-3, (3, 4, 5), 1, 'icrs', 'TAN', (30, 20), (5, 5))),
                ('SIN galactic 2e-4 rot -12-5-13 flipped', wcsutil.make_wcs(2e-4, (-12, 5, 13), -1, 'galactic', 'SIN', (120, -45), (0, 3))),
                ('CAR fk5 5e-4', wcsutil.make_wcs(5e-4, (1, 0, 1), 1, 'fk5', 'CAR', (200, 0), (10, 10))),
                ('TAN-SIP icrs 3e-4 (distorted)', wcsutil.make_sip_wcs())]
    # 1. membership + sky conversion
    fam = 'FamCompound'
    res = tlc.run('MC_Geometry', cfg_text=cfg(fam, 'OpsContains', -14, 20, []), dump=True, coverage=True, tag='c08')
    ctx.tlc(res, f'MC_Geometry contains {fam}')
    _P.update(seed=ctx.seed * 1000003 + 8, wcs_pool=wcs_pool, sky_stride=3 if quick else 1, wlo=-14, whi=20, annuli=False)
    before = ctx.traces
    par.pmap_dump(ctx, _st_contains, res.dump_path, only='pc = "ret"')
    n = ctx.traces - before
    ctx.note('replayed_contains', n)
    tlc.cleanup(res.workdir)
    # 2. annuli: xor of helpers = outer minus inner, area difference
    res = tlc.run('MC_Geometry', cfg_text=cfg('FamAnnuli', 'OpsContains', -12, 12, ['InvAnnulusXor']), dump=True, tag='c08')
    ctx.tlc(res, 'MC_Geometry contains FamAnnuli (InvAnnulusXor)')
    if res.violated:
        ctx.violation(f'C08|model|{res.violated}', f'invariant {res.violated} fails in the model', {'trace': res.trace})
    else:
        _P.update(sky_stride=1, wlo=-12, whi=12, annuli=True)
        before = ctx.traces
        par.pmap_dump(ctx, _st_contains, res.dump_path, only='pc = "ret"')
        n = ctx.traces - before
        ctx.note('replayed_annuli', n)
    tlc.cleanup(res.workdir)
    # 3. masks on the union box
    res = tlc.run('MC_Geometry', cfg_text=cfg('FamMaskCompound', 'OpsMask', -12, 12, ['InvMaskImpl'], subn='N1'), dump=True, tag='c08')
    ctx.tlc(res, 'MC_Geometry mask FamMaskCompound (InvMaskImpl)')
    if res.violated:
        ctx.violation(f'C08|model|{res.violated}', f'invariant {res.violated} fails in the model', {'trace': res.trace})
    else:
        n = 0
        for st in parse_dump(res.dump_path, only='pc = "ret"'):
            s, m = st['shape'], st['res']
            tx, ty = rnd.choice([(0, 0), (3, -5), (1000, 77)])
            fr = geom.Frame(2, 1.0, float(tx), float(ty), rnd.randint(0, 5))
            try:
                if n % 4 == 1:
                    # built from other operands, used once (mask and box), then the operands are changed in place
                    region = geom.build_via_assign(s, fr, lambda r: (r.to_mask(mode='center'), r.bounding_box))
                else:
                    region = geom.build(s, fr)
                mask = region.to_mask(mode='center')
                if s['k'] == 'compound':
                    bu = region.region1.bounding_box | region.region2.bounding_box
                    if not (mask.bbox == bu and region.bounding_box == bu):
                        ctx.violation(f'C08|unionbox|{kind_sig(s)}', 'compound box is not the union of the operand boxes', {'shape': s})
            except Exception as ex:
                ctx.violation(f"C08|to_mask|{kind_sig(s)}|{type(ex).__name__}", f'to_mask raised {ex!r}', {'shape': s})
                continue
            grid = [v for row in m['grid'] for v in row]
            ctx.case(('mask', geom.shape_key(s)), any(v == 1 for v in grid))
            c02.compare_mask(ctx, 'C08', s, 1, mask, m['box'], grid, m['aligned'], tx, ty, 'center', fr.av)
            n += 1
        ctx.traces += n
        ctx.note('replayed_masks', n)
    tlc.cleanup(res.workdir)
    # 4. rotation commutes with the operators
    res = tlc.run('MC_Geometry', cfg_text=cfg('FamPairs' if quick else 'FamCompound', 'OpsRotate', -12, 14, ['InvRotate'],
                                              piv='PivOne', dirs='DirsThree'), dump=True, tag='c08', timeout=3000)
    ctx.tlc(res, 'MC_Geometry rotate compounds (InvRotate)')
    if res.violated:
        ctx.violation(f'C08|model|{res.violated}', f'invariant {res.violated} fails in the model', {'trace': res.trace})
    else:
        before = ctx.traces
        par.pmap_dump(ctx, _st_rotate, res.dump_path, only='pc = "ret"', stride=4 if quick else 1)
        n = ctx.traces - before
        ctx.note('replayed_rotations', n)
    tlc.cleanup(res.workdir)
    trace_validation(ctx, rnd)
    ctx.assumptions += ['leaf shapes are lattice shapes with rational directions; EDGE positions not compared',
                        'sky conversion uses three undistorted WCS (TAN/SIN/CAR); astropy projections trusted']


def trace_validation(ctx, rnd):
    from regions import PixCoord
    n = 600 if ctx.tier == 'quick' else 10000
    events = []
    U = 2
    for i in range(n):
        s = geomgen.compound(rnd, 3, smax=8, small_dirs=True)
        if s['k'] != 'compound':
            continue
        fr = c01.pick_frame(rnd, U)
        try:
            region = geom.build(s, fr)
            pts = [[rnd.randint(-14, 14), rnd.randint(-14, 14)] for _ in range(40)]
            xs = np.array([p[0] for p in pts]) / U * fr.scale + fr.tx
            ys = np.array([p[1] for p in pts]) / U * fr.scale + fr.ty
            ans = [int(v) for v in np.asarray(region.contains(PixCoord(xs, ys))).reshape(-1)]
            events.append({'ev': 'contains', 'shape': s, 'pts': pts, 'ans': ans, 'frame': vars(fr)})
            if i % 2 == 0:
                fr1 = geom.Frame(U, 1.0, 0.0, 0.0, fr.av)
                r1 = geom.build(s, fr1)
                mask = r1.to_mask(mode='center')
                b = mask.bbox
                events.append({'ev': 'mask', 'shape': s, 'U': U, 'n': 1, 'exact': False,
                               'box': [int(b.ixmin), int(b.ixmax), int(b.iymin), int(b.iymax)],
                               'grid': [[int(v) for v in row] for row in np.asarray(mask.data)], 'frame': vars(fr1)})
        except Exception as ex:
            ctx.violation(f"C08|trace|{kind_sig(s)}|{type(ex).__name__}", f'compound operation raised {ex!r}', {'shape': s})
    validate_events(ctx, events, 'C08')
