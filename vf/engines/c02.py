"""C02 — centre and sub-pixel masks are the sampled membership function.

(A) TLC: MC_Geometry 'mask': the Ref grid counts member sub-sample centres on the model's box;
    the Impl of compound/annulus masks (pad each operand's mask to the union box, then the
    operator) refines it (InvMaskImpl); values in 0..n^2 (InvMaskRange); masks translate with the
    shape (InvMaskTranslates).  'modes': which (shape, mode) pairs are supported.
(B) each returning state is replayed into to_mask('center') / to_mask('subpixels', n): same box,
    same shape, data*n^2 integral and equal to the model wherever no sample is EDGE, n=1
    identical to 'center', unsupported combinations raise NotImplementedError.
(C) random shapes, sub-pixel counts 1..12, positions on pixel edges/corners and far from the
    origin, validated by Trace_Geometry.
"""
import random

import numpy as np

from .. import geom, geomgen, tlc
from ..tlaparse import parse_dump
from .c01 import cfg, kind_sig, validate_events
from .c04 import exact_dirs

MODES = ['center', 'subpixels', 'exact']


def counts(mask, n):
    d = np.asarray(mask.data, dtype=float) * (n * n)
    r = np.rint(d)
    return r.astype(int), float(np.max(np.abs(d - r))) if d.size else 0.0


def compare_mask(ctx, pid, s, n, mask, mbox, grid, aligned, tx, ty, mode, av=5):
    b = mask.bbox
    got = [int(b.ixmin) - tx, int(b.ixmax) - tx, int(b.iymin) - ty, int(b.iymax) - ty]
    if got != list(mbox):
        if aligned and not exact_dirs(s, av):
            ctx.dontcare += 1
            return True
        ctx.violation(f'{pid}|maskbox|{kind_sig(s)}', f'mask box {got} differs from the model box {list(mbox)}',
                      {'shape': s, 'n': n, 'mode': mode, 'model_box': list(mbox), 'real_box': got})
        return False
    g = np.asarray(grid, dtype=int).reshape((mbox[3] - mbox[2], mbox[1] - mbox[0]))
    if tuple(mask.data.shape) != g.shape:
        ctx.violation(f'{pid}|maskshape|{kind_sig(s)}', f'mask array shape {mask.data.shape} is not the box shape {g.shape}',
                      {'shape': s, 'n': n, 'mode': mode})
        return False
    c, frac = counts(mask, n)
    if frac > 1e-9:
        ctx.violation(f'{pid}|maskfrac|{kind_sig(s)}', f'mask values are not multiples of 1/n^2 (off by {frac:g})',
                      {'shape': s, 'n': n, 'mode': mode})
        return False
    care = g != -1
    ctx.dontcare += int((~care).sum())
    bad = np.argwhere(care & (c != g))
    if len(bad):
        j, i = (int(v) for v in bad[0])
        ctx.violation(f'{pid}|maskvalue|{kind_sig(s)}|{mode}', f'{len(bad)} mask pixel(s) differ from the sampled membership function',
                      {'shape': s, 'n': n, 'mode': mode, 'translation': [tx, ty], 'pixel_in_box_yx': [j, i],
                       'model_count': int(g[j, i]), 'real_count': int(c[j, i])})
        return False
    return True


def replay_mask_state(ctx, pid, st, k, rnd):
    """One model state (shape, n, exact sample counts) against the real centre / sub-pixel mask."""
    s, n, m = st['shape'], st['arg'], st['res']
    tx, ty = rnd.choice([(0, 0), (3, -5), (1000, 77), (-10000, 4096), (10 ** 6, -3 * 10 ** 6)])
    fr = geom.Frame(2, 1.0, float(tx), float(ty), rnd.randint(0, 5), ints=(k % 5 == 3))      # whole numbers as Python ints, odd whole sizes as unsigned numpy integers
    try:
        if k % 4 == 1 and geom_supported(s, 'center'):
            # built with other parameters, masked once, then assigned the wanted parameters
            region = geom.build_via_assign(s, fr, lambda r: (r.to_mask(mode='center'), r.to_mask(mode='subpixels', subpixels=3) if geom_supported(s, 'subpixels') else None))
        else:
            region = geom.build(s, fr)
        if k % 3 == 2:
            # a mask handed out earlier for an equal region belongs to the caller, who may write into it (normalise, threshold):
            # that must not show in any mask made later
            early = geom.build(s, fr).to_mask(mode='center') if n == 1 else geom.build(s, fr).to_mask(mode='subpixels', subpixels=n)
            np.asarray(early.data)[...] = -7.0
        if n == 1:
            mask = region.to_mask(mode='center')
            if geom_supported(s, 'subpixels'):
                m2 = region.to_mask(mode='subpixels', subpixels=1)
                if not (np.array_equal(m2.data, mask.data) and m2.bbox == mask.bbox):
                    ctx.violation(f'{pid}|n1|{kind_sig(s)}', "to_mask('subpixels', 1) differs from to_mask('center')", {'shape': s})
            # 'center' mode takes no notice of a sub-pixel count given along with it
            m3 = region.to_mask(mode='center', subpixels=[5, 2, 12][k % 3])
            if not (np.array_equal(m3.data, mask.data) and m3.bbox == mask.bbox):
                ctx.violation(f'{pid}|center-subpixels|{kind_sig(s)}', "to_mask('center', subpixels=n) differs from to_mask('center')", {'shape': s})
            vals = set(np.unique(mask.data).tolist())
            if not vals <= {0, 1, 0.0, 1.0}:
                ctx.violation(f'{pid}|binary|{kind_sig(s)}', f'centre mask holds values {sorted(vals)[:5]}', {'shape': s})
        else:
            mask = region.to_mask(mode='subpixels', subpixels=n)
    except Exception as ex:
        ctx.violation(f"{pid}|to_mask|{kind_sig(s)}|{type(ex).__name__}", f'to_mask raised {ex!r}', {'shape': s, 'n': n})
        return
    grid = [v for row in m['grid'] for v in row]
    nz = [v for v in grid if v not in (-1, 0)]
    ctx.case(('mask', geom.shape_key(s), n), len(nz) > 0)
    ok = compare_mask(ctx, pid, s, n, mask, m['box'], grid, m['aligned'], tx, ty, 'center' if n == 1 else 'subpixels', fr.av)
    if ok and k % 401 == 0:
        ctx.sample({'shape': s, 'n': n, 'box': m['box'], 'grid': m['grid']})


def run(ctx):
    quick = ctx.tier == 'quick'
    rnd = random.Random(ctx.seed * 1000003 + 2)
    plans = [('FamMaskSimple', 'NQuick' if quick else 'NAll', ['InvMaskRange', 'InvMaskTranslates']),
             ('FamMaskCompound', 'N1', ['InvMaskRange', 'InvMaskImpl', 'InvMaskTranslates'])]
    if quick:
        plans.append(('FamCircles', 'NBig', ['InvMaskRange']))
    for fam, subn, invs in plans:
        res = tlc.run('MC_Geometry', cfg_text=cfg(fam, 'OpsMask', -12, 12, invs, subn=subn), dump=True, coverage=True, tag='c02')
        ctx.tlc(res, f'MC_Geometry mask {fam} n in {subn}')
        if res.violated:
            ctx.violation(f'C02|model|{res.violated}', f'Geometry.tla: invariant {res.violated} fails in the model', {'trace': res.trace})
            tlc.cleanup(res.workdir)
            continue
        k = 0
        for st in parse_dump(res.dump_path, only='pc = "ret"'):
            k += 1
            replay_mask_state(ctx, 'C02', st, k, rnd)
        ctx.traces += k
        ctx.note(f'replayed_{fam}_{subn}', k)
        tlc.cleanup(res.workdir)
    modes_table(ctx)
    trace_validation(ctx, rnd)
    ctx.assumptions += ['pixels with a sub-sample exactly on the boundary (EDGE) are not compared',
                        'rotation angles are rational directions; parameters dyadic']


def geom_supported(s, mode):
    k = s['k']
    if k in ('circle', 'ellipse'):
        return True
    if k in ('rectangle', 'polygon'):
        return mode in ('center', 'subpixels')
    if k in ('cannulus', 'eannulus', 'rannulus'):
        return mode == 'center'
    if k == 'compound':
        return mode == 'center' and geom_supported(s['a'], mode) and geom_supported(s['b'], mode)
    return False


def modes_table(ctx):
    res = tlc.run('MC_Geometry', cfg_text=cfg('FamAll', 'OpsModes', -1, 1, []), dump=True, tag='c02m')
    ctx.tlc(res, 'MC_Geometry modes table over all families')
    k = 0
    fr = geom.Frame(2, 1.0, 0.0, 0.0, 0)
    seen = set()
    for st in parse_dump(res.dump_path, only='pc = "ret"'):
        s = st['shape']
        sig = (kind_sig(s), s['inc'])
        # one representative per (kind, include flag, operand kinds) is enough for a table lookup
        if s['k'] == 'compound':
            sig = sig + (s['a']['k'], s['b']['k'])
        if sig in seen:
            continue
        seen.add(sig)
        k += 1
        region = geom.build(s, fr)
        for i, mode in enumerate(MODES):
            want = st['res'][i]
            if want != geom_supported(s, mode):
                raise tlc.TlcError('harness table and Geometry!Supported disagree')
            # whether a combination is supported does not depend on the sub-sample count: the class default (absent), 1 and more
            for sub in (None, 1, 3):
                try:
                    region.to_mask(mode=mode, **({} if sub is None else {'subpixels': sub}))
                    got = True
                except NotImplementedError:
                    got = False
                except Exception as ex:
                    got = type(ex).__name__
                ctx.case(('modes', sig, mode, sub), True)
                if got is not want:
                    ctx.violation(f'C02|modes|{kind_sig(s)}|{mode}',
                                  f"to_mask(mode='{mode}', subpixels={sub}) {'returned a mask' if got is True else 'raised ' + str(got) if got else 'raised NotImplementedError'}; "
                                  f"the table says {'supported' if want else 'NotImplementedError'}", {'shape': s, 'mode': mode, 'subpixels': sub})
                    break
    ctx.traces += k
    ctx.note('modes_table_shapes', k)
    tlc.cleanup(res.workdir)


def trace_validation(ctx, rnd):
    n_ev = 700 if ctx.tier == 'quick' else 12000
    events = []
    for i in range(n_ev):
        n = rnd.choice([1, 1, 2, 3, 4, 5, 6, 7, 8, 9, 10, 11, 12])
        # units U = 2n: shapes on the half-pixel lattice, scaled by n (mirror of MC_Geometry!Apply)
        kinds = ['circle', 'ellipse', 'rectangle', 'polygon'] if n > 1 else None
        smax = 8 if n <= 5 else (6 if n <= 8 else 4)
        small = n > 3
        if n == 1 and rnd.random() < 0.5:
            s0 = geomgen.compound(rnd, rnd.randint(1, 3), smax=8, small_dirs=True)
        else:
            s0 = geomgen.simple(rnd, kinds or geomgen.MASKABLE, cmax=3, smax=smax, small_dirs=small)
            if n > 8 and 'd' in s0:
                s0['d'] = list(rnd.choice([d for d in geomgen.DIRS if d[2] <= 5]))
        s = geomgen.scale_shape(s0, n)
        U = 2 * n
        if i % 4 == 3:
            # centre masks of annuli and compounds whose centres sit at quarter / eighth pixel offsets: the inner and the
            # outer bounding box are then padded asymmetrically
            n = 1
            U = rnd.choice([4, 8])
            if rnd.random() < 0.7:
                s = geomgen.simple(rnd, ['cannulus', 'eannulus', 'rannulus'], cmax=2 * U, smax=3 * U, small_dirs=True)
            else:
                s = geomgen.compound(rnd, rnd.randint(1, 2), cmax=2 * U, smax=3 * U, small_dirs=True)
        tx, ty = rnd.choice([(0, 0), (3, -5), (1000, 77), (-10000, 4096), (10 ** 6, -3 * 10 ** 6)])
        fr = geom.Frame(U, 1.0, float(tx), float(ty), rnd.randint(0, 5))
        try:
            region = geom.build(s, fr)
            mask = region.to_mask(mode='center') if n == 1 else region.to_mask(mode='subpixels', subpixels=n)
        except Exception as ex:
            ctx.violation(f"C02|trace|{kind_sig(s)}|{type(ex).__name__}", f'to_mask raised {ex!r}', {'shape': s, 'n': n})
            continue
        c, frac = counts(mask, n)
        if frac > 1e-9:
            ctx.violation(f'C02|maskfrac|{kind_sig(s)}', f'mask values are not multiples of 1/n^2 (off by {frac:g})', {'shape': s, 'n': n})
            continue
        b = mask.bbox
        events.append({'ev': 'mask', 'shape': s, 'U': U, 'n': n, 'exact': exact_dirs(s, fr.av),
                       'box': [int(b.ixmin) - tx, int(b.ixmax) - tx, int(b.iymin) - ty, int(b.iymax) - ty],
                       'grid': [[int(v) for v in row] for row in c], 'frame': vars(fr)})
    validate_events(ctx, events, 'C02')
    sliver_stage(ctx, rnd, 'C02', 60 if ctx.tier == 'quick' else 800)


def sliver_stage(ctx, rnd, pid, count):
    """Polygons confined to a single pixel row or column (thin slivers, tiny triangles) on the 1/8-pixel lattice: their
    centre and sub-pixel (n = 2, 4) masks are the sample counts of Geometry!MaskRef like those of any other polygon."""
    events = []
    U = 8
    for i in range(count):
        n = rnd.choice([1, 2, 4])
        nv = rnd.choice([3, 3, 4, 5])
        row = rnd.randint(-3, 3)
        while True:
            long_ = [rnd.randint(-30, 30) for _ in range(nv)]
            short = [row * U + rnd.randint(-3, 3) for _ in range(nv)]        # strictly inside pixel row `row` (edges at +-4)
            vs = [[a, b] for a, b in zip(long_, short)]
            if len({tuple(v) for v in vs}) >= 3:
                break
        if i % 2:
            vs = [[b, a] for a, b in vs]                                      # a single pixel column
        s = {'k': 'polygon', 'vs': vs, 'inc': 'absent'}
        tx, ty = rnd.choice([(0, 0), (3, -5), (1000, 77)])
        fr = geom.Frame(U, 1.0, float(tx), float(ty), rnd.randint(0, 5))
        try:
            region = geom.build(s, fr)
            mask = region.to_mask(mode='center') if n == 1 else region.to_mask(mode='subpixels', subpixels=n)
        except Exception as ex:
            ctx.violation(f"{pid}|trace|sliver|{type(ex).__name__}", f'to_mask of a sliver polygon raised {ex!r}', {'shape': s, 'n': n})
            continue
        c, frac = counts(mask, n)
        if frac > 1e-9:
            ctx.violation(f'{pid}|maskfrac|sliver', f'mask values are not multiples of 1/n^2 (off by {frac:g})', {'shape': s, 'n': n})
            continue
        b = mask.bbox
        events.append({'ev': 'mask', 'shape': s, 'U': U, 'n': n, 'exact': True,
                       'box': [int(b.ixmin) - tx, int(b.ixmax) - tx, int(b.iymin) - ty, int(b.iymax) - ty],
                       'grid': [[int(v) for v in row_] for row_ in c], 'frame': vars(fr)})
    validate_events(ctx, events, pid)
