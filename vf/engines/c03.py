"""C03 — exact masks give the true pixel-region overlap area (measure axioms; partial).

The true area of a disk/ellipse - pixel intersection is transcendental and cannot be computed in
TLA+.  The specification decides consequences of "the value is the area of shape /\\ pixel":
(A) TLC checks Overlap.tla's sound rational bracket (sub-cells with four member corners are inside;
    sub-cells whose centre lies outside the shape inflated by the sub-cell size are outside) for
    internal consistency on families of circles and ellipses.
(C) dyadic circles and ellipses (radii 2^-2 .. 6 px, axis ratios to 1:6, rational directions,
    generic and half-integer centres) are run through to_mask('exact'); every mask value is
    validated by Trace_Overlap.tla: finite and in [0, 1], inside the bracket, exactly 1 / 0 for
    pixels without a mixed sub-cell; plus additivity under refinement of the kernel grid
    (1x1 / 2x2 / 4x4), equality of the same shape described with swapped axes and a quarter turn,
    and sum = analytic area.
The 1e-8 agreement with an independent area computation is NOT decided (an error smaller than the
bracket that is also additive and symmetric would pass).
"""
import json
import math
import os
import random
from fractions import Fraction as Fr

import numpy as np

from .. import geom, tlc
from ..tlaparse import parse_dump

DIRS5 = [(1, 0, 1), (0, 1, 1), (3, 4, 5), (4, 3, 5), (-3, 4, 5), (4, -3, 5), (-4, 3, 5), (3, -4, 5)]


def on_outline(s, x, y):
    """exact (Fraction) test whether lattice point (x, y) lies on the outline."""
    dx, dy = Fr(x - s['cx']), Fr(y - s['cy'])
    if s['k'] == 'circle':
        return dx * dx + dy * dy == Fr(s['r']) ** 2
    c, sn, h = s['d']
    u, v = (c * dx + sn * dy) / h, (sn * dx - c * dy) / h
    return (2 * u / s['w']) ** 2 + (2 * v / s['h']) ** 2 == 1


def tangent(s, g, axis):
    if s['k'] == 'circle':
        return abs(g - (s['cx'] if axis == 'x' else s['cy'])) == s['r']
    c, sn, h = s['d']
    q = (s['w'] * c) ** 2 + (s['h'] * sn) ** 2 if axis == 'x' else (s['w'] * sn) ** 2 + (s['h'] * c) ** 2
    t = abs(g - (s['cx'] if axis == 'x' else s['cy']))
    return (2 * h * t) ** 2 == q


def degenerate_on_grid(s, U, k, box):
    """any vertex of the k-fold refined pixel grid on the outline, or a grid line tangent to it (classifier for the open finding only)."""
    step = Fr(U, k)
    x0, x1 = box[0] * U - U // 2, box[1] * U - U // 2
    y0, y1 = box[2] * U - U // 2, box[3] * U - U // 2
    xs = [x0 + i * step for i in range(int((x1 - x0) / step) + 1)]
    ys = [y0 + i * step for i in range(int((y1 - y0) / step) + 1)]
    for x in xs:
        if tangent(s, x, 'x'):
            return True
    for y in ys:
        if tangent(s, y, 'y'):
            return True
    for x in xs:
        for y in ys:
            if on_outline(s, x, y):
                return True
    return False


def subpixel_stage(ctx, rnd, quick):
    """'Subpixel masks of every maskable shape converge to the true overlap fraction': the sub-pixel mask of every
    maskable simple shape is the exact count of member sub-sample centres (Geometry!MaskRef, n = 1..5), for fresh
    regions and for regions that were used with other parameters before (same replay as C02, every 3rd state)."""
    from . import c02
    res = tlc.run('MC_Geometry', cfg_text=c02.cfg('FamMaskSimple', 'OpsMask', -12, 12, ['InvMaskRange'], subn='NQuick' if quick else 'NAll'), dump=True, tag='c03sub')
    ctx.tlc(res, 'MC_Geometry sub-pixel masks of the maskable simple shapes (exact sample counts)')
    if res.violated:
        ctx.violation(f'C03|model|{res.violated}', f'Geometry.tla: {res.violated} fails in the model', {'trace': res.trace[-1:]})
    else:
        k = 0
        for st in parse_dump(res.dump_path, only='pc = "ret"'):
            k += 1
            if k % 3 == 1:
                c02.replay_mask_state(ctx, 'C03', st, k, rnd)
        ctx.traces += (k + 2) // 3
        ctx.note('subpixel_states_replayed', (k + 2) // 3)
    tlc.cleanup(res.workdir)
    # the same far beyond the sub-sample counts anyone tests with (n = 33, 64): the error bound (boundary length / n) keeps shrinking only
    # if the mask keeps being the exact fraction of the n x n sample centres
    res = tlc.run('MC_Geometry', cfg_text=c02.cfg('FamRectHuge', 'OpsMask', -12, 12, ['InvMaskRange'], subn='NHuge'), dump=True, tag='c03huge', timeout=1200)
    ctx.tlc(res, 'MC_Geometry sub-pixel masks with 33 x 33 and 64 x 64 sub-samples (exact sample counts)')
    if res.violated:
        ctx.violation(f'C03|model|{res.violated}', f'Geometry.tla: {res.violated} fails in the model', {'trace': res.trace[-1:]})
    else:
        k = 0
        for st in parse_dump(res.dump_path, only='pc = "ret"'):
            k += 1
            c02.replay_mask_state(ctx, 'C03', st, 4 * k, rnd)       # (4k: fresh regions, no earlier mask)
        ctx.traces += k
        ctx.note('subpixel_states_replayed_n33_n64', k)
    tlc.cleanup(res.workdir)


def run(ctx):
    quick = ctx.tier == 'quick'
    m = 4
    res = tlc.run('MC_Overlap', cfg_text=f'SPECIFICATION Spec\nCONSTANTS M = {4 if quick else 8}\nINVARIANT BracketSound\nINVARIANT InBoxIfPositive\nCHECK_DEADLOCK FALSE\n',
                  dump=False, tag='c03', timeout=3000)
    ctx.tlc(res, 'MC_Overlap: soundness of the rational bracket')
    if res.violated:
        ctx.violation(f'C03|model|{res.violated}', f'Overlap.tla: {res.violated} fails in the model', {'trace': res.trace[-1:]})
    tlc.cleanup(res.workdir)
    rnd = random.Random(ctx.seed * 97 + 3)
    subpixel_stage(ctx, rnd, quick)
    from . import c02 as _c02
    _c02.sliver_stage(ctx, rnd, 'C03', 40 if quick else 500)
    from regions._geometry import circular_overlap_grid, elliptical_overlap_grid
    U = 4 * m
    events, meta = [], []
    nshapes = 260 if quick else 2500
    for t in range(nshapes):
        if rnd.random() < 0.4:
            s = {'k': 'circle', 'cx': rnd.choice([0, 1, 2, 3, 5, 8, U // 2, -3, -21, -U - 5]), 'cy': rnd.choice([0, 1, 3, U // 2, 7, -6, -U // 2 - 1, -2 * U - 3]), 'r': rnd.choice([4, 6, 8, 12, 16, 24, 40, 64, 96]), 'inc': 'absent'}
        else:
            w, h = rnd.choice([(16, 8), (8, 16), (24, 8), (48, 8), (32, 24), (12, 20), (40, 16), (96, 16),
                               (2, 12), (12, 2), (4, 14), (3, 10), (6, 6), (2, 26), (5, 9), (10, 3)])       # incl. ellipses smaller than a pixel
            s = {'k': 'ellipse', 'cx': rnd.choice([0, 1, 2, 3, 5, 7, U // 2, -3, -21, -U - 5]), 'cy': rnd.choice([0, 1, 3, 6, 5, U // 2, -6, -U // 2 - 1, -2 * U - 3]), 'w': w, 'h': h, 'd': list(rnd.choice(DIRS5)), 'inc': 'absent'}
        fr = geom.Frame(U, 1.0, 0.0, 0.0, rnd.randint(0, 2))
        # the include flag does not enter a mask (weights are areas of overlap with the shape itself): the real region carries a false flag
        # in every third case, the model shape stays as it is
        reg = geom.build(dict(s, inc=['absent', 'F', '0'][t % 3]), fr)
        try:
            if t % 2 == 1:
                # a mask handed out earlier for an equal region belongs to the caller, who may write into it; later masks are unaffected
                early = geom.build(s, fr).to_mask(mode='exact')
                np.asarray(early.data)[...] = -7.0
            mask = reg.to_mask(mode='exact')
        except Exception as ex:  # noqa
            ctx.violation(f"C03|raises|{s['k']}|{type(ex).__name__}", f"to_mask('exact') raised {ex!r}", {'shape': s})
            continue
        b = mask.bbox
        box = [int(b.ixmin), int(b.ixmax), int(b.iymin), int(b.iymax)]
        data = np.asarray(mask.data, dtype=float)
        for j in range(data.shape[0]):
            for i in range(data.shape[1]):
                v = data[j, i]
                val = int(round(v * 1e8)) if np.isfinite(v) else -1
                events.append({'ev': 'pixel', 's': s, 'm': m, 'ix': box[0] + i, 'iy': box[2] + j, 'val': val})
                meta.append({'shape': s, 'kind': 'pixel', 'value': float(v) if np.isfinite(v) else 'nan', 'shape_id': t})
        # sum = analytic area (the shape always fits its own bounding box)
        area = math.pi * (s['r'] / U) ** 2 if s['k'] == 'circle' else math.pi / 4 * (s['w'] / U) * (s['h'] / U)
        tot = float(np.nansum(data)) if np.isfinite(data).all() else -1.0
        events.append({'ev': 'equal', 'a': int(round(tot * 1e6)), 'b': int(round(area * 1e6)), 'tol': 2 + int(area * 1e6) // 10 ** 7, 'what': 'mask_sum_is_not_the_analytic_area'})
        meta.append({'shape': s, 'kind': 'sum', 'sum': tot, 'area': area, 'degenerate': degenerate_on_grid(s, U, 1, box), 'shape_id': t})
        # additivity under refinement of the kernel grid over the same extent
        cx, cy = s['cx'] / U, s['cy'] / U
        ext = (box[0] - 0.5 - cx, box[1] - 0.5 - cx, box[2] - 0.5 - cy, box[3] - 0.5 - cy)
        nx, ny = box[1] - box[0], box[3] - box[2]

        def grid(k):
            if s['k'] == 'circle':
                return circular_overlap_grid(ext[0], ext[1], ext[2], ext[3], nx * k, ny * k, s['r'] / U, 1, 1)
            return elliptical_overlap_grid(ext[0], ext[1], ext[2], ext[3], nx * k, ny * k, s['w'] / U / 2, s['h'] / U / 2,
                                           math.atan2(s['d'][1], s['d'][0]), 1, 1)
        g1 = grid(1)
        for k in (2, 4):
            gk = grid(k)
            if not (np.isfinite(g1).all() and np.isfinite(gk).all()):
                continue
            child = gk.reshape(ny, k, nx, k).sum(axis=(1, 3)) / (k * k)
            d = np.abs(child - g1)
            j, i = np.unravel_index(int(np.argmax(d)), d.shape)
            events.append({'ev': 'equal', 'a': int(round(float(g1[j, i]) * 1e8)), 'b': int(round(float(child[j, i]) * 1e8)), 'tol': 1, 'what': 'not_additive_under_refinement'})
            meta.append({'shape': s, 'kind': f'additivity x{k}', 'parent': float(g1[j, i]), 'children_mean': float(child[j, i]), 'pixel_in_box_yx': [int(j), int(i)],
                         'degenerate': degenerate_on_grid(s, U, k, box), 'shape_id': t})
        # the same ellipse described with swapped axes and a quarter turn
        if s['k'] == 'ellipse':
            s2 = dict(s, w=s['h'], h=s['w'], d=[-s['d'][1], s['d'][0], s['d'][2]])
            try:
                m2 = np.asarray(geom.build(s2, fr).to_mask(mode='exact').data, dtype=float)
                if m2.shape == data.shape and np.isfinite(m2).all() and np.isfinite(data).all():
                    d = np.abs(m2 - data)
                    j, i = np.unravel_index(int(np.argmax(d)), d.shape)
                    events.append({'ev': 'equal', 'a': int(round(float(data[j, i]) * 1e8)), 'b': int(round(float(m2[j, i]) * 1e8)), 'tol': 1, 'what': 'same_shape_described_differently_gives_other_values'})
                    meta.append({'shape': s, 'kind': 'symmetry', 'degenerate': degenerate_on_grid(s, U, 1, box), 'shape_id': t})
            except Exception:  # noqa
                pass
    # circles that leave only a minute corner of some pixel uncovered (overlap within 1e-5 of 1): the value is still an area, not 1;
    # off the lattice, so only the sum = analytic area clause applies (tolerance 1e-6 of a pixel)
    from regions import CirclePixelRegion, PixCoord
    for t2 in range(30 if quick else 300):
        cx, cy = rnd.uniform(-20, 20), rnd.uniform(-20, 20)
        ix, iy = math.floor(cx) + rnd.randint(2, 6), math.floor(cy) + rnd.randint(1, 5)
        eps = rnd.choice([4e-4, 1e-3, 2e-3, 3e-3])
        r = math.hypot(ix + 0.5 - cx, iy + 0.5 - cy) - eps            # the far corner of pixel (ix, iy) protrudes by eps
        data = np.asarray(CirclePixelRegion(PixCoord(cx, cy), r).to_mask(mode='exact').data, dtype=float)
        area = math.pi * r * r
        tot = float(data.sum()) if np.isfinite(data).all() else -1.0
        s2 = {'k': 'circle', 'cx': cx, 'cy': cy, 'r': r, 'inc': 'absent', 'off_lattice': True}
        events.append({'ev': 'equal', 'a': int(round(tot * 1e7)), 'b': int(round(area * 1e7)), 'tol': 10, 'what': 'mask_sum_is_not_the_analytic_area'})
        meta.append({'shape': s2, 'kind': 'sum-near-corner', 'sum': tot, 'area': area, 'degenerate': False, 'shape_id': 100000 + t2})
    wd = tlc.workdir('c03trace')
    path = os.path.join(wd, 'events.json')
    with open(path, 'w') as f:
        json.dump(events, f)
    res = tlc.run('Trace_Overlap', cfg='Trace_Overlap.cfg', dump=True, env={'TRACE_FILE': path}, tag='c03trace', timeout=3000)
    ctx.tlc(res, 'Trace_Overlap validation of exact-mode mask values')
    seen = 0
    deg_shapes = set()
    verdicts = {}
    for st in parse_dump(res.dump_path):
        seen += 1
        verdicts[st['i']] = (st['verdict'], st['deg'])
        if st['deg']:
            deg_shapes.add(meta[st['i'] - 1]['shape_id'])
    if seen != len(events):
        raise tlc.TlcError('Trace_Overlap verdict count mismatch')
    mixed = 0
    for idx in range(1, len(events) + 1):
        v, dg = verdicts[idx]
        e, mt = events[idx - 1], meta[idx - 1]
        ctx.case((mt['kind'], json.dumps(mt['shape'], sort_keys=True), e.get('ix'), e.get('iy')), e['ev'] != 'pixel' or 0 < e['val'] < 10 ** 8)
        if e['ev'] == 'pixel' and 0 < e['val'] < 10 ** 8:
            mixed += 1
        if v != 'ok':
            degenerate = dg or mt.get('degenerate', False) or (mt['shape_id'] in deg_shapes)
            where = 'degenerate-alignment' if degenerate else 'generic-position'
            ctx.violation(f"C03|{v}|{mt['shape']['k']}|{where}", f"{mt['shape']['k']} exact mask: {v} ({mt['kind']})", dict(mt, event={k: x for k, x in e.items() if k != 's'}))
        elif idx % 2003 == 1:
            ctx.sample({'shape': mt['shape'], 'event': {k: x for k, x in e.items() if k != 's'}})
    ctx.traces += seen
    ctx.note('mask_values_validated', sum(1 for e in events if e['ev'] == 'pixel'))
    ctx.note('boundary_pixels', mixed)
    ctx.note('sum_and_additivity_events', sum(1 for e in events if e['ev'] == 'equal'))
    tlc.cleanup(res.workdir)
    tlc.cleanup(wd)
    ctx.assumptions += ['the 1e-8 agreement of each value with an independently computed area is NOT decided: values are checked against a rational bracket of width ~ (mixed sub-cells)/16, '
                        'for additivity under grid refinement, for equality under re-description of the same ellipse, and for sum = analytic area',
                        'shapes are dyadic circles/ellipses with directions from the 3-4-5 family and the axes; subpixel convergence is covered by C02 (exact sampled counts)']
