"""Registry.tla bound to regions/core/registry.py and regions/io/*/connect.py (part of C14: 'read with the
format given, inferred from the extension, or inferred from the content signature').

(A) TLC checks Registry.tla for every registration order of the identifiers and for the complete table as well
    as every table with one entry missing: the function invoked is the one registered for (class, method,
    format given); without a format the format is one that claims the file and, when exactly one claims it,
    that one whatever the order; parse/serialize never guess; duplicates are refused without effect.
(B1) every terminal state is replayed into the real RegionsRegistry with throw-away classes: the table of the
    state is registered through RegionsRegistry.register (identifiers in the state's order), the state's
    request is performed through RegionsRegistry.read/write/parse/serialize, and the function invoked / the
    exception must be the model's; duplicate registration must raise ValueError and leave the table and the
    registered function as they were.
(B2) the real identifiers is_ds9/is_crtf/is_fits are run on real files for every (extension, content
    signature, method) of the model and must answer Registry!Ident; RegionsRegistry.identify_format on the
    real Regions class must return the model's result for the real registration order.
"""
import gzip
import os

from .. import par, tlc

CFG = """SPECIFICATION Spec
CONSTANTS Classes <- {classes}
 Formats <- FormatsMC
 Exts <- {exts}
INVARIANT DupRefused
INVARIANT GivenFormatWins
INVARIANT IdentifiedClaims
INVARIANT UniqueClaimWins
INVARIANT NeverGuess
INVARIANT NoGuessParse
INVARIANT FormatsTableFaithful
INVARIANT WriteThenReadSameFormat
PROPERTY TableOnlyGrows
CHECK_DEADLOCK FALSE
"""
WRITE_EXTS = {'ds9': ['.ds9', '.reg'], 'crtf': ['.crtf'], 'fits': ['.fits', '.fit', '.fts']}


def ident_py(fmt, method, file):
    """Registry!Ident, used as the registered identifier of the throw-away classes."""
    if method == 'write':
        return file['ext'] in WRITE_EXTS[fmt]
    if method == 'read':
        return file['ext'] in WRITE_EXTS[fmt] + [e + '.gz' for e in WRITE_EXTS[fmt]] or file['sig'] == fmt
    return False


def _install(table, order, classes):
    """Register the model's table for fresh classes; returns (class map, function map)."""
    from regions.core.registry import RegionsRegistry
    cmap = {c: type('Model' + c, (), {}) for c in classes}
    funcs = {}

    def mk(key):
        c, m, f = key
        if m == 'identify':
            fn = lambda method, file, _f=f: ident_py(_f, method, file)  # noqa
        else:
            fn = lambda *a, _k=key, **kw: ('invoked', list(_k), a, kw)  # noqa
        return fn
    keys = [tuple(k) for k in table]
    ordered = [(c, 'identify', f) for f in order for c in classes if (c, 'identify', f) in keys]
    ordered += sorted(k for k in keys if k[1] != 'identify')
    for key in ordered:
        fn = mk(key)
        RegionsRegistry.register(cmap[key[0]], key[1], key[2])(fn)
        funcs[key] = fn
    return cmap, funcs


def _uninstall(cmap):
    from regions.core.registry import RegionsRegistry
    mine = set(cmap.values())
    for k in [k for k in RegionsRegistry.registry if k[0] in mine]:
        del RegionsRegistry.registry[k]


def _table_view(cmap):
    from regions.core.registry import RegionsRegistry
    rev = {v: k for k, v in cmap.items()}
    return sorted([rev[k[0]], k[1], k[2]] for k in RegionsRegistry.registry if k[0] in rev)


def replay_state(rec, st, idx):
    from regions.core.registry import IORegistryError, RegionsRegistry
    if st['pc'] != 'done':
        return
    rec.traces += 1
    classes = sorted({k[0] for k in st['reg']})
    res = list(st['res'])
    req = st['req']
    case = {'request': req, 'order': st['order'], 'model': res, 'table_size': len(st['reg'])}
    if req['cls'] == 'none':
        # a registration step: the pre-state table is reg (duplicate) or reg minus the key (new)
        key = tuple(res[1])
        pre = [k for k in st['reg'] if tuple(k) != key] if res[0] == 'registered' else list(st['reg'])
        cmap, funcs = _install(pre, list(st['order']), classes)
        try:
            before = _table_view(cmap)
            newfn = lambda *a, **kw: 'new'  # noqa
            try:
                RegionsRegistry.register(cmap[key[0]], key[1], key[2])(newfn)
                out = 'registered'
            except ValueError:
                out = 'ValueError'
            after = _table_view(cmap)
            rec.case(('register', res[0], key), True)
            if out != res[0]:
                rec.violation(f'C14|registry|register|{res[0]}', f'register{key}: model {res[0]}, registry {out}', case)
            elif out == 'ValueError' and (after != before or RegionsRegistry.registry[(cmap[key[0]], key[1], key[2])] is not funcs[key]):
                rec.violation('C14|registry|register|dup-changed-table', f'refused duplicate registration {key} changed the table or replaced the function', case)
            elif out == 'registered' and after != sorted(before + [list(key)]):
                rec.violation('C14|registry|register|table', f'registering {key} did not add exactly that entry', case)
        finally:
            _uninstall(cmap)
        return
    if req['method'] == 'get_formats':
        cmap, funcs = _install(st['reg'], list(st['order']), classes)
        try:
            tbl = RegionsRegistry.get_formats(cmap[req['cls']])
            cols = ['Parse', 'Serialize', 'Read', 'Write', 'Auto-identify']
            got = sorted([str(row['Format']), [str(row[c]) == 'Yes' for c in cols]] for row in tbl) if len(tbl) else []
            want = sorted([r[0], list(r[1])] for r in res[1])
            rec.case(('get_formats', req['cls'], len(st['reg'])), True)
            if got != want:
                rec.violation('C14|registry|get_formats', f'get_formats shows {got}, the table is {want}', case)
            elif len(tbl) and [str(x) for x in tbl['Format']] != sorted(str(x) for x in tbl['Format']):
                rec.violation('C14|registry|get_formats|order', 'the formats are not listed in alphabetical order', case)
        finally:
            _uninstall(cmap)
        return
    cmap, funcs = _install(st['reg'], list(st['order']), classes)
    try:
        C = cmap[req['cls']]
        fmt = None if req['format'] == 'none' else req['format']
        file = dict(req['file'])
        try:
            m = req['method']
            if m == 'read':
                got = RegionsRegistry.read(file, C, format=fmt, extra=1)
            elif m == 'write':
                got = RegionsRegistry.write('REGIONS', file, C, format=fmt, extra=1)
            elif m == 'parse':
                got = RegionsRegistry.parse('DATA', C, format=fmt, extra=1)
            else:
                got = RegionsRegistry.serialize('REGIONS', C, format=fmt, extra=1)
            out = ['invoked', got[1]]
            args = got[2:]
        except IORegistryError as ex:
            out = ['IORegistryError', 'no-format' if 'could not be identified' in str(ex) else 'no-function']
            args = None
        except Exception as ex:  # noqa
            out = [type(ex).__name__, str(ex)[:80]]
            args = None
        rec.case((req['cls'], req['method'], req['format'], file['ext'], file['sig'], tuple(st['order']), len(st['reg'])), res[0] == 'invoked' or req['format'] == 'none')
        if out != res:
            rec.violation(f"C14|registry|{req['method']}|{'format-given' if fmt else 'identify'}|{res[0]}",
                          f"{req['method']}(format={fmt}) on {file} with identifiers registered in the order {st['order']}: model {res}, registry {out}", dict(case, real=out))
        elif args is not None:
            want = {'read': ((file,), {'extra': 1}), 'write': (('REGIONS', file), {'extra': 1}), 'parse': (('DATA',), {'extra': 1}),
                    'serialize': (('REGIONS',), {'extra': 1})}[req['method']]
            if (tuple(args[0]), args[1]) != want:
                rec.violation(f"C14|registry|{req['method']}|arguments", f'the registered function was called with {args}, expected {want}', case)
        if _table_view(cmap) != sorted(list(k) for k in st['reg']):
            rec.violation(f"C14|registry|{req['method']}|table-changed", 'a call changed the registry table', case)
    finally:
        _uninstall(cmap)


# ---------------------------------------------------------------------------------------------------------------
def _content(sig):
    import warnings

    import astropy.units as u
    from astropy.coordinates import SkyCoord

    from regions import CirclePixelRegion, CircleSkyRegion, PixCoord, Regions
    regs = Regions([CirclePixelRegion(PixCoord(3, 4), 2.5)])
    if sig in ('ds9', 'crtf'):
        regs = Regions([CircleSkyRegion(SkyCoord(10, 20, unit='deg'), 3 * u.arcsec)])
    if sig == 'none':
        return b'just some text\nthat is no region file\n'
    with warnings.catch_warnings():
        warnings.simplefilter('ignore')
        if sig in ('ds9', 'crtf'):
            return regs.serialize(format=sig).encode()
        import io

        from astropy.io import fits
        tbl = regs.serialize(format='fits')
        buf = io.BytesIO()
        fits.HDUList([fits.PrimaryHDU(), fits.table_to_hdu(tbl)]).writeto(buf)
        return buf.getvalue()


def real_identifiers(ctx, exts, sc):
    """(B2) the real identifiers and identify_format on real files."""
    import warnings

    from regions import Regions
    from regions.core.registry import IORegistryError, RegionsRegistry
    from regions.io.crtf.connect import is_crtf
    from regions.io.ds9.connect import is_ds9
    from regions.io.fits.connect import is_fits
    real = {'ds9': is_ds9, 'crtf': is_crtf, 'fits': is_fits}
    order = [k[2] for k in RegionsRegistry.get_identifiers(Regions)]
    ctx.note('real_identifier_order', order)
    if sorted(order) != sorted(real):
        ctx.violation('C14|registry|identifiers', f'identifiers registered for Regions: {order}', {})
        return
    n = 0
    for ext in exts:
        for sig in ['none', 'ds9', 'crtf', 'fits']:
            path = os.path.join(sc, f'f_{sig}{ext}')
            data = _content(sig)
            if ext.endswith('.gz'):
                with gzip.open(path, 'wb') as f:
                    f.write(data)
            else:
                with open(path, 'wb') as f:
                    f.write(data)
            file = {'ext': ext, 'sig': sig}
            for method in ('read', 'write'):
                for f_, fn in real.items():
                    n += 1
                    with warnings.catch_warnings():
                        warnings.simplefilter('ignore')
                        try:
                            got = bool(fn(method, path))
                        except Exception as ex:  # noqa
                            got = f'raises {type(ex).__name__}'
                    want = ident_py(f_, method, file)
                    ctx.case(('ident', f_, method, ext, sig), True)
                    if got != want:
                        ctx.violation(f'C14|registry|identifier|{f_}|{method}', f'is_{f_}({method!r}, file with extension {ext!r} and {sig} content) = {got}, Registry!Ident says {want}',
                                      {'extension': ext, 'content': sig, 'method': method})
                claim = [f_ for f_ in order if ident_py(f_, method, file)]
                want = claim[0] if claim else 'IORegistryError'
                with warnings.catch_warnings():
                    warnings.simplefilter('ignore')
                    try:
                        got = RegionsRegistry.identify_format(path, Regions, method)
                    except IORegistryError:
                        got = 'IORegistryError'
                    except Exception as ex:  # noqa
                        got = f'raises {type(ex).__name__}'
                if got != want:
                    ctx.violation(f'C14|registry|identify_format|{method}', f'identify_format(file with extension {ext!r} and {sig} content, {method!r}) = {got}, the model says {want} '
                                  f'(claimed by {claim}, identifiers in the order {order})', {'extension': ext, 'content': sig, 'method': method})
            os.unlink(path)
    ctx.traces += n
    ctx.note('real_identifier_evaluations', n)


EXTS = {'ExtsQuick': ['.reg', '.crtf', '.fits', '.dat', '.reg.gz', '.fits.gz', '.dat.gz'],
        'ExtsAll': ['.reg', '.ds9', '.crtf', '.fits', '.fit', '.fts', '.dat', '.txt', '.reg.gz', '.ds9.gz', '.crtf.gz', '.fits.gz', '.fit.gz', '.fts.gz', '.dat.gz', '.gz']}


def run(ctx, sc):
    quick = ctx.tier == 'quick'
    exts = 'ExtsQuick' if quick else 'ExtsAll'
    res = tlc.run('MC_Registry', cfg_text=CFG.format(classes='ClassesOne' if quick else 'ClassesMC', exts=exts), dump=True, tag='c14reg', timeout=3000)
    ctx.tlc(res, 'MC_Registry: every registration order x complete / one-entry-missing tables x requests')
    if res.violated:
        ctx.violation(f'C14|model|{res.violated}', f'Registry.tla: {res.violated} fails in the model', {'trace': res.trace[-2:]})
    else:
        before = ctx.traces
        par.pmap_dump(ctx, replay_state, res.dump_path, only='pc = "done"', stride=1 if quick else 3)
        ctx.note('registry_states_replayed', ctx.traces - before)
        if ctx.traces == before:
            raise tlc.TlcError('no registry state was replayed')
    tlc.cleanup(res.workdir)
    real_identifiers(ctx, EXTS['ExtsAll'], sc)
