"""C04 — bounding boxes enclose the region, are minimal, and confine the mask.

(A) TLC: MC_Geometry 'bbox' over all families: every member lattice point lies inside the box's
    pixel-edge extent (InvEnclosed), the box translates with the shape (InvBoxTranslates); the
    box itself is the exact floor/ceil of the true extent (squares compared, no floats) and a
    compound's box is the union of its operands' boxes (Geometry!BoxOf).
(B) every returning state is replayed: region.bounding_box and to_mask('center').bbox must be the
    model's four integers (integer translation applied); extremes that lie exactly on a pixel
    edge through a non-axis rotation may round either way (aligned).
(C) random shapes on 1/2 .. 1/16 pixel lattices (so that extremes sit on, just below and just
    above every rounding boundary), random translations, validated by Trace_Geometry.
"""
import random

from .. import geom, geomgen, tlc
from ..tlaparse import parse_dump
from .c01 import cfg, kind_sig, validate_events


def exact_dirs(s, av=0):
    """The float computation of the extent is exact only for unrotated shapes whose angle value is exactly 0
    (cos(pi), sin(pi/2), cos(2 pi) ... carry 1e-16 residues that legitimately move an aligned extreme)."""
    if s['k'] == 'compound':
        return exact_dirs(s['a'], av) and exact_dirs(s['b'], av)
    return 'd' not in s or (list(s['d']) == [1, 0, 1] and av in (0, 1, 2))


def real_box(region):
    b = region.bounding_box
    return [int(b.ixmin), int(b.ixmax), int(b.iymin), int(b.iymax)]


def mask_box(region):
    try:
        m = region.to_mask(mode='center')
    except NotImplementedError:
        return None
    b = m.bbox
    return [int(b.ixmin), int(b.ixmax), int(b.iymin), int(b.iymax)], tuple(m.data.shape)


def use_once(r):
    from regions import PixCoord
    out = [r.bounding_box]
    for f in (lambda: r.contains(PixCoord(0.5, 1.0)), lambda: r.to_mask(mode='center'), lambda: r.area):
        try:
            out.append(f())
        except (ValueError, NotImplementedError):
            pass
    return out


def regular_polygon_boxes(ctx, rnd):
    """Regular polygons (3..13 vertices, any angle): the box the region reports and the box its mask carries cover the extent of the
    vertices RegPoly.tla defines (first vertex at angle + 90 deg, one exterior angle apart) and are the smallest that do -
    BBoxClosed!VCover on the extremes in units of 2^-20 pixel, validated by Trace_BBox."""
    import json
    import math
    import os

    import astropy.units as u
    from regions import PixCoord, RegularPolygonPixelRegion
    events, meta = [], []
    for t in range(240 if ctx.tier == 'quick' else 3000):
        n = rnd.choice([3, 4, 5, 6, 7, 8, 9, 11, 12, 13])
        cx, cy = rnd.uniform(-400, 400), rnd.uniform(-400, 400)
        r = rnd.choice([rnd.uniform(0.6, 3.0), rnd.uniform(3.0, 40.0)])
        ang = rnd.uniform(-360.0, 360.0)
        th = [math.radians(ang + 90.0 + 360.0 * k / n) for k in range(n)]
        xs, ys = [cx + r * math.cos(a) for a in th], [cy + r * math.sin(a) for a in th]
        flt = [math.floor(v * 2 ** 20) for v in (min(xs), max(xs), min(ys), max(ys))]
        try:
            reg = RegularPolygonPixelRegion(PixCoord(cx, cy), n, r, angle=[ang * u.deg, math.radians(ang) * u.rad][t % 2])
            boxes = [('bounding_box', reg.bounding_box), ('mask-center', reg.to_mask(mode='center').bbox),
                     ('mask-subpixels', reg.to_mask(mode='subpixels', subpixels=2).bbox)]
        except Exception as ex:  # noqa
            ctx.violation(f'C04|bbox|regpoly|{type(ex).__name__}', f'bounding box / mask of a regular polygon raised {ex!r}', {'n': n, 'center': [cx, cy], 'radius': r, 'angle_deg': ang})
            continue
        for what, b in boxes:
            events.append({'op': 'cover', 'flt': flt, 'res': [int(b.ixmin), int(b.ixmax), int(b.iymin), int(b.iymax)]})
            meta.append({'what': what, 'nvertices': n, 'center': [cx, cy], 'radius': r, 'angle_deg': ang})
    wd = tlc.workdir('c04regpoly')
    path = os.path.join(wd, 'events.json')
    with open(path, 'w') as f:
        json.dump(events, f)
    res = tlc.run('Trace_BBox', cfg='Trace_BBox.cfg', dump=True, env={'TRACE_FILE': path}, tag='c04regpoly')
    ctx.tlc(res, 'Trace_BBox: boxes of regular polygons cover the extent of their vertices and are the smallest that do')
    seen = 0
    for st in res.states():
        seen += 1
        e, mt = events[st['i'] - 1], meta[st['i'] - 1]
        ctx.case(('regpoly-box', mt['nvertices'], st['i']), True)
        if st['verdict'] != 'ok':
            ctx.violation(f"C04|regpoly|{st['verdict']}|{mt['what']}|{'odd' if mt['nvertices'] % 2 else 'even'}",
                          f"regular polygon with {mt['nvertices']} vertices: {mt['what']} {e['res']} rejected by BBoxClosed!VCover: {st['verdict']}", dict(mt, extent_2p20=e['flt'], box=e['res']))
    if seen != len(events):
        raise tlc.TlcError('Trace_BBox verdict count mismatch (regular polygons)')
    ctx.traces += seen
    ctx.note('regular_polygon_boxes', seen)
    tlc.cleanup(res.workdir)
    tlc.cleanup(wd)


def run(ctx):
    quick = ctx.tier == 'quick'
    rnd = random.Random(ctx.seed * 1000003 + 4)
    for fam, wlo, whi in (('FamSimple', -12, 12), ('FamCompound', -14, 20)):
        res = tlc.run('MC_Geometry', cfg_text=cfg(fam, 'OpsBBox', wlo, whi, ['InvEnclosed', 'InvBoxTranslates']),
                      dump=True, coverage=True, tag='c04')
        ctx.tlc(res, f'MC_Geometry bbox {fam}')
        if res.violated:
            ctx.violation(f'C04|model|{res.violated}', f'Geometry.tla: invariant {res.violated} fails in the model', {'trace': res.trace})
            tlc.cleanup(res.workdir)
            continue
        n = 0
        for st in parse_dump(res.dump_path, only='pc = "ret"'):
            s, m = st['shape'], st['res']
            n += 1
            tx, ty = rnd.choice([(0, 0), (3, -5), (1000, 77), (-10000, 4096), (10 ** 6, -3 * 10 ** 6)])
            fr = geom.Frame(2, 1.0, float(tx), float(ty), rnd.randint(0, 5), ints=(n % 5 == 3))     # whole numbers as Python ints, odd whole sizes as unsigned numpy integers
            want = [m['box'][0] + tx, m['box'][1] + tx, m['box'][2] + ty, m['box'][3] + ty]
            try:
                if n % 4 == 2:
                    region = geom.build_via_assign(s, fr, use_once)      # other parameters first, used once (box, mask, membership), then assigned
                else:
                    region = geom.build(s, fr)
                got = real_box(region)
                mb = mask_box(region)
            except Exception as ex:
                ctx.violation(f"C04|bbox|{kind_sig(s)}|{type(ex).__name__}", f'bounding_box raised {ex!r}', {'shape': s})
                continue
            loose = m['aligned'] and not exact_dirs(s, fr.av)
            ctx.case(('bbox', geom.shape_key(s)), True)
            if loose:
                ctx.dontcare += 1
            ok = got == want or (loose and all(abs(a - b) <= 1 for a, b in zip(got, want)))
            if not ok:
                ctx.violation(f'C04|bbox|{kind_sig(s)}', f'bounding_box is {got}, exact model says {want}',
                              {'shape': s, 'translation': [tx, ty], 'model': want, 'real': got, 'aligned': m['aligned']})
            elif mb is not None and (mb[0] != got or mb[1] != (got[3] - got[2], got[1] - got[0])):
                ctx.violation(f'C04|maskbox|{kind_sig(s)}', f'mask carries box {mb[0]} shape {mb[1]}, region reports {got}',
                              {'shape': s, 'mask_box': mb[0], 'mask_shape': list(mb[1]), 'region_box': got})
            elif n % 499 == 0:
                ctx.sample({'shape': s, 'translation': [tx, ty], 'box': got})
        ctx.traces += n
        ctx.note(f'replayed_{fam}', n)
        tlc.cleanup(res.workdir)
    trace_validation(ctx, rnd)
    regular_polygon_boxes(ctx, rnd)
    ctx.assumptions += ['extremes exactly on a pixel edge reached through a non-axis rotation may round either way',
                        'minimality is decided against the exact extent formula (squares compared), not against a second float computation']


def trace_validation(ctx, rnd):
    n = 2500 if ctx.tier == 'quick' else 40000
    events = []
    for i in range(n):
        U = rnd.choice([2, 4, 8, 16])
        smax = {2: 12, 4: 24, 8: 40, 16: 60}[U]
        if i % 7 == 0:
            # shapes smaller than a pixel, anywhere inside their pixel: the box is still the pixels the extent touches, nothing more
            U, smax = 16, 10
        if rnd.random() < 0.75:
            s = geomgen.simple(rnd, cmax=2 * U, smax=smax, small_dirs=(U > 4))
        else:
            s = geomgen.compound(rnd, rnd.randint(1, 2), kinds=None, cmax=2 * U, smax=smax, small_dirs=(U > 4))
        if rnd.random() < 0.4:     # axis-aligned: extremes land exactly on the lattice, strict comparison
            s = force_axis(s, rnd)
        if i % 11 == 5:
            # a polygon whose every vertex lies on pixel edges (half-integers), with 3, 5, 6 or 7 vertices (their mean is not a binary fraction):
            # the box is that of the extreme vertices, no extra row or column
            U = 2
            nv = rnd.choice([3, 5, 6, 7])
            while True:
                vs = [[2 * rnd.randint(-12, 12) + 1, 2 * rnd.randint(-12, 12) + 1] for _ in range(nv)]
                if len({tuple(v) for v in vs}) >= 3:
                    break
            s = {'k': 'polygon', 'vs': vs, 'inc': rnd.choice(geomgen.INCS)}
        tx, ty = rnd.choice([(0, 0), (3, -5), (1000, 77), (-10000, 4096), (10 ** 6, -3 * 10 ** 6)])
        fr = geom.Frame(U, 1.0, float(tx), float(ty), rnd.randint(0, 5))
        grow = 1 if (s['k'] in ('circle', 'ellipse', 'rectangle') and i % 3 == 0 and abs(tx) < 10 ** 5) else 0
        try:
            region = geom.build(s, fr)
            if grow:
                # every size a hair larger (2^-30 relative: far above rounding noise, far below anything a tolerance would be set to):
                # extremes that lay exactly on a pixel edge now poke past it
                for nm in ('radius', 'width', 'height'):
                    if hasattr(region, nm):
                        setattr(region, nm, getattr(region, nm) * (1.0 + 2.0 ** -30))
            got = real_box(region)
        except Exception as ex:
            ctx.violation(f"C04|trace|{kind_sig(s)}|{type(ex).__name__}", f'bounding_box raised {ex!r}', {'shape': s, 'U': U})
            continue
        box = [got[0] - tx, got[1] - tx, got[2] - ty, got[3] - ty]
        events.append({'ev': 'bbox', 'shape': s, 'U': U, 'box': box, 'exact': exact_dirs(s, fr.av), 'grow': grow, 'frame': vars(fr)})
    validate_events(ctx, events, 'C04')


def force_axis(s, rnd):
    s = dict(s)
    if s['k'] == 'compound':
        s['a'] = force_axis(s['a'], rnd)
        s['b'] = force_axis(s['b'], rnd)
    elif 'd' in s:
        s['d'] = list(rnd.choice([(1, 0, 1), (1, 0, 1), (0, 1, 1), (-1, 0, 1)]))
    return s
