"""C06 — pixel<->sky conversion round-trips and membership is conversion-invariant.

(A) TLC checks Wcs.tla on the conformal affine abstraction: ToPixel(ToSky(r)) = r on class,
    geometry, include flag and visual for every class incl. compounds (InvRoundTrip), the sky
    description is independent of how the WCS is rotated (InvAngleLaw), sizes scale (InvSizes).
(B) every state (WCS record x region) is replayed on a real astropy WCS built from the record
    (frame / projection / reference coordinate are don't-care configuration, rotated through a
    pool): real to_sky / to_pixel must return the corresponding classes, geometry within 1e-6
    relative after the round trip, equal meta/visual/include; sky membership must agree with the
    pixel image's membership at positions away from the boundary.
(C) random walks to_sky / to_pixel / copy / combine of length <= 10 over real regions, logged
    and validated step by step by Trace_Wcs.tla.
"""
import json
import math
import operator
import os
import random
import warnings

import numpy as np

from .. import tlc, wcsutil
from ..tlaparse import parse_dump

U = 4                     # model lengths are quarter pixels
BASE_ARCSEC = 0.0907213568   # model scale 1 = about 0.09 arcsec / pixel (2.5e-5 deg); deliberately not a round number
CFG = """SPECIFICATION Spec
CONSTANTS Rots <- {rots}
 Scales <- {scales}
 Parities <- {par}
 Regions <- {regs}
INVARIANT InvRoundTrip
INVARIANT InvAngleLaw
INVARIANT InvSizes
CHECK_DEADLOCK FALSE
"""
FRAMES = ['icrs', 'fk5', 'fk4', 'galactic']
PROJS = ['TAN', 'SIN', 'CAR']
OPS = {'and': operator.and_, 'or': operator.or_, 'xor': operator.xor}
SKYCLS = {'CirclePixelRegion': 'CircleSkyRegion', 'EllipsePixelRegion': 'EllipseSkyRegion', 'RectanglePixelRegion': 'RectangleSkyRegion',
          'PolygonPixelRegion': 'PolygonSkyRegion', 'CircleAnnulusPixelRegion': 'CircleAnnulusSkyRegion',
          'EllipseAnnulusPixelRegion': 'EllipseAnnulusSkyRegion', 'RectangleAnnulusPixelRegion': 'RectangleAnnulusSkyRegion',
          'PointPixelRegion': 'PointSkyRegion', 'TextPixelRegion': 'TextSkyRegion', 'LinePixelRegion': 'LineSkyRegion',
          'CompoundPixelRegion': 'CompoundSkyRegion'}


BASE6 = 0.0101371934      # C06 runs the model with a scale unit of about 0.01 arcsec / pixel (set S6); not a round number, so that angular sizes are not either


def real_wcs(w, k, crpix=None, lat=None, base=None):
    frame = FRAMES[k % len(FRAMES)]
    proj = PROJS[(k // 4) % len(PROJS)]
    crval = ((37.0 * k) % 360.0, lat if lat is not None else [20.0, -45.0, 0.0, 60.0, -5.0][k % 5])
    if proj == 'CAR':
        crval = (crval[0], 0.0)           # CAR is conformal only on the equator
    scale_deg = w['scale'] * (base or BASE_ARCSEC) / 3600.0
    return wcsutil.make_wcs(scale_deg, tuple(w['rot']), w['parity'], frame, proj, crval, crpix or (8.0, -4.0)), (frame, proj, crval)


def ang(d):
    import astropy.units as u
    return math.degrees(math.atan2(d[1], d[0])) * u.deg


ROUTE = [0]          # polygons are built through three routes in turn


_INC = [0]


def build_pix(r):
    import regions as R
    from regions import PixCoord, RegionMeta, RegionVisual
    k = r['k']
    meta = RegionMeta({'label': 'L'})
    if r['inc'] != 'absent':
        meta['include'] = {'F': False, 'T': True, '0': 0, '1': 1}[r['inc']]
        if r['inc'] == 'F':
            # a false include flag in any of the forms the package itself stores (False; the integer 0 of the DS9 / FITS readers; numpy's False)
            _INC[0] += 1
            meta['include'] = [False, 0, np.False_][_INC[0] % 3]
    vis = RegionVisual({'color': 'red', 'linewidth': 2})
    kw = {'meta': meta, 'visual': vis}
    if k == 'compound':
        a, b = build_pix(r['a']), build_pix(r['b'])
        if r['inc'] == 'absent' and r['a']['inc'] != 'absent':
            # the compound has its own, explicitly empty, meta while its first operand is excluded
            return R.CompoundPixelRegion(a, b, OPS[r['op']], meta=RegionMeta(), visual=RegionVisual())
        return R.CompoundPixelRegion(a, b, OPS[r['op']], **kw)
    c = PixCoord(r['cx'] / U, r['cy'] / U)
    if k == 'circle':
        return R.CirclePixelRegion(c, r['r'] / U, **kw)
    if k in ('ellipse', 'rectangle'):
        cls = R.EllipsePixelRegion if k == 'ellipse' else R.RectanglePixelRegion
        return cls(c, r['w'] / U, r['h'] / U, angle=ang(r['d']), **kw)
    if k == 'cannulus':
        return R.CircleAnnulusPixelRegion(c, r['r1'] / U, r['r2'] / U, **kw)
    if k in ('eannulus', 'rannulus'):
        cls = R.EllipseAnnulusPixelRegion if k == 'eannulus' else R.RectangleAnnulusPixelRegion
        return cls(c, r['w1'] / U, r['w2'] / U, r['h1'] / U, r['h2'] / U, angle=ang(r['d']), **kw)
    if k == 'point':
        return R.PointPixelRegion(c, **kw)
    if k == 'text':
        ROUTE[0] += 1
        return R.TextPixelRegion(c, 'label text', meta=meta, visual=RegionVisual({'color': 'red', 'rotation': [15.0, 0.0, 0][ROUTE[0] % 3]}))
    if k == 'line':
        return R.LinePixelRegion(c, PixCoord(r['x2'] / U, r['y2'] / U), **kw)
    if k == 'polygon':
        xs, ys = np.array([v[0] / U for v in r['vs']]), np.array([v[1] / U for v in r['vs']])
        ROUTE[0] += 1
        route = ROUTE[0] % 3
        if route == 1:          # vertices given relative to an origin
            return R.PolygonPixelRegion(PixCoord(xs - 140.0, ys - 95.0), origin=PixCoord(140.0, 95.0), **kw)
        if route == 2:          # vertices assigned after construction
            reg = R.PolygonPixelRegion(PixCoord(xs[::-1] * 2.0 + 7.0, ys[::-1] - 3.0), **kw)
            reg.vertices = PixCoord(xs, ys)
            return reg
        return R.PolygonPixelRegion(PixCoord(xs, ys), **kw)
    raise ValueError(k)


def pix_params(reg):
    """flat list of (name, value, kind) for comparison; kind in pos/len/ang."""
    from regions.core.compound import CompoundPixelRegion
    if isinstance(reg, CompoundPixelRegion):
        return [('op', reg.operator.__name__, 'tag')] + [('a.' + n, v, k) for n, v, k in pix_params(reg.region1)] + \
            [('b.' + n, v, k) for n, v, k in pix_params(reg.region2)]
    out = [('class', type(reg).__name__, 'tag')]
    for p in reg._params:
        v = getattr(reg, p)
        if p == 'text':
            out.append((p, v, 'tag'))
        elif hasattr(v, 'x'):
            out.append((p + '.x', np.atleast_1d(v.x).astype(float), 'pos'))
            out.append((p + '.y', np.atleast_1d(v.y).astype(float), 'pos'))
        elif p == 'angle':
            out.append((p, float(v.to_value('rad')), 'ang'))
        else:
            out.append((p, float(v), 'len'))
    return out


def close_pix(a, b, rtol, scale_len):
    pa, pb = pix_params(a), pix_params(b)
    if [n for n, _, _ in pa] != [n for n, _, _ in pb]:
        return 'structure differs'
    for (n, va, k), (_, vb, _) in zip(pa, pb):
        if k == 'tag':
            if va != vb:
                return f'{n}: {va} != {vb}'
        elif k == 'pos':
            if va.shape != vb.shape or np.max(np.abs(va - vb), initial=0.0) > rtol * max(scale_len, 1.0):
                return f'{n}: {va} != {vb}'
        elif k == 'len':
            if abs(va - vb) > rtol * abs(vb):
                return f'{n}: {va!r} != {vb!r}'
        elif k == 'ang':
            if abs(math.remainder(va - vb, 2 * math.pi)) > rtol:
                return f'{n}: {va!r} != {vb!r} rad'
    return None


def meta_same(a, b):
    from regions.core.compound import CompoundPixelRegion, CompoundSkyRegion
    if dict(a.meta) != dict(b.meta) or dict(a.visual) != dict(b.visual):
        return False
    if isinstance(a, (CompoundPixelRegion, CompoundSkyRegion)):
        return meta_same(a.region1, b.region1) and meta_same(a.region2, b.region2)
    return True


def kindsig(r):
    return r['k'] if r['k'] != 'compound' else f"compound-{r['op']}"


def check_state(ctx, st, idx, pid='C06'):
    from regions import PixCoord
    w, r = st['w'], st['pix']
    # at the coarse end of the scale range the reference pixel lies a few hundred pixels from the region, where a projection visibly
    # stretches the sky (the pixel image of a sky shape is still the shape the local scale and angle give)
    coarse = w['scale'] >= 10000
    wcs, conf = real_wcs(w, idx, crpix=(258.0, -154.0) if coarse and idx % 2 else ((-172.0, 196.0) if coarse else None), base=BASE6)
    case = {'wcs': w, 'config': conf, 'region': r}
    sig = f'{pid}|'
    try:
        pix = build_pix(r)
        pre = (dict(pix.meta), dict(pix.visual))
        with warnings.catch_warnings():
            warnings.simplefilter('ignore')
            sky = pix.to_sky(wcs)
            if (dict(pix.meta), dict(pix.visual)) != pre:
                ctx.violation(sig + f'meta|{kindsig(r)}|source-changed', f'to_sky changed the meta/visual of the region it converts: {pre} -> {(dict(pix.meta), dict(pix.visual))}', case)
                return True
            back = sky.to_pixel(wcs)
            sky2 = back.to_sky(wcs)
    except Exception as ex:  # noqa
        ctx.violation(sig + f'raises|{kindsig(r)}|{type(ex).__name__}', f'conversion raised {ex!r}', case)
        return True
    ctx.case((json.dumps(w), json.dumps(r, sort_keys=True), conf[0], conf[1]), True)
    # regions made without meta/visual have their own empty ones: editing those of one region never shows in another region
    if r['k'] != 'compound':
        try:
            with warnings.catch_warnings():
                warnings.simplefilter('ignore')
                bare = type(pix)(**{pn: getattr(pix, pn) for pn in pix._params})
                bare.meta['include'] = False
                bare.meta['label'] = 'somebody else'
                bare.visual['color'] = 'blue'
                sky0 = type(sky)(**{pn: getattr(sky, pn) for pn in sky._params})
                p0 = sky0.to_pixel(wcs)
                s0 = type(pix)(**{pn: getattr(pix, pn) for pn in pix._params}).to_sky(wcs)
            for nm, obj in (('a sky region made without meta', sky0), ('its pixel image', p0), ('the sky image of a pixel region made without meta', s0)):
                if dict(obj.meta) or dict(obj.visual):
                    ctx.violation(sig + f'meta|{kindsig(r)}|leak', f'{nm} carries meta {dict(obj.meta)} / visual {dict(obj.visual)} after another region of the class was edited in place', case)
                    return True
        except Exception as ex:  # noqa
            ctx.violation(sig + f'meta|{kindsig(r)}|leak-raises|{type(ex).__name__}', f'{ex!r}', case)
            return True
    if type(sky).__name__ != SKYCLS[type(pix).__name__] or type(back) is not type(pix):
        ctx.violation(sig + f'class|{kindsig(r)}', f'{type(pix).__name__} -> {type(sky).__name__} -> {type(back).__name__}', case)
        return True
    text_rot = r['k'] == 'text'
    if not text_rot and not (meta_same(pix, back) and dict(sky.meta) == dict(pix.meta) and dict(sky.visual) == dict(pix.visual)):
        ctx.violation(sig + f'meta|{kindsig(r)}', f'meta/visual not preserved: pixel {dict(pix.meta)} {dict(pix.visual)} -> sky {dict(sky.meta)} {dict(sky.visual)} -> pixel {dict(back.meta)} {dict(back.visual)}', case)
        return True
    if text_rot:
        ok = dict(back.meta) == dict(pix.meta) and set(back.visual) == set(pix.visual) and abs(back.visual['rotation'] - pix.visual['rotation']) < 1e-6 \
            and back.visual['color'] == pix.visual['color']
        if not ok:
            ctx.violation(sig + 'meta|text', f'text meta/visual not preserved: {dict(pix.visual)} -> {dict(sky.visual)} -> {dict(back.visual)}', case)
            return True
    if text_rot:
        # sky first: a sky text whose rotation is exactly 0 (or any other value) points (north - 90 deg) + rotation in the image, and comes back
        import regions as R_
        from regions import RegionVisual as RV_
        for rot0 in (0.0, 0, 40.0):
            with warnings.catch_warnings():
                warnings.simplefilter('ignore')
                s0 = R_.TextSkyRegion(sky.center, 'label text', visual=RV_({'rotation': rot0}))
                p0 = s0.to_pixel(wcs)
                s1 = p0.to_sky(wcs)
            exp = math.degrees(math.atan2(w['parity'] * w['rot'][1], w['rot'][0])) + rot0
            d0 = math.remainder(float(p0.visual.get('rotation', 1e9)) - exp, 360.0)
            d1 = math.remainder(float(s1.visual.get('rotation', 1e9)) - rot0, 360.0)
            if (abs(d0) > 0.5 and not coarse) or abs(d1) > 1e-6:      # (far from the reference pixel local north turns with the meridians: no closed form here)
                ctx.violation(sig + 'meta|text|sky-first-rotation', f"a sky text with rotation {rot0!r}: pixel rotation {p0.visual.get('rotation')!r} (expected about {exp:.3f}), "
                              f"back on the sky {s1.visual.get('rotation')!r}", case)
                return True
    why = close_pix(back, pix, 1e-6, 30.0)
    if why:
        ctx.violation(sig + f'roundtrip|{kindsig(r)}', f'pixel -> sky -> pixel changes the geometry: {why}', case)
        return True
    back2 = sky2.to_pixel(wcs)
    why = close_pix(back2, back, 1e-6, 30.0)
    if why:
        ctx.violation(sig + f'roundtrip-sky|{kindsig(r)}', f'sky -> pixel -> sky -> pixel drifts: {why}', case)
        return True
    # the same sky region described in other units (angle in rad / arcmin, sizes in arcsec / arcmin) has the same pixel image
    if r['k'] not in ('compound', 'point', 'line', 'text', 'polygon'):
        import astropy.units as u
        try:
            with warnings.catch_warnings():
                warnings.simplefilter('ignore')
                kw = {}
                for pn in sky._params:
                    v = getattr(sky, pn)
                    if pn == 'angle':
                        v = v.to([u.rad, u.arcmin, u.deg][idx % 3])
                    elif pn != 'center':
                        v = v.to([u.arcsec, u.arcmin, u.rad][(idx // 3) % 3])
                    kw[pn] = v
                other = type(sky)(**kw, meta=sky.meta.copy(), visual=sky.visual.copy()).to_pixel(wcs)
            why = close_pix(other, back, 1e-6, 30.0)
            if why:
                ctx.violation(sig + f'units|{kindsig(r)}', f'the same sky region given in other units ({ {k: str(getattr(v, "unit", "")) for k, v in kw.items() if k != "center"} }) has another pixel image: {why}', case)
                return True
        except Exception as ex:  # noqa
            ctx.violation(sig + f'units-raises|{kindsig(r)}|{type(ex).__name__}', f'sky region given in other units: to_pixel raised {ex!r}', case)
            return True
    # a circle / circular annulus whose centre is given in FK5 at another equinox (same point of the sky, same sizes) has the same pixel image
    # (not at the coarse end: 12 degrees off the axis of a projection the local scale differs by direction, and the code measures it along the
    # north of the frame the centre is given in - the pixel image then depends on that frame at the per-cent level, which the statement does not exclude)
    if r['k'] in ('circle', 'cannulus') and conf[0] != 'fk4' and not coarse:       # (FK4 <-> FK5 is not a pure rotation: astropy's own round trip is only good to ~1e-4 px)
        from astropy.coordinates import FK5
        try:
            with warnings.catch_warnings():
                warnings.simplefilter('ignore')
                kw = {pn: getattr(sky, pn) for pn in sky._params}
                kw['center'] = sky.center.transform_to(FK5(equinox=['J1975', 'J2010.5'][idx % 2]))
                other = type(sky)(**kw, meta=sky.meta.copy(), visual=sky.visual.copy()).to_pixel(wcs)
            why = close_pix(other, back, 1e-6, 30.0)
            if why:
                ctx.violation(sig + f'frame-attributes|{kindsig(r)}', f'the same sky region with its centre given in FK5 at another equinox has another pixel image: {why}', case)
                return True
        except Exception as ex:  # noqa
            ctx.violation(sig + f'frame-attributes-raises|{kindsig(r)}|{type(ex).__name__}', f'{ex!r}', case)
            return True
    # a sky line whose end point is given in another celestial frame than its start point is the same line
    if r['k'] == 'line' and conf[0] != 'fk4':
        try:
            with warnings.catch_warnings():
                warnings.simplefilter('ignore')
                other_frame = 'galactic' if sky.start.frame.name != 'galactic' else 'icrs'
                other = type(sky)(sky.start, sky.end.transform_to(other_frame), meta=sky.meta.copy(), visual=sky.visual.copy()).to_pixel(wcs)
            why = close_pix(other, back, 1e-6, 30.0)
            if why:
                ctx.violation(sig + 'mixed-frames|line', f'the same sky line with its end point given in {other_frame} has another pixel image: {why}', case)
                return True
        except Exception as ex:  # noqa
            ctx.violation(sig + f'mixed-frames-raises|line|{type(ex).__name__}', f'{ex!r}', case)
            return True
    # an ellipse / rectangle (annulus) given in another celestial frame than the image's - same centre on the sky, same sizes, the angle
    # reduced by the position angle its frame's north makes with the image frame's north there (measured with astropy alone) - is the same
    # region and has the same pixel image (same regime as above)
    if r['k'] in ('ellipse', 'rectangle', 'eannulus', 'rannulus') and conf[0] != 'fk4' and not coarse:
        import astropy.units as u
        try:
            with warnings.catch_warnings():
                warnings.simplefilter('ignore')
                other_frame = 'galactic' if sky.center.frame.name != 'galactic' else 'icrs'
                cr = sky.center.transform_to(other_frame)
                delta = sky.center.position_angle(cr.directional_offset_by(0 * u.deg, 2 * u.arcsec).transform_to(sky.center.frame))
                kw = {pn: getattr(sky, pn) for pn in sky._params}
                kw['center'] = cr
                # angles are counted counter-clockwise IN THE IMAGE: on a mirrored image the turn between the two norths has the other sign
                kw['angle'] = sky.angle - w['parity'] * delta
                other = type(sky)(**kw, meta=sky.meta.copy(), visual=sky.visual.copy()).to_pixel(wcs)
            why = close_pix(other, back, 1e-6, 30.0)
            if why:
                ctx.violation(sig + f'other-frame|{kindsig(r)}', f'the same sky region given in {other_frame} (angle relative to that frame\'s north, counted counter-clockwise in the image) has another pixel image: {why}', case)
                return True
        except Exception as ex:  # noqa
            ctx.violation(sig + f'other-frame-raises|{kindsig(r)}|{type(ex).__name__}', f'{ex!r}', case)
            return True
    # sky -> pixel -> sky starting from a sky compound built directly, with its own explicitly empty meta
    if r['k'] == 'compound':
        import regions as R
        from regions import RegionMeta, RegionVisual
        try:
            with warnings.catch_warnings():
                warnings.simplefilter('ignore')
                skyc = R.CompoundSkyRegion(sky.region1, sky.region2, sky.operator, meta=RegionMeta(), visual=RegionVisual())
                pixc = skyc.to_pixel(wcs)
                g = np.arange(0.0, 22.0, 1.5)
                gx, gy = [v.ravel() for v in np.meshgrid(g + r['a'].get('cx', 40) / U - 10, g + r['a'].get('cy', -24) / U - 10)]
                a1 = np.asarray(skyc.contains(wcs.pixel_to_world(gx, gy), wcs))
                a2 = np.asarray(pixc.contains(PixCoord(gx, gy)))
            if dict(pixc.meta) != dict(skyc.meta) or dict(pixc.visual) != dict(skyc.visual):
                ctx.violation(sig + f'sky-first-meta|{kindsig(r)}', f'sky compound with meta {dict(skyc.meta)} converts to a pixel compound with meta {dict(pixc.meta)}', case)
                return True
            if (a1 != a2).mean() > 0.2:
                ctx.violation(sig + f'sky-first-member|{kindsig(r)}', 'a sky compound and its pixel image disagree on most positions (include sense changed by the conversion)', case)
                return True
        except Exception as ex:  # noqa
            ctx.violation(sig + f'sky-first-raises|{kindsig(r)}|{type(ex).__name__}', f'sky compound conversion raised {ex!r}', case)
            return True
        # a compound takes any binary callable: with a non-commutative one (set difference) the operands keep their places; and the
        # answer for a batch that lies wholly outside the first operand (and for single far positions) is still that of the pixel image
        try:
            with warnings.catch_warnings():
                warnings.simplefilter('ignore')
                diff = lambda a, b: np.logical_and(a, np.logical_not(b))  # noqa
                for opname, op_, meta_ in (('difference', diff, RegionMeta()), ('and', sky.operator, sky.meta.copy()), ('difference-excluded', diff, RegionMeta({'include': False}))):
                    for first, second in ((sky.region1, sky.region2), (sky.region2, sky.region1)):
                        sc_ = R.CompoundSkyRegion(first, second, op_, meta=meta_.copy(), visual=RegionVisual())
                        pc_ = sc_.to_pixel(wcs)
                        far = wcs.pixel_to_world(gx + 500.0, gy - 300.0)
                        for what, pos_sky, pos_pix in (('window', wcs.pixel_to_world(gx, gy), PixCoord(gx, gy)), ('far batch', far, PixCoord(gx + 500.0, gy - 300.0)),
                                                       ('far scalar', wcs.pixel_to_world(gx[0] + 500.0, gy[0] - 300.0), PixCoord(gx[0] + 500.0, gy[0] - 300.0))):
                            b1 = np.asarray(sc_.contains(pos_sky, wcs))
                            b2 = np.asarray(pc_.contains(pos_pix))
                            if b1.shape != b2.shape or (b1 != b2).mean() > (0.1 if what == 'window' else 0.0):
                                ctx.violation(sig + f'sky-compound-operator|{opname}|{what}', f'sky compound ({opname}, include {meta_.get("include", True)}) and its pixel image disagree on '
                                              f'{int((b1 != b2).sum()) if b1.shape == b2.shape else "all"} of {b2.size} positions ({what})', case)
                                return True
        except Exception as ex:  # noqa
            ctx.violation(sig + f'sky-compound-operator|raises|{type(ex).__name__}', f'sky compound with another operator raised {ex!r}', case)
            return True
    # points, lines and text contain nothing (everything when excluded): the sky region answers like its pixel image
    if r['k'] in ('point', 'line', 'text'):
        g = np.arange(-2.0, 6.0, 1.0)
        xs, ys = np.meshgrid(g + r.get('cx', 40) / U, g[:5] + r.get('cy', -24) / U)        # a 2-D grid of positions (5 x 8)
        with warnings.catch_warnings():
            warnings.simplefilter('ignore')
            a1 = np.asarray(pix.contains(PixCoord(xs, ys)))
            a2 = np.asarray(sky.contains(wcs.pixel_to_world(xs, ys), wcs))
        want_all = r['inc'] in ('F', '0')
        if a1.shape != a2.shape or (a1 != a2).any() or bool(a1.all()) != want_all or bool(a1.any()) != want_all:
            ctx.violation(sig + f'member|{kindsig(r)}', f"a {r['k']} region (include flag {r['inc']}): the pixel region says {int(a1.sum())} of {a1.size} positions are members, "
                          f'the sky region {int(np.sum(a2))}', case)
            return True
    # membership: the sky region and its pixel image answer alike (positions near the boundary excluded)
    if r['k'] not in ('point', 'line', 'text') and idx % 2 == 0:
        g = np.arange(-2.0, 24.0, 1.25)
        xs, ys = [v.ravel() for v in np.meshgrid(g + r.get('cx', 40) / U - 10, g + r.get('cy', -24) / U - 10)]
        pc = PixCoord(xs, ys)
        ref = np.asarray(pix.contains(pc))
        near = np.zeros(len(xs), dtype=bool)
        for dxy in ((0.02, 0), (-0.02, 0), (0, 0.02), (0, -0.02), (0.015, 0.015), (-0.015, -0.015), (0.015, -0.015), (-0.015, 0.015)):
            near |= np.asarray(pix.contains(PixCoord(xs + dxy[0], ys + dxy[1]))) != ref
        sc = wcs.pixel_to_world(xs, ys)
        with warnings.catch_warnings():
            warnings.simplefilter('ignore')
            got = np.asarray(sky.contains(sc, wcs))
            got2 = np.asarray(back.contains(pc))
        bad = (~near) & ((got != ref) | (got2 != ref))
        # a sky region that was asked before with other parameters answers like this one once it has been given these parameters
        if not bad.any() and r['k'] != 'compound':
            import astropy.units as u
            try:
                with warnings.catch_warnings():
                    warnings.simplefilter('ignore')
                    alt = sky.copy()
                    for pn in alt._params:
                        v = getattr(alt, pn)
                        if pn in ('center', 'vertices', 'angle'):
                            continue
                        setattr(alt, pn, v * 1.75)
                    if 'center' in alt._params:
                        alt.center = wcs.pixel_to_world(float(xs[0]), float(ys[0]))
                    alt.meta['include'] = not bool(sky.meta.get('include', True))
                    alt.contains(sc[:7], wcs)
                    for pn in reversed(alt._params):
                        setattr(alt, pn, getattr(sky, pn))
                    if 'include' in sky.meta:
                        alt.meta['include'] = sky.meta['include']
                    else:
                        del alt.meta['include']
                    got3 = np.asarray(alt.contains(sc, wcs))
                if (got3 != got).any():
                    ctx.violation(sig + f'member-after-edit|{kindsig(r)}', f'a sky region edited to these parameters after an earlier query answers {int((got3 != got).sum())} positions '
                                  'differently from the same region built afresh', case)
                    return True
            except Exception as ex:  # noqa
                ctx.violation(sig + f'member-after-edit|{kindsig(r)}|{type(ex).__name__}', f'editing and re-querying a sky region raised {ex!r}', case)
                return True
        if not bad.any():
            # positions hugging the boundary: along rays from a point of the region the membership change is bracketed in pixel space,
            # and the sky region is asked at 1% and 3% of that distance on either side of it
            cx0, cy0 = r.get('cx', 40) / U, r.get('cy', -24) / U
            if r['k'] == 'polygon':
                cx0, cy0 = 7.0, 5.0
            if r['k'] == 'compound':
                cx0, cy0 = r['a'].get('cx', 40) / U, r['a'].get('cy', -24) / U
            th = np.linspace(0.0, 2 * np.pi, 48, endpoint=False) + 0.013 * (idx % 7)
            ux, uy = np.cos(th), np.sin(th)
            ts = np.linspace(0.05, 30.0, 600)
            inside = np.asarray(pix.contains(PixCoord(cx0 + np.outer(ts, ux), cy0 + np.outer(ts, uy))))
            flips = inside[1:] != inside[:-1]
            bx, by = [], []
            for j in range(len(th)):
                for i0 in np.nonzero(flips[:, j])[0][:2]:
                    tb = 0.5 * (ts[i0] + ts[i0 + 1])
                    for f in (0.99, 1.01, 0.97, 1.03):
                        bx.append(cx0 + f * tb * ux[j])
                        by.append(cy0 + f * tb * uy[j])
            if bx:
                bx, by = np.array(bx), np.array(by)
                pcb = PixCoord(bx, by)
                refb = np.asarray(pix.contains(pcb))
                nearb = np.zeros(len(bx), dtype=bool)
                for dxy in ((0.02, 0), (-0.02, 0), (0, 0.02), (0, -0.02), (0.015, 0.015), (-0.015, -0.015), (0.015, -0.015), (-0.015, 0.015)):
                    nearb |= np.asarray(pix.contains(PixCoord(bx + dxy[0], by + dxy[1]))) != refb
                with warnings.catch_warnings():
                    warnings.simplefilter('ignore')
                    gotb = np.asarray(sky.contains(wcs.pixel_to_world(bx, by), wcs))
                badb = (~nearb) & (gotb != refb)
                ctx.dontcare += int(nearb.sum())
                if badb.any():
                    i = int(np.nonzero(badb)[0][0])
                    ctx.violation(sig + f'member-boundary|{kindsig(r)}', f'{int(badb.sum())} of {int((~nearb).sum())} positions within 3% of the boundary answered differently by the sky region and its pixel image',
                                  dict(case, position=[float(bx[i]), float(by[i])], pixel_says=bool(refb[i]), sky_says=bool(gotb[i])))
                    return True
        ctx.dontcare += int(near.sum())
        if bad.any():
            i = int(np.nonzero(bad)[0][0])
            ctx.violation(sig + f'member|{kindsig(r)}', f'{int(bad.sum())} positions answered differently by the sky region and the pixel region',
                          dict(case, position=[float(xs[i]), float(ys[i])], pixel_says=bool(ref[i]), sky_says=bool(got[i])))
            return True
    return False


def _state_fn(rec, st, idx):
    if st['sky'] == []:
        return
    rec.traces += 1
    bad = check_state(rec, st, idx)
    if not bad and idx % 331 == 1:
        rec.sample({'wcs': st['w'], 'region': st['pix'], 'model_sky': st['sky']})


def run(ctx):
    quick = ctx.tier == 'quick'
    res = tlc.run('MC_Wcs', cfg_text=CFG.format(rots='Dirs5', scales='S6', par='PBoth', regs='RegsC06'), dump=True, tag='c06')
    ctx.tlc(res, 'MC_Wcs all classes incl. compounds x rotations x scales x parities')
    if res.violated:
        ctx.violation(f'C06|model|{res.violated}', f'Wcs.tla: invariant {res.violated} fails in the model', {'trace': res.trace[-1:]})
    else:
        from .. import par
        before = ctx.traces
        par.pmap_dump(ctx, _state_fn, res.dump_path)
        n = ctx.traces - before
        ctx.note('replayed_states', n)
    tlc.cleanup(res.workdir)
    random_walks(ctx)
    ctx.assumptions += ['the WCS family is the conformal affine one (CD = scale * rotation * parity) with TAN/SIN/CAR projections and ICRS/FK5/FK4/Galactic frames; '
                        'astropy projections and frame definitions are trusted; membership compared away from the boundary (0.02 px band)']


def random_walks(ctx):
    """Random walks of conversions and copies; each step is logged (class, parameters in micro-pixels, meta) and
    Trace_Wcs checks that every to_pixel after a to_sky returns to the logged pixel state."""
    import astropy.units as u

    import regions as R
    from regions import PixCoord
    rnd = random.Random(ctx.seed * 67 + 6)
    n = 40 if ctx.tier == 'quick' else 500
    traces = []
    for t in range(n):
        w = {'scale': rnd.choice([1, 4, 36, 400]), 'rot': list(rnd.choice([(1, 0, 1), (3, 4, 5), (-12, 5, 13), (0, 1, 1), (20, -21, 29)])), 'parity': rnd.choice([1, 1, -1])}
        wcs, conf = real_wcs(w, t)
        c = PixCoord(rnd.uniform(-50, 80), rnd.uniform(-50, 60))
        a = rnd.uniform(0, 360) * u.deg
        inc = rnd.choice([None, False, 0, True])
        meta = {'label': 'w'} if inc is None else {'label': 'w', 'include': inc}
        mk = rnd.choice([lambda: R.CirclePixelRegion(c, rnd.uniform(1, 30), meta=meta), lambda: R.EllipsePixelRegion(c, rnd.uniform(2, 40), rnd.uniform(1, 20), angle=a, meta=meta),
                         lambda: R.RectanglePixelRegion(c, rnd.uniform(2, 40), rnd.uniform(1, 20), angle=a, meta=meta),
                         lambda: R.CircleAnnulusPixelRegion(c, 2.0, rnd.uniform(3, 30), meta=meta),
                         lambda: R.EllipseAnnulusPixelRegion(c, 2.0, rnd.uniform(4, 30), 1.0, rnd.uniform(3, 20), angle=a, meta=meta),
                         lambda: R.PolygonPixelRegion(PixCoord([c.x, c.x + 9, c.x + 3], [c.y, c.y + 2, c.y + 11]), meta=meta),
                         lambda: R.PointPixelRegion(c, meta=meta), lambda: R.LinePixelRegion(c, PixCoord(c.x + 5, c.y - 7), meta=meta)])
        reg = mk()
        if t % 5 == 3:
            # a traced contour a few hundred pixels out: consecutive vertices, and the last and the first one, a few thousandths of a
            # pixel apart (equal under a relative tolerance of 1e-5, yet different vertices: none may be dropped or merged)
            fx, fy = rnd.choice([-1, 1]) * rnd.uniform(150, 300), rnd.choice([-1, 1]) * rnd.uniform(150, 300)
            d = rnd.choice([2.0 ** -11, 2.0 ** -9, 0.0025, 0.015])
            reg = R.PolygonPixelRegion(PixCoord([fx, fx + 9, fx + 9 + d, fx + 9, fx + 3, fx + d], [fy, fy + 2, fy + 2 + d, fy + 8, fy + 11, fy - d]), meta=meta)
        if rnd.random() < 0.3:
            reg = R.CompoundPixelRegion(reg, R.CirclePixelRegion(PixCoord(c.x + 3, c.y), 6.0), rnd.choice(list(OPS.values())), meta=R.RegionMeta(meta))
        log = []
        cur = reg
        issky = False
        try:
            with warnings.catch_warnings():
                warnings.simplefilter('ignore')
                log.append(event('start', cur, issky))
                for step in range(rnd.randint(3, 10)):
                    op = rnd.choice(['convert', 'convert', 'copy'])
                    if op == 'convert':
                        cur = cur.to_pixel(wcs) if issky else cur.to_sky(wcs)
                        issky = not issky
                    else:
                        cur = cur.copy()
                    log.append(event(op, cur, issky))
        except Exception as ex:  # noqa
            ctx.violation(f'C06|walk|raises|{type(ex).__name__}', f'conversion walk raised {ex!r}', {'wcs': w, 'config': conf, 'region': repr(reg)})
            continue
        traces.append(log)
    wd = tlc.workdir('c06trace')
    path = os.path.join(wd, 'traces.json')
    with open(path, 'w') as f:
        json.dump(traces, f)
    res = tlc.run('Trace_Wcs', cfg='Trace_Wcs.cfg', dump=True, env={'TRACE_FILE': path}, tag='c06trace')
    ctx.tlc(res, 'Trace_Wcs validation of conversion walks')
    seen = 0
    for st in res.states():
        seen += 1
        ctx.case(('walk', st['tid']), True)
        if st['verdict'] != 'ok':
            tr = traces[st['tid'] - 1]
            ctx.violation(f"C06|walk|{st['verdict']}|{tr[0]['cls']}", f"conversion walk rejected by Trace_Wcs at step {st['at']}: {st['verdict']}",
                          {'steps': [e['op'] for e in tr[:st['at']]], 'start': tr[0], 'at': tr[st['at'] - 1]})
    if seen != len(traces):
        raise tlc.TlcError('Trace_Wcs verdict count mismatch')
    ctx.traces += seen
    ctx.note('walks_validated', seen)
    tlc.cleanup(res.workdir)
    tlc.cleanup(wd)


def event(op, reg, issky):
    """Pixel states are logged with parameters in micro-pixels / micro-radians (integers)."""
    e = {'op': op, 'sky': issky, 'cls': type(reg).__name__.replace('SkyRegion', '').replace('PixelRegion', ''),
         'meta': sorted(f'{k}={v!r}' for k, v in dict(reg.meta).items()), 'visual': sorted(f'{k}={v!r}' for k, v in dict(reg.visual).items()), 'p': []}
    e['a'] = []
    if not issky:
        vals, angs = [], []
        for n, v, k in pix_params(reg):
            if k == 'tag':
                continue
            for x in np.atleast_1d(v):
                if k == 'ang':
                    angs.append(int(round(math.remainder(float(x), 2 * math.pi) * 1e6)))
                else:
                    vals.append(int(round(float(x) * 1e6)))
        e['p'], e['a'] = vals, angs
    return e
