"""C07 — a sky region's pixel image has the size and orientation the WCS dictates.

(A) TLC checks Wcs.tla: sky sizes = pixel sizes x scale and the sky angle obtained through one WCS
    gives, through any other rotation of the WCS, the first image rotated by the difference
    (InvAngleLaw) - i.e. the prediction is independent of rot; plus the round trip.
(B) the model chooses the intended pixel image (centre, sizes, rational direction) and the WCS
    record (44 rotations x scales 2.5e-5..1e-2 deg/pix, standard parity); the harness derives the
    real sky region (centre by pixel_to_world, sizes x scale, angle from the model's sky
    direction), calls the real to_pixel and compares with the intended image: centre to 1e-6 px,
    sizes to 1e-7 + 2 theta^2 relative, angle to 0.005 deg + 2 theta tan|lat| (theta = angular
    offset of the region from the reference point: a derived bound of the affine abstraction, not a
    tuned tolerance).  A second family puts the region exactly at the reference pixel (angle exact
    to 1e-8 rad for any reference latitude |lat| < 85 deg).  Frames ICRS/FK5/Galactic, TAN/SIN.
(C) the recorded (wcs, sky region, pixel image) triples are validated by Trace_Wcs7.tla against the
    model's integer prediction within the logged tolerance.
"""
import json
import math
import os
import random
import warnings

import numpy as np

from .. import tlc, wcsutil
from ..tlaparse import parse_dump
from .c06 import BASE_ARCSEC, CFG, U, ang, kindsig

FRAMES = ['icrs', 'fk5', 'galactic']
PROJS = ['TAN', 'SIN']
SKY = {'circle': 'CircleSkyRegion', 'ellipse': 'EllipseSkyRegion', 'rectangle': 'RectangleSkyRegion', 'cannulus': 'CircleAnnulusSkyRegion',
       'eannulus': 'EllipseAnnulusSkyRegion', 'rannulus': 'RectangleAnnulusSkyRegion'}


def build_sky(m, wcs, cx, cy, unit_variant=0, rframe=None):
    """Real sky region from the model's sky description (sizes in model units = quarter pixels x scale).

    rframe: give the region in that celestial frame instead of the image's.  The stated angle is relative to the local north of the
    frame the region is given in, so it is reduced by the position angle (measured with astropy alone) that this north makes with
    the north of the image's frame at the centre - the pixel image the WCS dictates is then the same."""
    import astropy.units as u

    import regions as R
    c = wcs.pixel_to_world(cx, cy)
    delta = 0 * u.deg
    if rframe is not None:
        cr = c.transform_to(rframe)
        delta = c.position_angle(cr.directional_offset_by(0 * u.deg, 2 * u.arcsec).transform_to(c.frame))
        c = cr
    units = [u.arcsec, u.deg, u.arcmin]
    mixed = (unit_variant // 2) % 2          # every parameter in its own unit (inner radius in arcmin, outer in arcsec, ...)
    q = lambda v, j=0: ((v * BASE_ARCSEC / U) * u.arcsec).to(units[(unit_variant + j * mixed) % 3])  # noqa: sizes handed over in different units
    k = m['k']
    # the stated angle in any angular unit (deg, rad, hour angle, arcmin)
    ang_ = lambda d: (ang(d) - delta).to([u.deg, u.rad, u.hourangle, u.arcmin][(unit_variant // 5) % 4])  # noqa
    if k == 'circle':
        return R.CircleSkyRegion(c, q(m['r']))
    if k in ('ellipse', 'rectangle'):
        return getattr(R, SKY[k])(c, q(m['w']), q(m['h'], 1), angle=ang_(m['d']))
    if k == 'cannulus':
        return R.CircleAnnulusSkyRegion(c, q(m['r1']), q(m['r2'], 1))
    return getattr(R, SKY[k])(c, q(m['w1']), q(m['w2'], 1), q(m['h1'], 2), q(m['h2'], 3), angle=ang_(m['d']))


def check(ctx, st, idx, rnd, family, var=0):
    w, want, msky = st['w'], st['pix'], st['sky']
    frame = FRAMES[idx % 3]
    proj = PROJS[(idx // 3) % 2]
    lat = rnd.choice([-80.0, -45.0, -10.0, 0.0, 25.0, 60.0, 84.0]) if family == 'exact' else rnd.choice([-60.0, -30.0, 0.0, 20.0, 45.0, 70.0])
    crval = (rnd.uniform(0, 360), lat)
    cx, cy = want['cx'] / U, want['cy'] / U
    if family == 'exact':
        crpix = (cx + 1.0, cy + 1.0)            # FITS crpix is 1-based: the region sits exactly on the reference pixel
    else:
        off = rnd.choice([5.0, 30.0, 100.0]) if family == 'tight' else rnd.choice([150.0, 300.0])
        a = rnd.uniform(0, 2 * math.pi)
        crpix = (cx + 1.0 + off * math.cos(a), cy + 1.0 + off * math.sin(a))
    scale_deg = w['scale'] * BASE_ARCSEC / 3600.0
    wcs = wcsutil.make_wcs(scale_deg, tuple(w['rot']), 1, frame, proj, crval, crpix)
    case = {'wcs': w, 'frame': frame, 'proj': proj, 'crval': crval, 'crpix': crpix, 'intended_pixel_image': want, 'model_sky': msky, 'family': family}
    try:
        with warnings.catch_warnings():
            warnings.simplefilter('ignore')
            if (var // 3) % 3 == 2:
                # the region is first somewhere else, converted once with this WCS object, then moved here by assignment
                sky = build_sky(msky, wcs, cx + 7.5, cy - 3.25, var)
                sky.to_pixel(wcs)
                sky.center = wcs.pixel_to_world(cx, cy)
            else:
                # every third of these: the region is given in another celestial frame than the image's ("independently of ... which
                # celestial frame it uses"; the angle is relative to the north of the region's own frame)
                rframe = FRAMES[(idx + 1 + (var // 21) % 2) % 3] if (var // 7) % 3 == 1 else None
                case['region_frame'] = rframe or frame
                sky = build_sky(msky, wcs, cx, cy, var, rframe)
            if (var // 3) % 3 == 1:
                sky.to_pixel(wcs)            # an earlier conversion (or a contains() call) must not change the region
            pix = sky.to_pixel(wcs)
    except Exception as ex:  # noqa
        ctx.violation(f'C07|raises|{kindsig(want)}|{type(ex).__name__}', f'to_pixel raised {ex!r}', case)
        return
    ctx.case((json.dumps(w), json.dumps(want, sort_keys=True), family, frame, proj), True)
    # derived tolerance of the affine abstraction
    theta = math.hypot(cx + 1.0 - crpix[0], cy + 1.0 - crpix[1]) * math.radians(scale_deg)
    c = wcs.pixel_to_world(cx, cy)
    latc = abs(float(c.spherical.lat.rad))
    size_tol = 1e-7 + 2 * theta * theta
    ang_tol = math.radians(0.005) + 2 * theta * math.tan(min(latc + theta, 1.55)) if family != 'exact' else 1e-8 + 1e-9 * math.tan(latc) / max(math.radians(scale_deg), 1e-12) * 1e-7
    if family == 'exact':
        ang_tol = 2e-7          # finite-difference north vector (1 arcsec offset) at the reference pixel
        size_tol = 1e-7
    ev = {'k': want['k'], 'tol_size_ppb': int(size_tol * 1e9) + 1, 'tol_ang_urad': int(ang_tol * 1e6) + 1, 'want': {}, 'got': {}}
    bad = None
    if abs(pix.center.x - cx) > 1e-6 or abs(pix.center.y - cy) > 1e-6:
        bad = ('centre', f'pixel centre ({pix.center.x!r}, {pix.center.y!r}) is not the WCS image ({cx}, {cy}) of the sky centre')
    names = {'circle': {'r': 'radius'}, 'ellipse': {'w': 'width', 'h': 'height'}, 'rectangle': {'w': 'width', 'h': 'height'},
             'cannulus': {'r1': 'inner_radius', 'r2': 'outer_radius'},
             'eannulus': {'w1': 'inner_width', 'h1': 'inner_height', 'w2': 'outer_width', 'h2': 'outer_height'},
             'rannulus': {'w1': 'inner_width', 'h1': 'inner_height', 'w2': 'outer_width', 'h2': 'outer_height'}}[want['k']]
    for f, attr in names.items():
        got, exp = float(getattr(pix, attr)), want[f] / U
        ev['want'][f] = int(round(exp * 1e6))
        ev['got'][f] = int(round(got * 1e6))
        if bad is None and abs(got - exp) > size_tol * exp:
            bad = ('size', f'{attr} = {got!r} px, angular size / local scale = {exp!r} px (tolerance {size_tol:.2e} relative)')
    if 'd' in want:
        got = float(pix.angle.to_value('rad'))
        exp = math.atan2(want['d'][1], want['d'][0])
        if family != 'exact':
            # the stated angle is relative to LOCAL north at the region's centre: measure how much local north is turned there
            # with respect to north at the reference pixel (meridian convergence), with astropy alone, and expect that turn too
            def north_dir(px, py):
                p0 = wcs.pixel_to_world(px, py)
                p1 = p0.directional_offset_by(0 * u_.deg, 2 * u_.arcsec)
                x1, y1 = wcs.world_to_pixel(p1)
                return math.atan2(float(y1) - py, float(x1) - px)
            import astropy.units as u_
            conv = math.remainder(north_dir(cx, cy) - north_dir(crpix[0] - 1.0, crpix[1] - 1.0), 2 * math.pi)
            exp += conv
            ang_tol = 2e-6 + 4 * theta * theta            # what is left is second order in the offset
        ev['want']['ang'] = int(round(math.remainder(exp, 2 * math.pi) * 1e6))
        ev['got']['ang'] = int(round(math.remainder(got, 2 * math.pi) * 1e6))
        if bad is None and abs(math.remainder(got - exp, 2 * math.pi)) > ang_tol:
            bad = ('angle', f'pixel angle {math.degrees(got):.6f} deg, sky angle + (north - 90 deg) = {math.degrees(exp):.6f} deg (tolerance {math.degrees(ang_tol):.2e} deg)')
    ctx.emit(ev)
    if bad:
        ctx.violation(f'C07|{bad[0]}|{kindsig(want)}|{family}', bad[1], case)
    elif idx % 499 == 0:
        ctx.sample({'wcs': w, 'frame': frame, 'proj': proj, 'family': family, 'intended_pixel_image': want, 'model_sky': msky})


NEAR_CFG = """SPECIFICATION Spec
CONSTANTS Rots <- DirsNear
 Scales <- S3
 Parities <- P1
 Regions <- RegsNear
INVARIANT InvRoundTrip
INVARIANT InvSizes
CHECK_DEADLOCK FALSE
"""
_P = {}


def _state_fn(rec, st, idx):
    if st['sky'] == []:
        return
    rec.traces += 1
    rnd = random.Random(_P['seed'] * 1000003 + idx)
    check(rec, st, idx, rnd, ['exact', 'tight', 'tight', 'loose'][idx % 4] if not _P['near'] else ['exact', 'tight'][idx % 2], var=idx)


def run(ctx):
    from .. import par
    quick = ctx.tier == 'quick'
    ctx.emitted = []
    for near, cfgt, what in ((False, CFG.format(rots='DirsAll', scales='S4', par='P1', regs='RegsC07'), 'circle/ellipse/rectangle/annuli x 44 rotations x 4 scales, standard parity'),
                             (True, NEAR_CFG, 'nearly north-up WCS (rotated by 0.76 deg), axis-aligned shapes')):
        res = tlc.run('MC_Wcs', cfg_text=cfgt, dump=True, tag='c07', timeout=3000)
        ctx.tlc(res, f'MC_Wcs {what}')
        if res.violated:
            ctx.violation(f'C07|model|{res.violated}', f'Wcs.tla: invariant {res.violated} fails in the model', {'trace': res.trace[-1:]})
        else:
            _P.update(seed=ctx.seed * 71 + 7, near=near)
            before = ctx.traces
            par.pmap_dump(ctx, _state_fn, res.dump_path, stride=2 if (quick and not near) else 1)
            ctx.note('replayed_states_near' if near else 'replayed_states', ctx.traces - before)
        tlc.cleanup(res.workdir)
    events = ctx.emitted
    # (C) the logged triples validated against the integer prediction
    wd = tlc.workdir('c07trace')
    path = os.path.join(wd, 'events.json')
    with open(path, 'w') as f:
        json.dump(events, f)
    res = tlc.run('Trace_Wcs7', cfg='Trace_Wcs.cfg', dump=True, env={'TRACE_FILE': path}, tag='c07trace')
    ctx.tlc(res, 'Trace_Wcs7 validation of recorded to_pixel results')
    seen = 0
    for st in res.states():
        seen += 1
        if st['verdict'] != 'ok':
            e = events[st['i'] - 1]
            ctx.violation(f"C07|trace|{st['verdict']}|{e['k']}", f"recorded to_pixel result rejected by Trace_Wcs7: {st['verdict']}", e)
    if seen != len(events):
        raise tlc.TlcError('Trace_Wcs7 verdict count mismatch')
    ctx.traces += seen
    ctx.note('trace_events_validated', seen)
    tlc.cleanup(res.workdir)
    tlc.cleanup(wd)
    ctx.assumptions += ['conformal affine abstraction of TAN/SIN WCS: sizes to 1e-7 + 2 theta^2 relative, angles to 0.005 deg + 2 theta tan|lat| '
                        '(theta = angular offset from the reference point); exact family at the reference pixel to 2e-7 rad',
                        'rotations are the 44 rational directions; scales 2.5e-5 .. 1e-2 deg/pixel; astropy projections trusted']
