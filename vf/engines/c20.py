"""C20 — pixel coordinates behave as broadcast (x, y) arrays under every operation.

(A) TLC checks PixCoord.tla: construction broadcasts, indexing acts identically on both
    components, (a+b)-b = a, separation symmetric/zero iff equal, rotation is an isometry for every
    operand shape, fixes the centre and composes by multiplying directions.
(B) every returning state (shape pairs that broadcast and that do not, int/float dtypes, ~30 index
    expressions, rotations) is replayed into the real PixCoord; WCS round trips (origin 0/1, mode
    all/wcs) are run on real astropy WCS objects against the origin-shift law.
(C) random arrays and index expressions recorded from the real class, validated by
    Trace_PixCoord.tla.
"""
import json
import math
import os
import random

import numpy as np

from .. import tlc, wcsutil
from ..tlaparse import parse_dump

CFG = """SPECIFICATION Spec
CONSTANTS Ops = {"construct", "index", "len_iter", "addsub", "sep", "rotate"}
INVARIANT InvConstruct
INVARIANT InvIndex
INVARIANT InvAddSub
INVARIANT InvSep
INVARIANT InvRotate
CHECK_DEADLOCK FALSE
"""
NONE = -99
ERR = {'shape': [-1], 'f': []}


def mk(shape, a, b, dtype):
    n = int(np.prod(shape)) if shape else 1
    arr = (a * np.arange(n) + b).astype(dtype).reshape(tuple(shape))
    if not shape:
        return arr.item()
    return arr


def model_arr(m):
    """model [shape, f] -> (shape tuple, ndarray) or None for Err."""
    if m['shape'] == [-1]:
        return None
    shape = tuple(m['shape'])
    out = np.zeros(shape, dtype=float)
    f = m['f']
    if f == []:
        return shape, out
    if isinstance(f, list):          # function over 1-tuples printed as a sequence?
        for i, v in enumerate(f):
            out[i] = v
        return shape, out
    for k, v in f.items():
        out[tuple(k) if isinstance(k, tuple) else (k,)] = v
    return shape, out


def obs(v):
    a = np.asarray(v)
    return tuple(a.shape), a.astype(float)


def same(model, real):
    if model is None or real is None:
        return model is None and real is None
    return model[0] == real[0] and np.array_equal(model[1], real[1])


def expr_py(e):
    k = e['k']
    if k == 'int':
        return e['i']
    if k == 'slice':
        f = lambda v: None if v == NONE else v  # noqa
        return slice(f(e['start']), f(e['stop']), f(e['step']))
    if k == 'mask':
        return np.array(e['m'], dtype=bool)
    if k == 'ints':
        return np.array(e['is'], dtype=int)
    if k == 'pair':
        return (e['i'], e['j'])
    raise ValueError(k)


def replay(ctx, st, idx):
    import astropy.units as u
    from regions import PixCoord
    op, s1, s2, arg, res = st['op'], st['s1'], st['s2'], st['arg'], st['res']
    dtype = [np.int64, float][idx % 2]
    case = {'op': op, 's1': s1, 's2': s2, 'arg': arg, 'dtype': dtype.__name__}
    sig = f'C20|{op}|'

    def P(s):
        return PixCoord(mk(s, 3, 1, dtype), mk(s, -2, 7, dtype))

    def Q(s):
        return PixCoord(mk(s, 1, -4, dtype), mk(s, 5, 0, dtype))
    if op == 'construct':
        want = model_arr(res[0]), model_arr(res[1])
        try:
            if idx % 3 == 2:
                # mixed input forms: x a float (scalar or array) with a fractional part, y integers given as a Python list / int
                xv = mk(s1, 3, 1, float) + 0.5
                yv = mk(s2, -2, 7, np.int64)
                yv = yv.tolist() if isinstance(yv, np.ndarray) else int(yv)
                p = PixCoord(float(xv) if np.ndim(xv) == 0 else xv, yv)
                got = (obs(p.x)[0], obs(p.x)[1] - 0.5), obs(p.y)
                case = dict(case, dtype='x float + 0.5, y int list')
            else:
                p = PixCoord(mk(s1, 3, 1, dtype), mk(s2, -2, 7, dtype))
                got = obs(p.x), obs(p.y)
            scalar_ok = (not (s1 == [] and s2 == [])) or (p.isscalar and not isinstance(p.x, np.ndarray))
        except ValueError:
            got, scalar_ok = (None, None), True
        if not (same(want[0], got[0]) and same(want[1], got[1])):
            return ctx.violation(sig + 'broadcast', f'PixCoord(x{s1}, y{s2}) holds {got[0] and got[0][0]}, model {want[0] and want[0][0]}', case)
        if not scalar_ok:
            return ctx.violation(sig + 'scalar', 'a scalar pair did not stay scalar', case)
    elif op == 'index':
        want = model_arr(res[0]), model_arr(res[1])
        p = P(s1)
        try:
            r = p[expr_py(arg)]
            got = obs(r.x), obs(r.y)
        except (IndexError, TypeError, ValueError):
            got = (None, None)
        if not (same(want[0], got[0]) and same(want[1], got[1])):
            return ctx.violation(sig + arg['k'], f'p{s1}[{arg}] gives shape {got[0] and got[0][0]}, array indexing gives {want[0] and want[0][0]}', case)
    elif op == 'len_iter':
        p = P(s1)
        try:
            n = len(p)
        except TypeError:
            n = -1
        if n != res['len']:
            return ctx.violation(sig + 'len', f'len gives {n}, model {res["len"]}', case)
        if s1 != []:
            items = list(p)
            wx = [model_arr(m) for m in res['itx']]
            wy = [model_arr(m) for m in res['ity']]
            if len(items) != len(wx) or any(not (same(a, obs(it.x)) and same(b, obs(it.y))) for a, b, it in zip(wx, wy, items)):
                return ctx.violation(sig + 'iter', 'iteration differs from iterating x and y', case)
            # iterations are independent of each other, as they are for the x and y arrays: two at once (zip of the coordinate with
            # itself, nested loops, two handles advanced alternately) each see every element
            try:
                both = list(zip(p, p))
                nested = sum(1 for _a in p for _b in p)
                h1, h2 = iter(p), iter(p)
                alt = []
                for _ in range(len(items)):
                    alt.append((next(h1), next(h2)))
            except (StopIteration, RuntimeError, TypeError, ValueError) as ex:
                return ctx.violation(sig + 'iter-concurrent', f'two iterations over the same coordinate at once: {ex!r}', case)
            if (len(both) != len(items) or nested != len(items) ** 2
                    or any(not (same(obs(a.x), obs(b.x)) and same(obs(a.y), obs(b.y)) and same(obs(a.x), obs(it.x))) for (a, b), it in zip(both, items))
                    or any(not (same(obs(a.x), obs(it.x)) and same(obs(b.y), obs(it.y))) for (a, b), it in zip(alt, items))):
                return ctx.violation(sig + 'iter-concurrent', f'two iterations over the same coordinate at once: zip gives {len(both)} pairs, nested loops {nested} steps, '
                                     f'{len(items)} elements', case)
        # xy is the pair (x, y); copy() is an equal coordinate that shares no array with the original
        xy = p.xy
        if not (isinstance(xy, tuple) and len(xy) == 2 and same(obs(p.x), obs(xy[0])) and same(obs(p.y), obs(xy[1]))):
            return ctx.violation(sig + 'xy', 'xy is not the pair (x, y)', case)
        q = p.copy()
        if not (same(obs(p.x), obs(q.x)) and same(obs(p.y), obs(q.y)) and q.isscalar == p.isscalar):
            return ctx.violation(sig + 'copy', 'copy() does not hold the same values', case)
        if s1 != [] and 0 not in s1:
            qx = np.asarray(q.x)
            qx.flat[0] += 100
            if not same(obs(p.x), obs(P(s1).x)):
                return ctx.violation(sig + 'copy', 'editing the x array of a copy changed the original', case)
    elif op == 'addsub':
        try:
            a, b = P(s1) + Q(s2), P(s1) - Q(s2)
            got = [obs(a.x), obs(a.y), obs(b.x), obs(b.y)]
        except ValueError:
            got = [None] * 4
        want = [model_arr(res['add'][0]), model_arr(res['add'][1]), model_arr(res['sub'][0]), model_arr(res['sub'][1])]
        if not all(same(w, g) for w, g in zip(want, got)):
            return ctx.violation(sig + 'values', f'+/- of shapes {s1},{s2} not component-wise broadcast', case)
        # augmented assignment is the same operation: p += q leaves in p what p + q is (whatever the shapes and dtypes of the two)
        try:
            a2 = P(s1)
            a2 += Q(s2)
            b2 = P(s1)
            b2 -= Q(s2)
            got2 = [obs(a2.x), obs(a2.y), obs(b2.x), obs(b2.y)]
        except ValueError:
            got2 = [None] * 4
        except Exception as ex:  # noqa
            return ctx.violation(sig + 'augmented', f'+= / -= of shapes {s1},{s2} raised {ex!r}', case)
        if not all(same(w, g) for w, g in zip(want, got2)):
            return ctx.violation(sig + 'augmented', f'+= / -= of shapes {s1},{s2} differ from + / -', case)
    elif op == 'sep':
        # narrow integer dtypes with offsets beyond the square-overflow point: the distance must not wrap around
        for it, mul in ((np.int16, 100), (np.int32, 20000)):
            try:
                pa = PixCoord(mk(s1, 3 * mul, mul, it), mk(s1, -2 * mul, 7 * mul, it))
                qa = PixCoord(mk(s2, mul, -4 * mul, it), mk(s2, 5 * mul, 0, it))
                dd = np.asarray(pa.separation(qa), dtype=float)
                wantm = model_arr(res)
                if wantm is not None and dd.size and not np.allclose(dd, np.sqrt(wantm[1]) * mul, rtol=1e-6 if it is np.int16 else 1e-9, atol=0):
                    return ctx.violation(sig + f'values|{it.__name__}', f'separation of {it.__name__} coordinate arrays is not the Euclidean distance', dict(case, dtype=it.__name__))
            except ValueError:
                pass
            except Exception as ex:  # noqa
                return ctx.violation(sig + 'raises', f'separation of {it.__name__} coordinates of shapes {s1},{s2} raised {ex!r}', case)
        try:
            d = P(s1).separation(Q(s2))
            got = obs(np.asarray(d) ** 2)
            got = (got[0], np.rint(got[1]))
            exact = np.allclose(np.asarray(d) ** 2, got[1], rtol=1e-12, atol=1e-9)
        except ValueError:
            got, exact = None, True
        except Exception as ex:  # noqa
            return ctx.violation(sig + 'raises', f'separation of shapes {s1},{s2} raised {ex!r}', case)
        want = model_arr(res)
        if not same(want, got) or not exact:
            return ctx.violation(sig + 'values', f'separation of shapes {s1},{s2} is not the Euclidean distance', case)
    elif op == 'rotate':
        c, d, _ = arg
        p = P(s1)
        ang = [math.atan2(d[1], d[0]) * u.rad, math.degrees(math.atan2(d[1], d[0])) * u.deg][idx % 2]
        want = model_arr(res[0]), model_arr(res[1])
        try:
            r = p.rotate(PixCoord(c[0], c[1]), ang)
            got = obs(r.x), obs(r.y)
        except Exception as ex:  # noqa
            return ctx.violation(sig + f'raises|ndim{len(s1)}', f'rotate of a PixCoord of shape {s1} raised {type(ex).__name__}', case)
        h = d[2]
        ok = got[0][0] == want[0][0] and got[1][0] == want[1][0] and \
            np.allclose(got[0][1] * h, want[0][1], rtol=0, atol=1e-9) and np.allclose(got[1][1] * h, want[1][1], rtol=0, atol=1e-9)
        if not ok:
            return ctx.violation(sig + f'values|ndim{len(s1)}', f'rotate of a PixCoord of shape {s1} about {c} by direction {d} differs from the exact rotation', case)
        if dtype is np.int64 and np.asarray(p.x).size:
            # the same points shifted into the non-negative quadrant and stored as unsigned integers (rotation commutes with the shift):
            # an offset from the centre is negative for the points left of / below it, which the unsigned type cannot hold
            K = 64
            for ut in (np.uint8, np.uint16):
                pu = PixCoord((np.asarray(p.x) + K).astype(ut), (np.asarray(p.y) + K).astype(ut))
                try:
                    ru = pu.rotate(PixCoord(c[0] + K, c[1] + K), ang)
                    gu = obs(np.asarray(ru.x, dtype=float) - K), obs(np.asarray(ru.y, dtype=float) - K)
                except Exception as ex:  # noqa
                    return ctx.violation(sig + f'raises|{ut.__name__}', f'rotate of {ut.__name__} coordinates raised {type(ex).__name__}', dict(case, dtype=ut.__name__))
                if not (np.allclose(gu[0][1] * h, want[0][1], rtol=0, atol=1e-9) and np.allclose(gu[1][1] * h, want[1][1], rtol=0, atol=1e-9)):
                    return ctx.violation(sig + f'values|{ut.__name__}', f'rotate of {ut.__name__} coordinates about a centre among them differs from the exact rotation', dict(case, dtype=ut.__name__))
    return False


def wcs_roundtrips(ctx, rnd):
    from regions import PixCoord
    n = 0
    pool = []
    for scale, rot, par, frame, proj in [(1e-3, (3, 4, 5), 1, 'icrs', 'TAN'), (2e-4, (-12, 5, 13), -1, 'galactic', 'SIN'),
                                         (5e-5, (0, 1, 1), 1, 'fk5', 'CAR'), (1e-2, (20, 21, 29), 1, 'fk4', 'TAN')]:
        pool.append((frame, proj, wcsutil.make_wcs(scale, rot, par, frame, proj, (rnd.uniform(0, 359), rnd.uniform(-60, 60)), (rnd.uniform(0, 50), rnd.uniform(0, 50)))))
    # an invertible WCS with distortion terms: 'wcs' mode must use the core transform in BOTH directions
    from astropy.wcs import Sip
    ws = wcsutil.make_wcs(3e-4, (3, 4, 5), 1, 'icrs', 'TAN', (150.0, 20.0), (20.0, 20.0))
    ws.wcs.ctype = ['RA---TAN-SIP', 'DEC--TAN-SIP']
    a = np.zeros((3, 3))
    b = np.zeros((3, 3))
    a[2, 0], a[0, 2], b[1, 1], b[2, 0] = 2e-4, -1e-4, 1.5e-4, 1e-4
    ws.sip = Sip(a, b, None, None, [20.0, 20.0])
    ws.wcs.set()
    pool.append(('icrs', 'TAN-SIP', ws))
    # a celestial WCS whose FIRST axis is the latitude (DEC--TAN, RA---TAN): an invertible celestial WCS like any other
    from astropy.wcs import WCS
    wl = WCS(naxis=2)
    wl.wcs.ctype = ['DEC--TAN', 'RA---TAN']
    wl.wcs.crval = [20.0, 150.0]
    wl.wcs.crpix = [12.0, 9.0]
    wl.wcs.cd = 4e-4 * np.array([[0.6, -0.8], [0.8, 0.6]])
    wl.wcs.cunit = ['deg', 'deg']
    wl.wcs.set()
    pool.append(('icrs', 'TAN-latfirst', wl))
    for frame, proj, w in pool:
        for shape in ([], [0], [1], [3], [2, 3], [2, 2, 3]):
            for dtype in (np.int64, float):
                p = PixCoord(mk(shape, 3, 1, dtype), mk(shape, -2, 7, dtype))
                for o1 in (0, 1):
                    for o2 in (0, 1):
                        for mode in ('all', 'wcs'):
                            n += 1
                            ctx.case(('wcs', tuple(shape), o1, o2, mode, frame), True)
                            try:
                                q = PixCoord.from_sky(p.to_sky(w, origin=o1, mode=mode), w, origin=o2, mode=mode)
                                ok = np.shape(q.x) == tuple(shape) and np.allclose(np.asarray(q.x), np.asarray(p.x) + (o2 - o1), rtol=0, atol=1e-8 if proj != 'TAN-SIP' else 1e-5) \
                                    and np.allclose(np.asarray(q.y), np.asarray(p.y) + (o2 - o1), rtol=0, atol=1e-8 if proj != 'TAN-SIP' else 1e-5)
                                if shape == [] and not q.isscalar:
                                    ok = False
                            except Exception as ex:  # noqa
                                ok = False
                            if not ok:
                                ctx.violation(f'C20|wcs|{mode}|o{o1}{o2}', 'from_sky(to_sky(p, o1), o2) is not p + (o2 - o1)',
                                              {'shape': shape, 'origin': [o1, o2], 'mode': mode, 'frame': frame, 'proj': proj})
    ctx.traces += n
    ctx.note('wcs_roundtrips', n)


def run(ctx):
    rnd = random.Random(ctx.seed * 41 + 20)
    # the algebra of rotations by rational directions (isometry, composition, inverse) is proved for all integers
    from . import c19
    c19.proofs(ctx, modules=('RotationLaws',))
    res = tlc.run('MC_PixCoord', cfg_text=CFG, dump=True, coverage=True, tag='c20')
    ctx.tlc(res, 'MC_PixCoord all shape pairs x index expressions x rotations')
    if res.violated:
        ctx.violation(f'C20|model|{res.violated}', f'PixCoord.tla: invariant {res.violated} fails', {'trace': res.trace[-1:]})
    else:
        n = 0
        for idx, st in enumerate(parse_dump(res.dump_path, only='pc = "ret"')):
            n += 1
            ctx.case((st['op'], str(st['s1']), str(st['s2']), json.dumps(st['arg'], sort_keys=True, default=str)), True)
            bad = replay(ctx, st, idx)
            bad2 = replay(ctx, st, idx + 1)         # the other dtype
            if not bad and not bad2 and n % 211 == 1:
                ctx.sample({'op': st['op'], 's1': st['s1'], 's2': st['s2'], 'arg': st['arg']})
        ctx.traces += n
        ctx.note('replayed_states', n)
    tlc.cleanup(res.workdir)
    wcs_roundtrips(ctx, rnd)
    copies(ctx)
    trace_validation(ctx, rnd)
    ctx.assumptions += ['array values are affine fills a*n+b (distinct per element); index expressions act on the first axis (ints, slices, boolean and integer arrays) or the first two (int pairs)',
                        'WCS round trip on four undistorted WCS; astropy projections trusted']


def copies(ctx):
    from regions import PixCoord
    for shape in ([], [3], [2, 3]):
        p = PixCoord(mk(shape, 3, 1, float), mk(shape, -2, 7, float))
        c = p.copy()
        ctx.case(('copy', tuple(shape)), True)
        ok = np.array_equal(np.asarray(c.x), np.asarray(p.x)) and np.array_equal(np.asarray(c.y), np.asarray(p.y))
        if shape:
            c.x[...] = -1
            ok = ok and not np.shares_memory(c.x, p.x) and not np.shares_memory(c.y, p.y) and float(np.asarray(p.x).ravel()[0]) == 1.0
        if not ok:
            ctx.violation('C20|copy', 'copy() is not an equal independent PixCoord', {'shape': shape})


def trace_validation(ctx, rnd):
    from regions import PixCoord
    n = 600 if ctx.tier == 'quick' else 8000
    shapes = [[], [0], [1], [2], [3], [4], [2, 3], [3, 2], [1, 3], [2, 1], [2, 2, 3], [3, 1, 2]]
    events = []

    def o(v):
        a = np.asarray(v)
        return {'shape': list(a.shape), 'vals': [int(x) for x in a.ravel().tolist()]}
    for k in range(n):
        s1 = rnd.choice(shapes)
        ax, bx, ay, by = rnd.randint(-5, 5), rnd.randint(-9, 9), rnd.randint(-5, 5), rnd.randint(-9, 9)
        p = PixCoord(mk(s1, ax, bx, np.int64), mk(s1, ay, by, np.int64))
        op = rnd.choice(['index', 'index', 'add', 'sub', 'sep2'])
        e = {'op': op, 's1': s1, 'ax': ax, 'bx': bx, 'ay': ay, 'by': by}
        try:
            if op == 'index':
                kind = rnd.choice(['int', 'slice', 'mask', 'ints', 'pair'])
                nn = s1[0] if s1 else 1
                if kind == 'int':
                    ex = {'k': 'int', 'i': rnd.randint(-nn - 1, nn)}
                elif kind == 'slice':
                    c = lambda: rnd.choice([NONE, NONE, rnd.randint(-nn - 2, nn + 2)])  # noqa
                    ex = {'k': 'slice', 'start': c(), 'stop': c(), 'step': rnd.choice([1, 1, 2, -1, -2, 3])}
                elif kind == 'mask':
                    ex = {'k': 'mask', 'm': [rnd.random() < 0.5 for _ in range(nn if rnd.random() < 0.9 else nn + 1)]}
                elif kind == 'ints':
                    ex = {'k': 'ints', 'is': [rnd.randint(-nn, nn - 1) if nn else 0 for _ in range(rnd.randint(0, 4))]}
                else:
                    ex = {'k': 'pair', 'i': rnd.randint(-2, 2), 'j': rnd.randint(-3, 3)}
                e['expr'] = ex
                try:
                    r = p[expr_py(ex)]
                    e['rx'], e['ry'] = o(r.x), o(r.y)
                except (IndexError, TypeError, ValueError):
                    e['rx'] = e['ry'] = 'error'
            else:
                s2 = rnd.choice(shapes)
                cx, dx, cy, dy = rnd.randint(-5, 5), rnd.randint(-9, 9), rnd.randint(-5, 5), rnd.randint(-9, 9)
                q = PixCoord(mk(s2, cx, dx, np.int64), mk(s2, cy, dy, np.int64))
                e.update(s2=s2, cx=cx, dx=dx, cy=cy, dy=dy)
                try:
                    if op == 'add':
                        r = p + q
                        e['rx'], e['ry'] = o(r.x), o(r.y)
                    elif op == 'sub':
                        r = p - q
                        e['rx'], e['ry'] = o(r.x), o(r.y)
                    else:
                        d = np.asarray(p.separation(q))
                        sq = np.rint(d ** 2)
                        if not np.allclose(d ** 2, sq, rtol=1e-12, atol=1e-9):
                            ctx.violation('C20|trace|sep|inexact', 'separation squared is not the integer dx^2+dy^2', e)
                            continue
                        e['rx'] = o(sq.astype(np.int64))
                except ValueError:
                    e['rx'] = e['ry'] = 'error'
        except Exception as ex2:  # noqa
            ctx.violation(f'C20|trace|{op}|raises|{type(ex2).__name__}', f'{op} raised {ex2!r}', e)
            continue
        events.append(e)
    wd = tlc.workdir('c20trace')
    path = os.path.join(wd, 'events.json')
    with open(path, 'w') as f:
        json.dump(events, f)
    res = tlc.run('Trace_PixCoord', cfg='Trace_PixCoord.cfg', dump=True, env={'TRACE_FILE': path}, tag='c20trace')
    ctx.tlc(res, 'Trace_PixCoord validation of recorded calls')
    seen = 0
    for st in res.states():
        seen += 1
        e = events[st['i'] - 1]
        ctx.case(('trace', json.dumps(e, sort_keys=True)), e.get('rx') != 'error')
        if st['verdict'] != 'ok':
            ctx.violation(f"C20|trace|{st['verdict']}", f"recorded call rejected by Trace_PixCoord: {st['verdict']}", e)
    if seen != len(events):
        raise tlc.TlcError('Trace_PixCoord verdict count mismatch')
    ctx.traces += seen
    ctx.note('trace_events_validated', seen)
    tlc.cleanup(res.workdir)
    tlc.cleanup(wd)
