"""Concretiser for abstract CRTF lines (Crtf.tla) and an independent tokenizer of the writer's output."""
import re


def sexa(v, style):
    sign = '-' if v < 0 else ''
    t = abs(v)
    a, m, s = t // 3600000, (t % 3600000) // 60000, (t % 60000) / 1000.0
    if style == 'hms':
        return f'{sign}{a}h{m:02d}m{s:06.3f}s'
    if style == 'colon':
        return f'{sign}{a}:{m:02d}:{s:06.3f}'
    return f'{sign}{a}.{m:02d}.{s:06.3f}'


def tok(t):
    n, v = t['n'], t['v']
    if n == 'plain':
        return f'{v / 1000:.3f}'
    if n in ('deg', 'pix', 'arcmin', 'arcsec'):
        return f'{v / 1000:.3f}{n}'
    if n == 'rad':
        return f'{v / 1e6:.6f}rad'
    if n in ('hms', 'colon', 'dots'):
        return sexa(v, n)
    if n == 'asecq':
        return f'{v / 1000:.3f}"'
    if n == 'aminq':
        return f"{v / 1000:.3f}'"
    raise ValueError(n)


def props(p):
    out = []
    for k in sorted(p):
        if k in ('zz', 'symbol', 'text'):
            continue
        v = p[k]
        out.append(f"{k}='{v}'" if k == 'label' else f'{k}={v}')
    return ', '.join(out)


def line(l, spaced):
    if l['k'] == 'comment':
        return '# a comment circle[[1deg, 2deg], 3deg]'
    if l['k'] == 'global':
        return 'global ' + props(l['props'])
    t = [tok(x) for x in l['toks']]
    sep = ', ' if spaced else ','
    pair = lambda a, b: f'[{a}{sep}{b}]'  # noqa
    k = l['kind']
    if k == 'circle':
        body = f'[{pair(t[0], t[1])}{sep}{t[2]}]'
    elif k in ('annulus', 'centerbox', 'box', 'line'):
        body = f'[{pair(t[0], t[1])}{sep}{pair(t[2], t[3])}]'
    elif k in ('ellipse', 'rotbox'):
        body = f'[{pair(t[0], t[1])}{sep}{pair(t[2], t[3])}{sep}{t[4]}]'
    elif k == 'poly':
        body = '[' + sep.join(pair(t[i], t[i + 1]) for i in range(0, len(t), 2)) + ']'
    elif k == 'symbol':
        body = f"[{pair(t[0], t[1])}{sep}{l['props'].get('symbol', '.')}]"
    elif k == 'text':
        body = f"[{pair(t[0], t[1])}{sep}'{l['props'].get('text', 'txt')}']"
    else:
        raise ValueError(k)
    s = l['sign'] + ('ann ' if l['ann'] else '') + k + body
    pr = props(l['props'])
    return s + (', ' + pr if pr else '')


def render(lines, spaced=True):
    return '#CRTFv0\n' + '\n'.join(line(l, spaced) for l in lines) + '\n'


NUM = re.compile(r'(-?\d+\.?\d*)(deg|pix|arcmin|arcsec|rad|"|\')?')


def tokenize(text):
    """writer output -> abstract lines (numbers with their unit suffix, key=value properties)."""
    out = []
    for raw in text.split('\n'):
        raw = raw.strip()
        if not raw or raw.startswith('#'):
            continue
        if raw.startswith('global '):
            out.append({'k': 'global', 'props': dict(kv.split('=', 1) for kv in [x.strip() for x in raw[7:].split(',')] if '=' in kv)})
            continue
        m = re.match(r"([+-]?)(ann )?([a-z]+)(\[.*\])(?:, (.*))?$", raw)
        sign, ann, kind, body, meta = m.groups()
        # split trailing meta that leaked into body (meta never contains brackets except range/corr)
        depth, end = 0, 0
        for i, ch in enumerate(body):
            depth += ch == '['
            depth -= ch == ']'
            if depth == 0:
                end = i + 1
                break
        rest = body[end:]
        body = body[:end]
        if rest.startswith(', '):
            meta = rest[2:] + (', ' + meta if meta else '')
        strm = re.search(r"'([^']*)'\]$", body)
        nums = [(a, b or '') for a, b in NUM.findall(re.sub(r"'[^']*'", '', body))]
        pr = {}
        for kv in re.findall(r"(\w+)=('[^']*'|\[[^\]]*\]|[^,]+)", meta or ''):
            pr[kv[0]] = kv[1].strip().strip("'")
        out.append({'k': 'region', 'sign': sign, 'ann': bool(ann), 'kind': kind, 'nums': nums, 'text': strm.group(1) if strm else None, 'props': pr, 'raw': raw})
    return out
