"""Random abstract lattice shapes (units 1/U pixel) beyond the MC families, for trace validation."""
BASE = [(1, 0, 1), (3, 4, 5), (5, 12, 13), (8, 15, 17), (7, 24, 25), (20, 21, 29)]


def all_dirs():
    out = set()
    for a, b, h in BASE:
        for x, y in ((a, b), (b, a)):
            for sx in (1, -1):
                for sy in (1, -1):
                    out.add((sx * x, sy * y, h))
    return sorted(out)


DIRS = all_dirs()
SMALL_DIRS = [d for d in DIRS if d[2] <= 13]
INCS = ['absent', 'absent', 'absent', 'T', 'F', '1', '0']


def rdir(rnd, small=False):
    return list(rnd.choice(SMALL_DIRS if small else DIRS))


def simple(rnd, kinds=None, cmax=4, smax=12, small_dirs=False, inc=None):
    kinds = kinds or ['circle', 'ellipse', 'rectangle', 'polygon', 'cannulus', 'eannulus', 'rannulus', 'point', 'line', 'text']
    k = rnd.choice(kinds)
    inc = rnd.choice(INCS) if inc is None else inc
    c = lambda: rnd.randint(-cmax, cmax)  # noqa
    if k == 'circle':
        return {'k': k, 'cx': c(), 'cy': c(), 'r': rnd.randint(1, smax), 'inc': inc}
    if k in ('ellipse', 'rectangle'):
        return {'k': k, 'cx': c(), 'cy': c(), 'w': rnd.randint(1, smax), 'h': rnd.randint(1, smax),
                'd': rdir(rnd, small_dirs), 'inc': inc}
    if k == 'polygon':
        n = rnd.randint(3, 7)
        while True:
            vs = [[rnd.randint(-smax, smax), rnd.randint(-smax, smax)] for _ in range(n)]
            if len({tuple(v) for v in vs}) >= 3:
                break
        return {'k': k, 'vs': vs, 'inc': inc}
    if k == 'cannulus':
        r1 = rnd.randint(1, smax - 1)
        return {'k': k, 'cx': c(), 'cy': c(), 'r1': r1, 'r2': rnd.randint(r1 + 1, smax), 'inc': inc}
    if k in ('eannulus', 'rannulus'):
        w1, h1 = rnd.randint(1, smax - 1), rnd.randint(1, smax - 1)
        return {'k': k, 'cx': c(), 'cy': c(), 'w1': w1, 'h1': h1, 'w2': rnd.randint(w1 + 1, smax),
                'h2': rnd.randint(h1 + 1, smax), 'd': rdir(rnd, small_dirs), 'inc': inc}
    if k in ('point', 'text'):
        return {'k': k, 'cx': c(), 'cy': c(), 'inc': inc}
    if k == 'line':
        return {'k': k, 'x1': c(), 'y1': c(), 'x2': c(), 'y2': c(), 'inc': inc}
    raise ValueError(k)


MASKABLE = ['circle', 'ellipse', 'rectangle', 'polygon', 'cannulus', 'eannulus', 'rannulus']


def compound(rnd, depth, kinds=None, **kw):
    if depth == 0 or rnd.random() < 0.15:
        return simple(rnd, kinds or MASKABLE, **kw)
    a = compound(rnd, depth - 1, kinds, **kw)
    b = compound(rnd, depth - 1, kinds, **kw)
    op = rnd.choice(['and', 'or', 'xor'])
    if rnd.random() < 0.7:
        return {'k': 'compound', 'op': op, 'a': a, 'b': b, 'inc': a['inc'], 'via': 'operator'}
    return {'k': 'compound', 'op': op, 'a': a, 'b': b, 'inc': rnd.choice(INCS), 'via': 'ctor'}


def scale_shape(s, m):
    """Mirror of Geometry!Scale."""
    k = s['k']
    o = dict(s)
    if k == 'compound':
        o['a'] = scale_shape(s['a'], m)
        o['b'] = scale_shape(s['b'], m)
        return o
    for f in ('cx', 'cy', 'r', 'w', 'h', 'r1', 'r2', 'w1', 'h1', 'w2', 'h2', 'x1', 'y1', 'x2', 'y2'):
        if f in o:
            o[f] = o[f] * m
    if k == 'polygon':
        o['vs'] = [[v[0] * m, v[1] * m] for v in s['vs']]
    return o
