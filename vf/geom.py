"""Concretisation of abstract lattice shapes (Geometry.tla) into real regions, and projections back."""
import math
import operator

import numpy as np

OPS = {'and': operator.and_, 'or': operator.or_, 'xor': operator.xor}
INC = {'T': True, 'F': False, '1': 1, '0': 0}


def angle_of(d, variant=0):
    """Direction <<c, s, h>> -> astropy angle; variant selects unit and winding."""
    import astropy.units as u
    from astropy.coordinates import Angle
    a = math.atan2(d[1], d[0])
    v = variant % 6
    if v == 0:
        return a * u.rad
    if v == 1:
        return math.degrees(a) * u.deg
    if v == 2:
        return (math.degrees(a) * 60.0) * u.arcmin
    if v == 3:
        return Angle(math.degrees(a) + 360.0, 'deg')
    if v == 4:
        return (a - 2 * math.pi) * u.rad
    return Angle(a + 4 * math.pi, 'rad')


def meta_of(inc):
    from regions import RegionMeta
    if inc == 'absent':
        return None
    return RegionMeta({'include': INC[inc]})


class Frame:
    """Affine embedding of the lattice into pixel coordinates: pix = v/U * scale + t (t only for positions)."""

    def __init__(self, U, scale=1.0, tx=0.0, ty=0.0, av=0, ints=False):
        self.U, self.scale, self.tx, self.ty, self.av, self.ints = U, scale, tx, ty, av, ints

    def _n(self, f):
        # with ints=True whole numbers are handed to the package as Python ints (exercises integer arithmetic paths)
        return int(f) if self.ints and f == int(f) else f

    def len(self, v):
        f = v / self.U * self.scale
        if self.ints and f == int(f) and int(f) % 2 == 1 and 0 < f < 60000:
            # every other whole-number size is handed over as an unsigned numpy integer (a size read from an image header or a table column):
            # differences and negations of such values wrap around unless the package computes them in floating point
            return np.uint16(f) if f > 200 or int(f) % 4 == 1 else np.uint8(f)
        return self._n(f)

    def x(self, v):
        return self._n(v / self.U * self.scale + self.tx)

    def y(self, v):
        return self._n(v / self.U * self.scale + self.ty)


def build(s, fr, top=True):
    """Abstract shape record -> real pixel region."""
    import regions as R
    from regions import PixCoord
    k = s['k']
    meta = meta_of(s['inc'])
    kw = {} if meta is None else {'meta': meta}
    if k == 'circle':
        return R.CirclePixelRegion(PixCoord(fr.x(s['cx']), fr.y(s['cy'])), fr.len(s['r']), **kw)
    if k in ('ellipse', 'rectangle'):
        cls = R.EllipsePixelRegion if k == 'ellipse' else R.RectanglePixelRegion
        return cls(PixCoord(fr.x(s['cx']), fr.y(s['cy'])), fr.len(s['w']), fr.len(s['h']),
                   angle=angle_of(s['d'], fr.av), **kw)
    if k == 'polygon':
        xs = np.array([fr.x(v[0]) for v in s['vs']], dtype=float)
        ys = np.array([fr.y(v[1]) for v in s['vs']], dtype=float)
        if fr.ints and np.array_equal(xs, np.round(xs)) and np.array_equal(ys, np.round(ys)):
            # integer-typed vertex arrays (as a user who types whole numbers gets them)
            return R.PolygonPixelRegion(PixCoord(xs.astype(np.int64), ys.astype(np.int64)), **kw)
        if (len(s['vs']) + s['vs'][0][0]) % 3 == 0:
            # the same polygon given as vertices relative to an origin
            ox, oy = 16.0, -8.0
            return R.PolygonPixelRegion(PixCoord(xs - ox, ys - oy), origin=PixCoord(ox, oy), **kw)
        return R.PolygonPixelRegion(PixCoord(xs, ys), **kw)
    if k == 'cannulus':
        return R.CircleAnnulusPixelRegion(PixCoord(fr.x(s['cx']), fr.y(s['cy'])), fr.len(s['r1']), fr.len(s['r2']), **kw)
    if k in ('eannulus', 'rannulus'):
        cls = R.EllipseAnnulusPixelRegion if k == 'eannulus' else R.RectangleAnnulusPixelRegion
        return cls(PixCoord(fr.x(s['cx']), fr.y(s['cy'])), fr.len(s['w1']), fr.len(s['w2']),
                   fr.len(s['h1']), fr.len(s['h2']), angle=angle_of(s['d'], fr.av), **kw)
    if k == 'point':
        return R.PointPixelRegion(PixCoord(fr.x(s['cx']), fr.y(s['cy'])), **kw)
    if k == 'text':
        return R.TextPixelRegion(PixCoord(fr.x(s['cx']), fr.y(s['cy'])), 'label', **kw)
    if k == 'line':
        return R.LinePixelRegion(PixCoord(fr.x(s['x1']), fr.y(s['y1'])), PixCoord(fr.x(s['x2']), fr.y(s['y2'])), **kw)
    if k == 'compound':
        a = build(s['a'], fr, False)
        b = build(s['b'], fr, False)
        if s.get('via', 'operator') == 'operator':
            # the compound shares region1's meta: the model gives it region1's include flag
            assert s['inc'] == s['a']['inc'], 'operator-built compound must carry region1 include flag'
            VIA[0] += 1
            if VIA[0] % 2:       # the named methods and the operators are the same operations
                return {'and': a.intersection, 'or': a.union, 'xor': a.symmetric_difference}[s['op']](b)
            return {'and': a & b, 'or': a | b, 'xor': a ^ b}[s['op']]
        from regions import RegionMeta
        return R.CompoundPixelRegion(a, b, OPS[s['op']], meta=meta if meta is not None else RegionMeta())
    raise ValueError(k)


VIA = [0]


def window(wlo, whi):
    """Lattice points of the query window in the order of MC_Geometry!WPts (row-major, x fastest)."""
    n = whi - wlo + 1
    xs = np.tile(np.arange(wlo, whi + 1), n)
    ys = np.repeat(np.arange(wlo, whi + 1), n)
    return xs, ys


def shape_key(s):
    import json
    return json.dumps(s, sort_keys=True)


def nontrivial_answers(ans):
    """a window is non-trivial if it has both members and non-members (ignoring EDGE)."""
    a = np.asarray(ans)
    return bool((a == 1).any() and (a == 0).any())


KIND = {'CirclePixelRegion': 'circle', 'EllipsePixelRegion': 'ellipse', 'RectanglePixelRegion': 'rectangle',
        'PolygonPixelRegion': 'polygon', 'RegularPolygonPixelRegion': 'regpolygon',
        'CircleAnnulusPixelRegion': 'cannulus', 'EllipseAnnulusPixelRegion': 'eannulus',
        'RectangleAnnulusPixelRegion': 'rannulus', 'PointPixelRegion': 'point', 'TextPixelRegion': 'text',
        'LinePixelRegion': 'line', 'CompoundPixelRegion': 'compound'}


def project(region):
    """Real pixel region -> dict of floats in pixel units, keyed like the abstract shapes (angle as 'ang' rad)."""
    k = KIND[type(region).__name__]
    o = {'k': k}
    if k == 'compound':
        o['op'] = {operator.and_: 'and', operator.or_: 'or', operator.xor: 'xor'}.get(region.operator, '?')
        o['a'] = project(region.region1)
        o['b'] = project(region.region2)
        return o
    if k in ('polygon', 'regpolygon'):
        o['vs'] = [[float(x), float(y)] for x, y in zip(np.atleast_1d(region.vertices.x), np.atleast_1d(region.vertices.y))]
        if k == 'polygon':
            return o
    if k == 'line':
        o.update(x1=float(region.start.x), y1=float(region.start.y), x2=float(region.end.x), y2=float(region.end.y))
        return o
    o['cx'], o['cy'] = float(region.center.x), float(region.center.y)
    names = {'circle': {'r': 'radius'}, 'ellipse': {'w': 'width', 'h': 'height'}, 'rectangle': {'w': 'width', 'h': 'height'},
             'cannulus': {'r1': 'inner_radius', 'r2': 'outer_radius'}, 'regpolygon': {'r': 'radius'},
             'eannulus': {'w1': 'inner_width', 'h1': 'inner_height', 'w2': 'outer_width', 'h2': 'outer_height'},
             'rannulus': {'w1': 'inner_width', 'h1': 'inner_height', 'w2': 'outer_width', 'h2': 'outer_height'}}.get(k, {})
    for f, attr in names.items():
        o[f] = float(getattr(region, attr))
    if hasattr(region, 'angle'):
        o['ang'] = float(region.angle.to_value('rad'))
    return o


def expected(s, fr):
    """Abstract shape in frame fr -> dict of floats comparable with project()."""
    k = s['k']
    o = {'k': k}
    if k == 'compound':
        o['op'] = s['op']
        o['a'] = expected(s['a'], fr)
        o['b'] = expected(s['b'], fr)
        return o
    if k == 'polygon':
        o['vs'] = [[fr.x(v[0]), fr.y(v[1])] for v in s['vs']]
        return o
    if k == 'line':
        o.update(x1=fr.x(s['x1']), y1=fr.y(s['y1']), x2=fr.x(s['x2']), y2=fr.y(s['y2']))
        return o
    o['cx'], o['cy'] = fr.x(s['cx']), fr.y(s['cy'])
    for f in ('r', 'w', 'h', 'r1', 'r2', 'w1', 'h1', 'w2', 'h2'):
        if f in s:
            o[f] = fr.len(s[f])
    if 'd' in s:
        o['dir'] = [s['d'][0] / s['d'][2], s['d'][1] / s['d'][2]]
    return o


def params_close(real, want, tol, scale=1.0):
    """Compare project() output with expected(); returns None or a description of the first difference."""
    if real['k'] != want['k']:
        return f"class {real['k']} != {want['k']}"
    if real['k'] == 'compound':
        if real['op'] != want['op']:
            return f"operator {real['op']} != {want['op']}"
        return params_close(real['a'], want['a'], tol, scale) or params_close(real['b'], want['b'], tol, scale)
    for f, v in want.items():
        if f == 'k':
            continue
        if f == 'dir':
            c, sn = math.cos(real['ang']), math.sin(real['ang'])
            if abs(c - v[0]) > 1e-9 or abs(sn - v[1]) > 1e-9:
                return f"angle {real['ang']} rad is not the direction {v}"
            continue
        if f == 'vs':
            if len(real['vs']) != len(v):
                return f"{len(real['vs'])} vertices, expected {len(v)}"
            for a, b in zip(real['vs'], v):
                if abs(a[0] - b[0]) > tol * scale or abs(a[1] - b[1]) > tol * scale:
                    return f'vertex {a} != {b}'
            continue
        if abs(real[f] - v) > tol * max(scale, abs(v)):
            return f'{f}={real[f]!r} expected {v!r}'
    return None


def fingerprint(region):
    """Deep structural fingerprint of a region (parameters bit-for-bit, meta, visual)."""
    k = type(region).__name__
    out = [k]
    for p in region._params or ():
        v = getattr(region, p)
        out.append((p, _fp(v)))
    out.append(('meta', sorted((str(a), repr(b)) for a, b in dict(region.meta).items())))
    out.append(('visual', sorted((str(a), repr(b)) for a, b in dict(region.visual).items())))
    return repr(out)


def _fp(v):
    from regions import PixCoord
    from regions.core.core import Region
    if isinstance(v, PixCoord):
        return ('PixCoord', np.asarray(v.x).tobytes(), np.asarray(v.y).tobytes(), np.shape(v.x))
    if isinstance(v, Region):
        return fingerprint(v)
    if hasattr(v, 'unit') and hasattr(v, 'value'):
        return ('Q', str(v.unit), np.asarray(v.value).tobytes())
    if hasattr(v, 'frame') and hasattr(v, 'to_string'):
        return ('Sky', v.frame.name, np.asarray(v.spherical.lon.deg).tobytes(), np.asarray(v.spherical.lat.deg).tobytes())
    if isinstance(v, (int, float, np.generic)):
        return ('n', repr(v))
    return ('o', repr(v))


def perturb(s):
    """Another valid shape of the same class (different sizes, centre, direction)."""
    o = dict(s)
    if s['k'] == 'compound':
        o['a'] = perturb(s['a'])
        o['b'] = perturb(s['b'])
        return o
    for f in ('cx', 'cy', 'x1', 'y1', 'x2', 'y2'):
        if f in o:
            o[f] = o[f] + 3
    for f in ('r', 'w', 'h'):
        if f in o:
            o[f] = o[f] + 2
    for f in ('r2', 'w2', 'h2'):
        if f in o:
            o[f] = o[f] + 5
    if 'd' in o:
        o['d'] = [-o['d'][1], o['d'][0], o['d'][2]]
    if s['k'] == 'polygon':
        o['vs'] = [[v[0] + 2, v[1] - 1] for v in s['vs']]
    return o


def build_via_assign(s, fr, exercise):
    """Build a region with other parameters, use it once, then assign the wanted parameters one by one:
    the result must behave exactly like a freshly built region (no state may survive from before)."""
    target = build(s, fr)
    reg = build(perturb(s), fr)
    exercise(reg)
    _assign_from(reg, target)
    return reg


def _assign_from(reg, target):
    from regions.core.compound import CompoundPixelRegion
    if isinstance(reg, CompoundPixelRegion):
        _assign_from(reg.region1, target.region1)
        _assign_from(reg.region2, target.region2)
        return
    params = list(reg._params)
    # annuli: assign in an order that keeps inner < outer at every step is not required by the package
    for p in params:
        setattr(reg, p, getattr(target, p))
    for k, v in dict(target.meta).items():
        reg.meta[k] = v
    for k in [k for k in reg.meta if k not in target.meta]:
        del reg.meta[k]
