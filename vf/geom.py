"""Concretisation of abstract lattice shapes (Geometry.tla) into real regions, and projections back."""
import math
import operator

import numpy as np

OPS = {'and': operator.and_, 'or': operator.or_, 'xor': operator.xor}
INC = {'T': True, 'F': False, '1': 1, '0': 0}


def angle_of(d, variant=0):
    """Direction <<c, s, h>> -> astropy angle; variant selects unit and winding."""
    import astropy.units as u
    from astropy.coordinates import Angle
    a = math.atan2(d[1], d[0])
    v = variant % 6
    if v == 0:
        return a * u.rad
    if v == 1:
        return math.degrees(a) * u.deg
    if v == 2:
        return (math.degrees(a) * 60.0) * u.arcmin
    if v == 3:
        return Angle(math.degrees(a) + 360.0, 'deg')
    if v == 4:
        return (a - 2 * math.pi) * u.rad
    return Angle(a + 4 * math.pi, 'rad')


def meta_of(inc):
    from regions import RegionMeta
    if inc == 'absent':
        return None
    return RegionMeta({'include': INC[inc]})


class Frame:
    """Affine embedding of the lattice into pixel coordinates: pix = v/U * scale + t (t only for positions)."""

    def __init__(self, U, scale=1.0, tx=0.0, ty=0.0, av=0):
        self.U, self.scale, self.tx, self.ty, self.av = U, scale, tx, ty, av

    def len(self, v):
        return v / self.U * self.scale

    def x(self, v):
        return v / self.U * self.scale + self.tx

    def y(self, v):
        return v / self.U * self.scale + self.ty


def build(s, fr, top=True):
    """Abstract shape record -> real pixel region."""
    import regions as R
    from regions import PixCoord
    k = s['k']
    meta = meta_of(s['inc'])
    kw = {} if meta is None else {'meta': meta}
    if k == 'circle':
        return R.CirclePixelRegion(PixCoord(fr.x(s['cx']), fr.y(s['cy'])), fr.len(s['r']), **kw)
    if k in ('ellipse', 'rectangle'):
        cls = R.EllipsePixelRegion if k == 'ellipse' else R.RectanglePixelRegion
        return cls(PixCoord(fr.x(s['cx']), fr.y(s['cy'])), fr.len(s['w']), fr.len(s['h']),
                   angle=angle_of(s['d'], fr.av), **kw)
    if k == 'polygon':
        xs = np.array([fr.x(v[0]) for v in s['vs']], dtype=float)
        ys = np.array([fr.y(v[1]) for v in s['vs']], dtype=float)
        return R.PolygonPixelRegion(PixCoord(xs, ys), **kw)
    if k == 'cannulus':
        return R.CircleAnnulusPixelRegion(PixCoord(fr.x(s['cx']), fr.y(s['cy'])), fr.len(s['r1']), fr.len(s['r2']), **kw)
    if k in ('eannulus', 'rannulus'):
        cls = R.EllipseAnnulusPixelRegion if k == 'eannulus' else R.RectangleAnnulusPixelRegion
        return cls(PixCoord(fr.x(s['cx']), fr.y(s['cy'])), fr.len(s['w1']), fr.len(s['w2']),
                   fr.len(s['h1']), fr.len(s['h2']), angle=angle_of(s['d'], fr.av), **kw)
    if k == 'point':
        return R.PointPixelRegion(PixCoord(fr.x(s['cx']), fr.y(s['cy'])), **kw)
    if k == 'text':
        return R.TextPixelRegion(PixCoord(fr.x(s['cx']), fr.y(s['cy'])), 'label', **kw)
    if k == 'line':
        return R.LinePixelRegion(PixCoord(fr.x(s['x1']), fr.y(s['y1'])), PixCoord(fr.x(s['x2']), fr.y(s['y2'])), **kw)
    if k == 'compound':
        a = build(s['a'], fr, False)
        b = build(s['b'], fr, False)
        if s.get('via', 'operator') == 'operator':
            # the compound shares region1's meta: the model gives it region1's include flag
            assert s['inc'] == s['a']['inc'], 'operator-built compound must carry region1 include flag'
            return {'and': a & b, 'or': a | b, 'xor': a ^ b}[s['op']]
        from regions import RegionMeta
        return R.CompoundPixelRegion(a, b, OPS[s['op']], meta=meta if meta is not None else RegionMeta())
    raise ValueError(k)


def window(wlo, whi):
    """Lattice points of the query window in the order of MC_Geometry!WPts (row-major, x fastest)."""
    n = whi - wlo + 1
    xs = np.tile(np.arange(wlo, whi + 1), n)
    ys = np.repeat(np.arange(wlo, whi + 1), n)
    return xs, ys


def shape_key(s):
    import json
    return json.dumps(s, sort_keys=True)


def nontrivial_answers(ans):
    """a window is non-trivial if it has both members and non-members (ignoring EDGE)."""
    a = np.asarray(ans)
    return bool((a == 1).any() and (a == 0).any())
