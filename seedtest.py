#!/venv/bin/python
"""seedtest.py <worktree> <pid> <i> <needs text> [--checks C01,C08]

Confirms a seeded change independently (baseline tests unchanged, demo fails with / passes without),
stores it under /verif/seeded/<pid>_<i>/ and runs the registered quick checks against it on /repo
(applied, checked, undone)."""
import json
import os
import re
import shutil
import subprocess
import sys
import time

ROOT = os.path.dirname(os.path.abspath(__file__))


def sh(cmd, cwd=None, env=None, timeout=3600):
    p = subprocess.run(cmd, cwd=cwd, env=env, shell=isinstance(cmd, str), stdout=subprocess.PIPE, stderr=subprocess.STDOUT, text=True, timeout=timeout)
    return p.returncode, p.stdout


def main():
    wt, pid, i, needs = sys.argv[1:5]
    checks = [pid]
    if '--checks' in sys.argv:
        checks = sys.argv[sys.argv.index('--checks') + 1].split(',')
    diff = os.path.join(wt, f'mutant_{i}.diff')
    demo = os.path.join(wt, f'demo_{i}.py')
    env = dict(os.environ, PYTHONPATH=wt, MPLBACKEND='Agg')
    ran = []
    sh('git checkout -- .', cwd=wt)
    rc0, out0 = sh(['/venv/bin/python', demo], cwd=wt, env=env)
    ran.append(f'demo on unchanged tree: exit {rc0}')
    rc, out = sh(['git', 'apply', diff], cwd=wt)
    if rc != 0:
        print('cannot apply diff', out)
        return 2
    rc1, out1 = sh(['/venv/bin/python', demo], cwd=wt, env=env)
    ran.append(f'demo with the change: exit {rc1}')
    rct, outt = sh('/venv/bin/python -m pytest -q -p no:cacheprovider --timeout=900 --continue-on-collection-errors 2>&1 | tail -1', cwd=wt, env=env)
    m = re.search(r'(\d+) failed.*?(\d+) passed.*?(\d+) errors', outt)
    summary = outt.strip()[-120:]
    ran.append(f'test suite with the change: {re.sub(chr(27) + r"\[[0-9;]*m", "", summary)}')
    baseline_ok = bool(m) and m.group(1) == '6' and m.group(2) == '1010' and m.group(3) == '2'
    sh('git checkout -- .', cwd=wt)
    confirmed = rc0 == 0 and rc1 == 1 and baseline_ok
    print(f'{pid}_{i}: demo unchanged={rc0} changed={rc1} baseline_ok={baseline_ok} confirmed={confirmed}')
    if not confirmed:
        print(out1[-500:])
        return 1
    j = sys.argv[sys.argv.index('--as') + 1] if '--as' in sys.argv else i
    dest = os.path.join(ROOT, 'seeded', f'{pid}_{j}')
    os.makedirs(dest, exist_ok=True)
    shutil.copy(diff, os.path.join(dest, 'patch.diff'))
    shutil.copy(demo, os.path.join(dest, 'demo.py'))
    # run the checks against /repo with the change applied
    detected = {}
    # the checks are run against the scratch worktree with the change applied (VERIF_REPO), which is equivalent to
    # `git -C /repo apply` + check + `git -C /repo checkout -- .` but does not disturb other work on /repo
    rc, out = sh(['git', 'apply', diff], cwd=wt)
    work = os.path.join(ROOT, '.work', f'seed_{pid}_{i}')
    cenv = dict(os.environ, VERIF_REPO=wt, VERIF_EVID=os.path.join(work, 'evidence'), VERIF_REPLAYS=os.path.join(work, 'replays'))
    try:
        for c in checks:
            t0 = time.time()
            rc, out = sh([os.path.join(ROOT, 'check'), c, '--tier', 'quick'], cwd=ROOT, env=cenv, timeout=3000)
            sigs = re.findall(r'violation\(s\) by signature: (.*)', out)
            detected[c] = {'exit': rc, 'wall_s': round(time.time() - t0, 1), 'signatures': (sigs[0][:600] if sigs else '')}
            print(f'  check {c}: exit {rc} {sigs[0][:300] if sigs else out[-300:]}')
    finally:
        sh('git checkout -- .', cwd=wt)
        shutil.rmtree(work, ignore_errors=True)
    meta = {'property': pid, 'needs_to_manifest': needs, 'confirmed': ran, 'checks_run': detected,
            'detected_by': [c for c, d in detected.items() if d['exit'] == 1]}
    with open(os.path.join(dest, 'meta.json'), 'w') as f:
        json.dump(meta, f, indent=1)
    return 0


if __name__ == '__main__':
    sys.exit(main())
