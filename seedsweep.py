#!/venv/bin/python
"""seedsweep.py [ids...]: for each seeded change (all by default) make a scratch worktree, apply the patch, confirm the
demo, run the property's quick check against it (VERIF_REPO), record the result in meta.json, remove the worktree."""
import json
import os
import re
import shutil
import subprocess
import sys
import time

ROOT = os.path.dirname(os.path.abspath(__file__))
SEEDED = os.path.join(ROOT, 'seeded')


def sh(cmd, cwd=None, env=None, timeout=3600):
    p = subprocess.run(cmd, cwd=cwd, env=env, shell=isinstance(cmd, str), stdout=subprocess.PIPE, stderr=subprocess.STDOUT, text=True, timeout=timeout)
    return p.returncode, p.stdout


def main():
    needs = json.load(open(os.path.join(SEEDED, 'NEEDS.json')))
    ids = sys.argv[1:] or sorted(d for d in os.listdir(SEEDED) if os.path.isdir(os.path.join(SEEDED, d)))
    for sid in ids:
        d = os.path.join(SEEDED, sid)
        pid = sid.split('_')[0]
        wt = f'/tmp/sweep_{sid}_{os.getpid()}'
        sh([os.path.join(ROOT, 'mkworktree.sh'), wt])
        try:
            env = dict(os.environ, PYTHONPATH=wt, MPLBACKEND='Agg')
            rc0, _ = sh(['/venv/bin/python', os.path.join(d, 'demo.py')], cwd=wt, env=env)
            meta0 = json.load(open(os.path.join(d, 'meta.json'))) if os.path.exists(os.path.join(d, 'meta.json')) else {}
            if meta0.get('apply') == 'c-patch':
                rc, out = sh(f"patch -p0 core.c < {os.path.join(d, 'patch.diff')} && touch core.c", cwd=os.path.join(wt, 'regions', '_geometry'))
                # the demo needs the rebuilt module: let the build step of ./check do it first
                sh([os.path.join(ROOT, 'check'), 'C19', '--tier', 'quick'], cwd=ROOT, env=dict(os.environ, VERIF_REPO=wt, VERIF_EVID='/tmp/sweep_ev', VERIF_REPLAYS='/tmp/sweep_rp'), timeout=600)
            else:
                rc, out = sh(['git', 'apply', os.path.join(d, 'patch.diff')], cwd=wt)
            if rc != 0:
                print(sid, 'patch does not apply to the current tree:', out[:200])
                continue
            rc1, _ = sh(['/venv/bin/python', os.path.join(d, 'demo.py')], cwd=wt, env=env)
            meta_path = os.path.join(d, 'meta.json')
            meta = json.load(open(meta_path)) if os.path.exists(meta_path) else {'property': pid, 'confirmed': []}
            meta['needs_to_manifest'] = needs.get(sid, meta.get('needs_to_manifest', ''))
            meta['demo_on_current_tree'] = {'unchanged': rc0, 'with_change': rc1}
            work = os.path.join(ROOT, '.work', f'sweep_{sid}')
            cenv = dict(os.environ, VERIF_REPO=wt, VERIF_EVID=os.path.join(work, 'evidence'), VERIF_REPLAYS=os.path.join(work, 'replays'))
            t0 = time.time()
            rc, out = sh([os.path.join(ROOT, 'check'), pid, '--tier', 'quick'], cwd=ROOT, env=cenv, timeout=3000)
            sigs = re.findall(r'violation\(s\) by signature: (.*)', out)
            meta.setdefault('checks_run', {})[pid] = {'exit': rc, 'wall_s': round(time.time() - t0, 1), 'signatures': sigs[0][:600] if sigs else '',
                                                    'how': 'scratch worktree with the patch applied, checked via VERIF_REPO (equivalent to git -C /repo apply; check; git -C /repo checkout -- .)'}
            meta['detected_by'] = [c for c, r in meta['checks_run'].items() if r['exit'] == 1]
            json.dump(meta, open(meta_path, 'w'), indent=1)
            shutil.rmtree(work, ignore_errors=True)
            print(f'{sid}: demo {rc0}->{rc1}; check {pid} exit {rc} {sigs[0][:150] if sigs else ""}')
        finally:
            sh(['git', '-C', '/repo', 'worktree', 'remove', '--force', wt])


if __name__ == '__main__':
    main()
