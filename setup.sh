#!/bin/sh
# Offline setup: nothing to download or compile; verify the tools and parse every specification.
set -e
cd "$(dirname "$0")"
mkdir -p .work evidence
/venv/bin/python -c "import regions, numpy, astropy; print('regions from', regions.__file__)"
java -version 2>&1 | head -1
fail=0
for f in specs/*.tla; do
  if ! (cd specs && java -cp /opt/veriftools/tla/tla2tools.jar:/opt/veriftools/tla/CommunityModules-deps.jar tla2sany.SANY "$(basename "$f")" >/tmp/sany.$$ 2>&1); then
    echo "SANY failed: $f"; cat /tmp/sany.$$; fail=1
  fi
done
rm -f /tmp/sany.$$
/venv/bin/python -m compileall -q vf check >/dev/null
exit $fail
