----------------------------- MODULE MC_BBox -----------------------------
EXTENDS BBox
M1 == -1
M2 == -2
M3 == -3
M4 == -4
M5 == -5
M12 == -12
M20 == -20
Z0 == 0
C == INSTANCE BBoxClosed
InvClosedAgrees == Done /\ op \in {"union", "intersection", "shape", "center", "extent", "slices", "from_float"} =>
    C!Verdict([op |-> op, a |-> a, b |-> b, img |-> img, flt |-> flt, eps |-> <<0, 0, 0, 0>>, res |-> res]) = "ok"
OpsPair == {"union", "intersection"}
OpsUnary == {"shape", "center", "extent", "slices"}
OpsFloat == {"from_float"}
OpsAssoc == {"assoc_union", "assoc_inter"}
OpsRegion == {"to_region", "as_artist"}
=============================================================================
