---------------------------- MODULE MC_Placement ----------------------------
EXTENDS Placement
M3 == -3
M2 == -2
SizesQ == {0, 1, 2, 3}
SizesT == {0, 1, 2, 3}
HQ == {0, 1, 3, 4}
WQ == {0, 2, 3}
HT == 0..5
WT == 0..5
PatQ == {"mix", "checker"}
PatT == {"ones", "checker", "mix", "half"}
FillsAll == {"zero", "seven", "nan", "inf", "izero", "ineg"}          \* izero / ineg: the fill value handed over as a Python int (0, -3)
=============================================================================
