SPECIFICATION Spec
CONSTANTS Formats = {"ds9", "crtf", "fits"}
 SwapSteps = TRUE
INVARIANT NoClobber
INVARIANT FailureAtomic
INVARIANT SuccessComplete
INVARIANT SerFailMeansError
INVARIANT OutcomeAgrees
PROPERTY OnlyLastStepWrites
CHECK_DEADLOCK FALSE
