------------------------------- MODULE Purity -------------------------------
(* C13: read-only / constructive operations never mutate their inputs nor depend on history.   *)
(* The pool holds objects (regions of every class, lists, coordinate objects, image arrays);    *)
(* ver[o] is the version of object o's value (bumped only by an explicit user mutation), mod     *)
(* the version of module-level state (registry, parser tables).  A library operation op(o)       *)
(* returns Res(op, ver[o]) -- a function of the *value* only -- and leaves ver and mod unchanged.*)
(* hist is a history variable hidden by the VIEW.  Behaviours of this module are the call        *)
(* sequences replayed into the real package; after every call the harness compares deep          *)
(* fingerprints of every pool object and of the module tables with UNCHANGED <<ver, mod>>, and    *)
(* the projected result with the result of the same call at the same version.                    *)
EXTENDS Integers, Sequences, FiniteSets, TLC
CONSTANTS Objs,       \* pool object names
          OpNames,    \* library operations
          MaxLen

VARIABLES ver, mod, last, hist
vars == <<ver, mod, last, hist>>
View == <<ver, mod, last>>

Res(op, o, v) == <<op, o, v>>                 \* abstract result: depends on the operation and the value only
Init == ver = [o \in Objs |-> 0] /\ mod = 0 /\ last = <<"init">> /\ hist = <<>>

LibraryOp(op, o) == /\ last' = Res(op, o, ver[o]) /\ hist' = Append(hist, <<op, o>>)
                    /\ UNCHANGED <<ver, mod>>
(* the user changes an object between calls (meta entry, parameter): later results may differ *)
UserMutate(o) == /\ ver[o] < 1 /\ ver' = [ver EXCEPT ![o] = @ + 1] /\ last' = <<"mutate", o>>
                 /\ hist' = Append(hist, <<"mutate", o>>) /\ UNCHANGED mod
Next == Len(hist) < MaxLen /\ (\/ \E op \in OpNames, o \in Objs : LibraryOp(op, o)
                               \/ \E o \in Objs : UserMutate(o))
Spec == Init /\ [][Next]_vars

(* properties *)
LibraryNeverMutates == [][(\E op \in OpNames, o \in Objs : LibraryOp(op, o)) => UNCHANGED <<ver, mod>>]_vars
ModuleStateConstant == mod = 0
(* the result is a function of the argument value: it does not mention hist *)
ResultIsFunctionOfValue == last[1] \in OpNames => last = Res(last[1], last[2], ver[last[2]])
=============================================================================
