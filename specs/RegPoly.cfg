SPECIFICATION Spec
CONSTANTS Ns = {3, 4, 5, 6, 7, 8, 9, 10, 11, 12, 13, 14, 16, 17, 25, 49, 97}
 Angles = {0, 20, 45, 90, 180, 200, 367, 720}
INVARIANT FirstVertex
INVARIANT EqualSteps
INVARIANT Distinct
INVARIANT Symmetric
INVARIANT AnglesAddUp
CHECK_DEADLOCK FALSE
