------------------------------- MODULE Artist -------------------------------
(* C18: keyword arguments of the matplotlib artist of a region (core/metadata.py               *)
(* define_mpl_kwargs, shapes/*.as_artist):                                                      *)
(*     kwargs = Defaults(style, artist)  (+)  Translate(visual, artist)  (+)  caller kwargs      *)
(* with the right-most winning.  Values are tokens; keys are matplotlib property names after     *)
(* translation.  (The outline geometry of the patch is decided against Geometry!Member by the    *)
(* replay: a position is inside the patch path, shifted by the plot origin, iff it is a member.)  *)
EXTENDS Integers, Sequences, FiniteSets, TLC
CONSTANTS Artists, Styles

Override(f, g) == [k \in DOMAIN f \cup DOMAIN g |-> IF k \in DOMAIN g THEN g[k] ELSE f[k]]
(* every keyword dictionary carries the inert key "zz" so that no function is the empty tuple (TLC compares its domain as integers) *)
Empty == [zz |-> "zz"]
Defaults(style, artist) ==
  IF style \in {"none", "mpl"}
    THEN CASE artist = "Patch" -> [fill |-> "False", zz |-> "zz"]
           [] artist = "Line2D" -> [fillstyle |-> "none", marker |-> "o", zz |-> "zz"]
           [] artist = "Text" -> Empty
  ELSE CASE artist = "Patch" -> [edgecolor |-> "ds9green", fill |-> "False", zz |-> "zz"]
         [] artist = "Line2D" -> [marker |-> "boxcircle", markersize |-> "11", markeredgecolor |-> "ds9green", fillstyle |-> "none", zz |-> "zz"]
         [] artist = "Text" -> [color |-> "ds9green", ha |-> "center", va |-> "center", zz |-> "zz"]
KeyMap(artist, k) ==
  CASE artist = "Text" -> (CASE k = "fontsize" -> "size" [] k = "textangle" -> "rotation" [] k = "font" -> "family" [] OTHER -> k)
    [] artist = "Line2D" -> (CASE k = "symsize" -> "markersize" [] k = "color" -> "markeredgecolor" [] k = "linewidth" -> "markeredgewidth" [] OTHER -> k)
    [] artist = "Patch" -> (CASE k = "color" -> "edgecolor" [] OTHER -> k)
Removed(artist) == IF artist = "Text" THEN {"linewidth"} ELSE {"fontname", "fontsize", "fontweight", "fontstyle"}
VisualKeys(artist) == CASE artist = "Patch" -> {"color", "linewidth"} [] artist = "Line2D" -> {"color", "symsize"} [] artist = "Text" -> {"color", "fontsize", "textangle"}
CallerKeys(artist) == CASE artist = "Patch" -> {"edgecolor", "linewidth"} [] artist = "Line2D" -> {"markeredgecolor", "markersize", "color"} [] artist = "Text" -> {"color", "size", "rotation", "fontsize"}
Translate(vis, artist) ==
  LET ks == {k \in DOMAIN vis : KeyMap(artist, k) \notin Removed(artist) /\ k \notin Removed(artist)}
  IN [m \in {KeyMap(artist, k) : k \in ks} |-> vis[CHOOSE k \in ks : KeyMap(artist, k) = m]]
(* a point is drawn as a marker; its stored colour becomes the marker edge colour.  A colour given by the caller is the colour of the marker *)
(* as well, unless the caller names the marker edge colour itself: the stored (or default) marker edge colour gives way to it               *)
(* the caller may write a keyword by any name matplotlib accepts for it (fontsize for size): it is the same keyword *)
CanonKey(artist, k) == IF artist = "Text" /\ k = "fontsize" THEN "size" ELSE k
CanonCaller(artist, caller) == [m \in {CanonKey(artist, k) : k \in DOMAIN caller} |-> caller[CHOOSE k \in DOMAIN caller : CanonKey(artist, k) = m]]
Merge(style, artist, vis, caller0) ==
  LET caller == CanonCaller(artist, caller0)
      base == Override(Defaults(style, artist), Translate(vis, artist))
      base2 == IF artist = "Line2D" /\ "color" \in DOMAIN caller /\ "markeredgecolor" \notin DOMAIN caller
               THEN [k \in DOMAIN base \ {"markeredgecolor"} |-> base[k]] ELSE base
  IN Override(base2, caller)
MarkerColour(r) == IF "markeredgecolor" \in DOMAIN r THEN r["markeredgecolor"] ELSE IF "color" \in DOMAIN r THEN r["color"] ELSE "auto"

VARIABLES artist, style, vis, caller, res, pc
vars == <<artist, style, vis, caller, res, pc>>
Subfuncs(keys, tag) == UNION {[S \cup {"zz"} -> {tag}] : S \in SUBSET keys}
Init == /\ artist \in Artists /\ style \in Styles /\ res = Empty /\ pc = "call"
        /\ vis \in Subfuncs(VisualKeys(artist), "V") /\ caller \in Subfuncs(CallerKeys(artist), "C")
        /\ ~({"size", "fontsize"} \subseteq DOMAIN caller)          \* (both names at once is the caller's own error)
Make == pc = "call" /\ pc' = "ret" /\ res' = Merge(style, artist, vis, caller) /\ UNCHANGED <<artist, style, vis, caller>>
Next == Make
Spec == Init /\ [][Next]_vars
Done == pc = "ret"
(* caller kwargs override every stored visual attribute and every default *)
CallerWins == Done => \A k \in DOMAIN caller : res[CanonKey(artist, k)] = "C"
CallerColourShows == Done /\ artist = "Line2D" /\ "color" \in DOMAIN caller /\ "markeredgecolor" \notin DOMAIN caller => MarkerColour(res) = "C"
(* stored visual attributes override the style defaults *)
VisualBeatsDefault == Done => \A k \in DOMAIN vis : LET m == KeyMap(artist, k) IN
                          (m \in DOMAIN res /\ m \notin DOMAIN CanonCaller(artist, caller)) => res[m] = "V"
DefaultsRemain == Done => \A k \in DOMAIN Defaults(style, artist) :
                      k \in DOMAIN res \/ (k = "markeredgecolor" /\ artist = "Line2D" /\ "color" \in DOMAIN caller)
=============================================================================
