-------------------------------- MODULE Lists --------------------------------
(* Regions (regions/core/regions.py): a list of region objects.  Items are tokens: "r1".."r3" *)
(* are regions, the others are not.  src is the list under test, der a list derived from it   *)
(* by slicing or copy(); edits of der must never show in src (C16) and no operation may leave *)
(* a non-region in a list (C17).  Each state records (pre, act, out) so that it is one        *)
(* implementation test.                                                                        *)
EXTENDS Integers, Sequences, FiniteSets, TLC
CONSTANTS MaxLen, MaxDepth, Deviations

Good == {"r1", "r2", "r3"}
Bad == {"str", "none", "int"}
Items == Good \cup Bad
NoList == <<"-">>
Seqs(S, n) == UNION {[1..k -> S] : k \in 0..n}

VARIABLES src, der, pre, act, out, depth
vars == <<src, der, pre, act, out, depth>>
Init == src = <<>> /\ der = NoList /\ pre = <<>> /\ act = [a |-> "init"] /\ out = "ok" /\ depth = 0

Step(a, o, s, d) == /\ pre' = [src |-> src, der |-> der] /\ act' = a /\ out' = o /\ src' = s /\ der' = d /\ depth' = depth + 1
Reject(a, o) == Step(a, o, src, der)
AllGood(xs) == \A i \in 1..Len(xs) : xs[i] \in Good
InsertAt(s, i, x) == SubSeq(s, 1, i) \o <<x>> \o SubSeq(s, i + 1, Len(s))      \* python list.insert(i, x), 0 <= i <= len
RemoveAt(s, i) == SubSeq(s, 1, i - 1) \o SubSeq(s, i + 1, Len(s))
Rev(s) == [i \in 1..Len(s) |-> s[Len(s) + 1 - i]]

(* Regions(<sequence>): a list (the documented form) or a tuple - members are checked whatever the form *)
New(xs, form) == LET a == [a |-> "new", items |-> xs, form |-> form] IN IF AllGood(xs) THEN Step(a, "ok", xs, NoList) ELSE Reject(a, "TypeError")
AppendOp(x) == LET a == [a |-> "append", item |-> x] IN
               IF Len(src) < MaxLen /\ x \in Good THEN Step(a, "ok", Append(src, x), der)
               ELSE IF x \in Bad THEN Reject(a, "TypeError") ELSE FALSE
ExtendOp(xs, how) == LET a == [a |-> "extend", items |-> xs, how |-> how] IN
               IF ~AllGood(xs) THEN (IF how = "list" THEN Reject(a, "TypeError") ELSE FALSE)
               ELSE IF Len(src) + Len(xs) <= MaxLen THEN Step(a, "ok", src \o xs, der) ELSE FALSE
InsertOp(i, x) == LET a == [a |-> "insert", index |-> i, item |-> x] IN
               IF x \in Good THEN (IF Len(src) < MaxLen THEN Step(a, "ok", InsertAt(src, i, x), der) ELSE FALSE)
               ELSE IF "InsertUnchecked" \in Deviations THEN Step(a, "ok", InsertAt(src, i, x), der)
               ELSE Reject(a, "TypeError")
PopOp(i) == LET a == [a |-> "pop", index |-> i] IN
               IF i \in 1..Len(src) THEN Step(a, "ok", RemoveAt(src, i), der) ELSE Reject(a, "IndexError")
ReverseOp == Step([a |-> "reverse"], "ok", Rev(src), der)
SliceOp(lo, hi) == Step([a |-> "slice", lo |-> lo, hi |-> hi], "ok", src, SubSeq(src, lo + 1, hi))   \* python [lo:hi]
CopyOp == Step([a |-> "copy"], "ok", src, src)
DerAppend(x) == der # NoList /\ x \in Good /\ Len(der) < MaxLen /\ Step([a |-> "der_append", item |-> x], "ok", src, Append(der, x))
DerPop == der # NoList /\ Len(der) > 0 /\ Step([a |-> "der_pop"], "ok", src, RemoveAt(der, Len(der)))
DerReverse == der # NoList /\ Step([a |-> "der_reverse"], "ok", src, Rev(der))
SrcAfterDer(x) == der # NoList /\ x \in Good /\ Len(src) < MaxLen /\ Step([a |-> "append", item |-> x], "ok", Append(src, x), der)

Next == /\ depth < MaxDepth
        /\ \/ \E xs \in Seqs(Items, 2), form \in {"list", "tuple"} : New(xs, form)
           \/ \E x \in Items : AppendOp(x)
           \/ \E xs \in Seqs(Items, 2), how \in {"list", "regions"} : ExtendOp(xs, how)
           \/ \E i \in 0..Len(src), x \in Items : InsertOp(i, x)
           \/ \E i \in 0..(Len(src) + 1) : PopOp(i)
           \/ ReverseOp
           \/ \E lo \in 0..Len(src), hi \in 0..Len(src) : lo <= hi /\ SliceOp(lo, hi)
           \/ CopyOp
           \/ \E x \in Good : DerAppend(x)
           \/ DerPop \/ DerReverse
Spec == Init /\ [][Next]_vars

AllRegions == AllGood(src) /\ (der # NoList => AllGood(der))
RejectIsStutter == out # "ok" /\ depth > 0 => src = pre.src /\ der = pre.der
SourceUnchanged == depth > 0 /\ act.a \in {"der_append", "der_pop", "der_reverse"} => src = pre.src
DerivedUnchanged == depth > 0 /\ act.a \in {"append", "insert", "pop", "reverse", "extend"} => der = pre.der
=============================================================================
