------------------------------- MODULE MC_Crtf -------------------------------
EXTENDS Crtf
CONSTANTS Mode, MaxLen

T(n, v) == [n |-> n, v |-> v]
P(kv) == Override(NoProps, kv)
(* ---------- reader configs ---------- *)
Global(kv) == [k |-> "global", props |-> P(kv)]
Line(sign, ann, kind, toks, kv) == [k |-> "region", sign |-> sign, ann |-> ann, kind |-> kind, toks |-> toks, props |-> P(kv)]
LonNots == {"deg", "rad", "hms", "colon", "plain"}
LatNots == {"deg", "rad", "dots", "plain"}
LenNots == {"deg", "arcmin", "arcsec", "rad"}
LenNots1 == LenNots \cup {"asecq", "aminq"}          \* the quote forms only as a single length
Lon(n) == CASE n \in {"deg", "plain"} -> 150250 [] n = "rad" -> 2622357 [] n \in {"hms", "colon"} -> 36060000        \* 150.25 deg = 10h01m00s
Lat(n) == CASE n \in {"deg", "plain"} -> -20500 [] n = "rad" -> -357792 [] n = "dots" -> -73800000                  \* -20.30.00.000
Lon2(n) == CASE n \in {"deg", "plain"} -> 150000 [] n = "rad" -> 2617994 [] n \in {"hms", "colon"} -> 36000000                  \* 150 deg = 10h00m00s
Lat2(n) == CASE n \in {"deg", "plain"} -> -19500 [] n = "rad" -> -340339 [] n = "dots" -> -70200000                            \* -19.30.00.000
Ln(n, j) == CASE n = "deg" -> 15 * j [] n = "rad" -> 262 * j [] n \in {"arcmin", "aminq"} -> 900 * j [] n \in {"arcsec", "asecq"} -> 54000 * j
Frames == {"J2000", "B1950", "ICRS", "GALACTIC", "SUPERGAL", "ECLIPTIC"}
LexLines ==
  UNION {
    {Line(sg, an, "circle", <<T(a, Lon(a)), T(b, Lat(b)), T(z, Ln(z, 1))>>, [coord |-> f]) : a \in LonNots, b \in LatNots, z \in LenNots1, sg \in {"", "-"}, an \in {FALSE}, f \in {"J2000", "GALACTIC"}},
    {Line(sg, an, "circle", <<T("deg", 150250), T("deg", -20500), T("arcsec", 54000)>>, [coord |-> f, label |-> "my label"]) : sg \in {"", "+", "-"}, an \in BOOLEAN, f \in Frames},
    {Line("", FALSE, "ellipse", <<T("deg", 150250), T("deg", -20500), T(z, Ln(z, 3)), T(z, Ln(z, 1)), T("deg", 30000)>>, [coord |-> "ICRS"]) : z \in LenNots},
    {Line("", FALSE, "rotbox", <<T("deg", 150250), T("deg", -20500), T(z, Ln(z, 2)), T(z, Ln(z, 1)), T("deg", 45000)>>, [coord |-> "J2000"]) : z \in LenNots},
    {Line("", FALSE, "centerbox", <<T("deg", 150250), T("deg", -20500), T(z, Ln(z, 2)), T(z, Ln(z, 1))>>, [coord |-> "B1950"]) : z \in LenNots},
    {Line("", FALSE, "box", <<T("deg", 150250), T("deg", -20500), T("deg", 150750), T("deg", -20000)>>, [coord |-> "J2000"])},
    (* the two corners in any order *)
    {Line("", FALSE, "box", <<T("deg", 150750), T("deg", -20000), T("deg", 150250), T("deg", -20500)>>, [coord |-> "J2000"]),
     Line("", FALSE, "box", <<T("deg", 150250), T("deg", -20000), T("deg", 150750), T("deg", -20500)>>, [coord |-> "GALACTIC"]),
     Line("", FALSE, "box", <<T("deg", 150750), T("deg", -20500), T("deg", 150250), T("deg", -20000)>>, [coord |-> "ICRS"]),
     Line("-", FALSE, "box", <<T("pix", 20000), T("pix", 9500), T("pix", 12500), T("pix", 3000)>>, NoProps)},
    {Line("-", FALSE, "annulus", <<T("deg", 150250), T("deg", -20500), T(z, Ln(z, 1)), T(z, Ln(z, 2))>>, [coord |-> "GALACTIC"]) : z \in LenNots},
    {Line("", TRUE, "poly", <<T("deg", 150250), T("deg", -20500), T("deg", 151000), T("deg", -20000), T("deg", 150000), T("deg", -19500)>>, [coord |-> "J2000", color |-> "blue"])},
    {Line("", FALSE, "line", <<T("deg", 150250), T("deg", -20500), T("deg", 151000), T("deg", -20000)>>, [coord |-> "ICRS"])},
    {Line("", FALSE, "symbol", <<T("deg", 150250), T("deg", -20500)>>, [coord |-> "J2000", symsize |-> "2"])},
    {Line("", TRUE, "text", <<T("deg", 150250), T("deg", -20500)>>, [coord |-> "J2000"])},
    (* an explicit label on a text region is kept: it is not replaced by the text *)
    {Line("", FALSE, "text", <<T("deg", 150250), T("deg", -20500)>>, [coord |-> "J2000", text |-> "NGC 1234", label |-> "source A"])},
    (* every vertex carries its own notation *)
    {Line("", FALSE, "poly", <<T(a, Lon(a)), T(b, Lat(b)), T("deg", 151000), T("deg", -20000), T(c, Lon2(c)), T(d, Lat2(d))>>, [coord |-> "J2000"]) :
        a \in LonNots, c \in LonNots, b \in LatNots, d \in LatNots},
    {Line("", FALSE, "line", <<T(a, Lon(a)), T(b, Lat(b)), T(c, Lon2(c)), T(d, Lat2(d))>>, [coord |-> "GALACTIC"]) : a \in LonNots, c \in LonNots, b \in LatNots, d \in LatNots},
    {Line(sg, FALSE, "poly", <<T("pix", 12500), T("pix", 3000), T("pix", 20000), T("pix", 3500), T("pix", 14250), T("pix", 9000)>>, NoProps) : sg \in {"", "-"}},
    {Line("", FALSE, "line", <<T("pix", 12500), T("pix", 3000), T("pix", 20000), T("pix", 9500)>>, NoProps)},
    {Line(sg, FALSE, "circle", <<T("pix", 12500), T("pix", 3000), T("pix", 4250)>>, NoProps) : sg \in {"", "-"}},
    {Line("", FALSE, "rotbox", <<T("pix", 12500), T("pix", 3000), T("pix", 6000), T("pix", 2000), T("deg", 30000)>>, NoProps)},
    (* a rotation angle is a signed number in any angular unit (the same helper parses lengths, which are not signed) *)
    {Line("", FALSE, k, <<T("deg", 150250), T("deg", -20500), T("arcsec", Ln("arcsec", 3)), T("arcsec", Ln("arcsec", 1)), a>>, [coord |-> "J2000"]) :
        k \in {"ellipse", "rotbox"}, a \in {T("deg", -30000), T("deg", 330000), T("deg", 0), T("rad", -500000), T("arcmin", -90000)}},
    {Line("", FALSE, "rotbox", <<T("pix", 12500), T("pix", 3000), T("pix", 6000), T("pix", 2000), T("deg", -30000)>>, NoProps)},
    (* a '#' inside a value is part of the value (only a line that starts with '#' is a comment); a value may be 0 *)
    {Line("", FALSE, "circle", <<T("deg", 150250), T("deg", -20500), T("arcsec", 54000)>>, [coord |-> "J2000", label |-> "source #3", color |-> "#ff0000", linewidth |-> "0"]),
     Line("", FALSE, "text", <<T("deg", 150250), T("deg", -20500)>>, [coord |-> "J2000", text |-> "No. #1"]),
     Line("-", TRUE, "symbol", <<T("deg", 150250), T("deg", -20500)>>, [coord |-> "ICRS", color |-> "#00ff00", symsize |-> "0"])} }
StateLines == { Global([coord |-> "J2000"]), Global([coord |-> "GALACTIC", color |-> "green"]), Global([color |-> "red", linewidth |-> "2"]),
                [k |-> "comment"],
                Line("", FALSE, "circle", <<T("deg", 150250), T("deg", -20500), T("arcsec", 54000)>>, NoProps),
                Line("-", TRUE, "circle", <<T("deg", 150250), T("deg", -20500), T("arcsec", 54000)>>, [color |-> "blue"]),
                Line("", FALSE, "circle", <<T("deg", 150250), T("deg", -20500), T("arcsec", 54000)>>, [coord |-> "ICRS", label |-> "x"]),
                Line("", FALSE, "circle", <<T("deg", 150250), T("deg", -20500), T("arcsec", 54000)>>, [coord |-> "J2000", label |-> "global fit"]),      \* "global" is a word like any other inside a value
                Line("", FALSE, "symbol", <<T("deg", 150250), T("deg", -20500)>>, NoProps) }
Seqs(S, n) == UNION {[1..m -> S] : m \in 1..n}
ReaderFiles == {<<l>> : l \in LexLines} \cup Seqs(StateLines, MaxLen)

(* ---------- writer configs ---------- *)
V(u, v) == Val(u, v)
Sky == <<V("mas", 540900000), V("mas", -73800000)>>
Pix == <<V("mpix", 12500), V("mpix", 3000)>>
U(cls, frame, pos, sizes, ang, inc, typ, kv) == Reg(cls, frame, pos, sizes, ang, inc, typ, P(kv))
Pool == {
  U("circle", "fk5", Sky, <<V("mas", 3600000)>>, NoAng, TRUE, "reg", NoProps),
  U("circle", "galactic", Sky, <<V("mas", 7200000)>>, NoAng, FALSE, "reg", [label |-> "my label", color |-> "red"]),
  U("ellipse", "icrs", Sky, <<V("mas", 14400000), V("mas", 7200000)>>, V("mas", 108000000), TRUE, "ann", NoProps),
  U("rectangle", "fk4", Sky, <<V("mas", 14400000), V("mas", 7200000)>>, V("mas", 36000000), FALSE, "reg", [linewidth |-> "2"]),
  U("cannulus", "geocentrictrueecliptic", Sky, <<V("mas", 3600000), V("mas", 7200000)>>, NoAng, TRUE, "reg", NoProps),
  U("polygon", "supergalactic", Sky \o <<V("mas", 541800000), V("mas", -72000000), V("mas", 540000000), V("mas", -70200000)>>, <<>>, NoAng, TRUE, "reg", [color |-> "blue"]),
  U("line", "fk5", Sky \o <<V("mas", 541800000), V("mas", -72000000)>>, <<>>, NoAng, TRUE, "reg", NoProps),
  U("point", "fk5", Sky, <<>>, NoAng, FALSE, "reg", [symbol |-> "*"]),
  U("text", "icrs", Sky, <<>>, NoAng, TRUE, "ann", [text |-> "Hello there"]),
  U("text", "fk5", Sky, <<>>, NoAng, TRUE, "reg", [text |-> "NGC 1234", label |-> "source A"]),
  U("circle", "image", Pix, <<V("mpix", 4250)>>, NoAng, FALSE, "reg", [label |-> "p"]),
  U("circle", "icrs", Sky, <<V("mas", 1800000)>>, NoAng, FALSE, "reg", [label |-> "sets global color=red"]),
  U("rectangle", "image", Pix, <<V("mpix", 6000), V("mpix", 2000)>>, V("mas", 108000000), TRUE, "reg", NoProps),
  U("ellipse", "image", Pix, <<V("mpix", 6000), V("mpix", 2000)>>, V("mas", 162000000), FALSE, "ann", NoProps),
  U("cannulus", "image", Pix, <<V("mpix", 2250), V("mpix", 5000)>>, NoAng, TRUE, "reg", NoProps),
  U("polygon", "image", Pix \o <<V("mpix", 20000), V("mpix", 3500), V("mpix", 14250), V("mpix", 9000)>>, <<>>, NoAng, FALSE, "reg", [color |-> "green"]),
  U("line", "image", Pix \o <<V("mpix", 20000), V("mpix", 9500)>>, <<>>, NoAng, TRUE, "reg", NoProps),
  U("point", "image", Pix, <<>>, NoAng, TRUE, "reg", NoProps),
  U("text", "image", Pix, <<>>, NoAng, FALSE, "reg", [text |-> "pixel text"]),
  U("circle", "fk5", Sky, <<V("mas", 3600000)>>, NoAng, FALSE, "ann", [label |-> "excluded annotation"]),
  (* negative angles; values that are 0 / False (given as numbers and booleans, not text); '#' inside values *)
  U("rectangle", "fk5", Sky, <<V("mas", 14400000), V("mas", 7200000)>>, V("mas", -108000000), TRUE, "reg", [label |-> "src #3"]),
  U("ellipse", "image", Pix, <<V("mpix", 6000), V("mpix", 2000)>>, V("mas", -36000000), TRUE, "reg", [linewidth |-> "0", color |-> "#ff0000"]),
  U("circle", "icrs", Sky, <<V("mas", 3600000)>>, NoAng, TRUE, "reg", [usetex |-> "False", symthick |-> "0"]),
  U("text", "fk5", Sky, <<>>, NoAng, TRUE, "reg", [text |-> "No. #1", linewidth |-> "0"]) }
RadUnits(frame) == IF frame = "image" THEN {"pix", "deg"} ELSE {"deg", "arcmin", "arcsec"}

VARIABLES file, lst, opts, out, pc
vars == <<file, lst, opts, out, pc>>
Init ==
  IF Mode = "reader"
    THEN file \in ReaderFiles /\ lst = <<>> /\ opts = <<>> /\ out = <<>> /\ pc = "read"
    ELSE /\ lst \in UNION {[1..n -> Pool] : n \in 1..MaxLen} /\ \A i \in 1..Len(lst) : lst[i].frame = lst[1].frame
         /\ opts \in [coordsys : {lst[1].frame}, radunit : RadUnits(lst[1].frame)]
         /\ file = <<>> /\ out = <<>> /\ pc = "write"
DoWrite == pc = "write" /\ file' = Write(lst, opts) /\ pc' = "read" /\ UNCHANGED <<lst, opts, out>>
DoRead == pc = "read" /\ out' = ReadAll(file) /\ pc' = "done" /\ UNCHANGED <<file, lst, opts>>
Next == DoWrite \/ DoRead
Spec == Init /\ [][Next]_vars
Done == pc = "done"

(* inline keys override the global defaults; coord= selects the frame; the sign and "ann" are per line *)
ReaderRules == Done /\ Mode = "reader" =>
   LET regs == SelectSeq(file, LAMBDA l : l.k = "region") IN
   /\ Len(out) = Len(regs)
   /\ \A i \in 1..Len(regs) : /\ out[i].inc = (regs[i].sign # "-") /\ out[i].typ = (IF regs[i].ann THEN "ann" ELSE "reg")
                              /\ \A k \in DOMAIN regs[i].props \ {"coord"} : out[i].props[k] = regs[i].props[k]
                              /\ ("coord" \in DOMAIN regs[i].props => out[i].frame = FrameOf(regs[i].props.coord))
(* serialise -> parse returns every region with the same class, frame, geometry, include sense, annotation type, label/text and meta *)
RoundTrip == Done /\ Mode = "writer" => out = [i \in 1..Len(lst) |-> lst[i]]
(* parse -> serialise -> parse is a fixed point *)
FixedPoint == Done /\ Mode = "writer" => ReadAll(Write(out, opts)) = out
=============================================================================
