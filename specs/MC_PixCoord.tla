---------------------------- MODULE MC_PixCoord ----------------------------
(* Bounded instances of PixCoord.tla: one call and its return per state; every returning state *)
(* is a test case for the real class.                                                           *)
EXTENDS PixCoord
CONSTANTS Ops

Shapes == {<<>>, <<0>>, <<1>>, <<3>>, <<2, 3>>, <<1, 3>>, <<2, 1>>, <<2, 2, 3>>, <<3, 2>>, <<6>>}     \* <<3, 2>>, <<6>>: same number of elements as <<2, 3>> without broadcasting against it
SmallShapes == {<<>>, <<1>>, <<3>>, <<2, 3>>, <<1, 3>>, <<2, 1>>}
X(s) == MkArr(s, 3, 1)
Y(s) == MkArr(s, -2, 7)
P(s) == <<X(s), Y(s)>>
Q(s) == <<MkArr(s, 1, -4), MkArr(s, 5, 0)>>
Dirs == {<<3, 4, 5>>, <<-12, 5, 13>>, <<0, 1, 1>>, <<1, 0, 1>>, <<4, -3, 5>>, <<-1, 0, 1>>, <<0, -1, 1>>}

IntExprs == {[k |-> "int", i |-> i] : i \in {0, 1, -1, 2, 5, -4}}
SliceExprs == {[k |-> "slice", start |-> t[1], stop |-> t[2], step |-> t[3]] :
                 t \in {<<None, None, 1>>, <<1, None, 1>>, <<None, 2, 1>>, <<None, None, 2>>, <<None, None, -1>>,
                        <<-2, None, 1>>, <<1, 5, 1>>, <<2, 0, -1>>, <<0, 0, 1>>, <<None, None, -2>>, <<-1, -5, -1>>}}
IntsExprs == {[k |-> "ints", is |-> v] : v \in {<<0>>, <<1, 0, 1>>, <<-1, 0>>, <<5>>, <<>>}}
PairExprs == {[k |-> "pair", i |-> t[1], j |-> t[2]] : t \in {<<0, 1>>, <<-1, -1>>, <<1, 3>>, <<2, 0>>, <<0, 0>>}}
MaskExprs(s) == IF s = <<>> THEN {[k |-> "mask", m |-> <<TRUE>>]}
                ELSE {[k |-> "mask", m |-> [i \in 1..s[1] |-> i % 2 = 1]], [k |-> "mask", m |-> [i \in 1..s[1] |-> FALSE]],
                      [k |-> "mask", m |-> [i \in 1..(s[1] + 1) |-> TRUE]]}
Exprs(s) == IntExprs \cup SliceExprs \cup IntsExprs \cup PairExprs \cup MaskExprs(s)

VARIABLES op, s1, s2, arg, res, pc
vars == <<op, s1, s2, arg, res, pc>>
Init == /\ op \in Ops /\ pc = "call" /\ res = <<>>
        /\ s1 \in Shapes
        /\ s2 \in IF op \in {"construct", "addsub", "sep"} THEN Shapes ELSE {<<>>}
        /\ arg \in CASE op = "index" -> Exprs(s1)
                     [] op = "rotate" -> {<<c, d, e>> : c \in {<<0, 0>>, <<2, -1>>}, d \in Dirs, e \in {<<3, 4, 5>>, <<0, 1, 1>>, <<-1, 0, 1>>, <<0, -1, 1>>}}           \* incl. half and three-quarter turns
                     [] OTHER -> {0}
Apply ==
  CASE op = "construct" -> Construct(X(s1), Y(s2))
    [] op = "index" -> <<IndexArr(X(s1), arg), IndexArr(Y(s1), arg)>>
    [] op = "len_iter" -> [len |-> LenOf(X(s1)), itx |-> IterOf(X(s1)), ity |-> IterOf(Y(s1))]
    [] op = "addsub" -> [add |-> Add(P(s1), Q(s2)), sub |-> Sub(P(s1), Q(s2))]
    [] op = "sep" -> Sep2(P(s1), Q(s2))
    [] op = "rotate" -> Rotate(P(s1), arg[1][1], arg[1][2], arg[2])
Return == pc = "call" /\ pc' = "ret" /\ res' = Apply /\ UNCHANGED <<op, s1, s2, arg>>
Next == Return
Spec == Init /\ [][Next]_vars
Done == pc = "ret"

(* a pair built from broadcastable x and y holds equal-shaped components; a scalar pair stays scalar *)
InvConstruct == Done /\ op = "construct" =>
    /\ res[1].shape = res[2].shape
    /\ (res[1] # Err <=> BShape(s1, s2) # <<-1>>)
    /\ (s1 = <<>> /\ s2 = <<>> => res[1].shape = <<>>)
(* indexing acts identically on both components *)
InvIndex == Done /\ op = "index" => res[1].shape = res[2].shape
(* (a + b) - b = a, on the broadcast shape *)
InvAddSub == Done /\ op = "addsub" /\ res.add[1] # Err =>
    LET s == res.add[1].shape  back == Sub(res.add, Q(s2)) IN
    back = <<BroadcastTo(X(s1), s), BroadcastTo(Y(s1), s)>>
(* separation is symmetric and zero exactly for coincident points *)
InvSep == Done /\ op = "sep" /\ res # Err =>
    /\ res = Sep2(Q(s2), P(s1))
    /\ \A idx \in Indices(res.shape) : res.f[idx] >= 0
    /\ Sep2(P(s1), P(s1)) = [shape |-> s1, f |-> [idx \in Indices(s1) |-> 0]]
(* rotation: isometry (for every operand shape), fixes the centre, composes by multiplying directions *)
InvRotate == Done /\ op = "rotate" =>
    LET c == arg[1]  d == arg[2]  e == arg[3]  h == d[3]
        cpt == <<[shape |-> <<>>, f |-> (<<>> :> c[1])], [shape |-> <<>>, f |-> (<<>> :> c[2])]>>
    IN /\ res[1].shape = s1 /\ res[2].shape = s1
       /\ Sep2(res, <<Scaled(cpt[1], h), Scaled(cpt[2], h)>>) = Scaled(Sep2(P(s1), cpt), h * h)       \* distance to the centre kept
       /\ Rotate(cpt, c[1], c[2], d) = <<Scaled(cpt[1], h), Scaled(cpt[2], h)>>                       \* the centre is fixed
       /\ Rotate(res, c[1] * h, c[2] * h, e) = Rotate(P(s1), c[1], c[2], DirMul(d, e))                \* angles add
=============================================================================
