------------------------------- MODULE Overlap -------------------------------
(* C03: exact-mode masks (circle, ellipse) give the pixel-region overlap area.                  *)
(* The true area of disk-pixel intersection is transcendental; what the specification decides      *)
(* exactly is a set of consequences of "the value is the area of shape /\ cell" (measure axioms):  *)
(*  (i)   0 <= val <= 1, finite;                                                                   *)
(*  (ii)  a sound rational bracket: each pixel is cut into m x m sub-cells (lattice unit 1/(4m)    *)
(*        pixel); a sub-cell whose four corners are members is inside (convex shape); a sub-cell   *)
(*        whose centre lies outside the shape inflated by delta = 1/m pixel (>= the half diagonal;   *)
(*        the Minkowski sum of an ellipse and a disk lies in the ellipse with both semi-axes         *)
(*        increased by delta) is outside.  Lower/m^2 <= val <= Upper/m^2, and a pixel with no mixed  *)
(*        sub-cell must be exactly 1 or 0;                                                           *)
(*  (iii) additivity under refinement, (iv) symmetry, (v) total = analytic area: compared as        *)
(*        integers by Trace_Overlap.                                                                 *)
(* Degenerate(s, pixel): a pixel vertex exactly on the outline or a pixel edge line tangent to it.   *)
EXTENDS Geometry

Inflate(s, d) == CASE s.k = "circle" -> [s EXCEPT !.r = s.r + d]
                   [] s.k = "ellipse" -> [s EXCEPT !.w = s.w + 2 * d, !.h = s.h + 2 * d]
(* pixel (ix, iy) spans [ix*U - U/2, ix*U + U/2]; U = 4m; sub-cell (a, b) in 0..m-1 has corners at x0 + 4a, x0 + 4a + 4 *)
SubInside(s, ix, iy, U, m) ==
  LET x0 == ix * U - (U \div 2)  y0 == iy * U - (U \div 2) IN
  Cardinality({<<a, b>> \in (0..(m - 1)) \X (0..(m - 1)) :
                 \A cx \in {x0 + 4 * a, x0 + 4 * a + 4}, cy \in {y0 + 4 * b, y0 + 4 * b + 4} : Member(s, <<cx, cy>>) = "IN"})
SubOutside(s, ix, iy, U, m) ==
  LET x0 == ix * U - (U \div 2)  y0 == iy * U - (U \div 2)  big == Inflate(s, 4) IN
  Cardinality({<<a, b>> \in (0..(m - 1)) \X (0..(m - 1)) : Member(big, <<x0 + 4 * a + 2, y0 + 4 * b + 2>>) = "OUT"})
Lower(s, ix, iy, U, m) == SubInside(s, ix, iy, U, m)                 \* in units of 1/m^2 pixel
Upper(s, ix, iy, U, m) == m * m - SubOutside(s, ix, iy, U, m)

(* degenerate alignment of the outline with the pixel grid at this pixel *)
TangentX(s, g) ==      \* the vertical line x = g touches the outline
  CASE s.k = "circle" -> Abs(g - s.cx) = s.r
    [] s.k = "ellipse" -> EqSqrt(Sq(s.w * s.d[1]) + Sq(s.h * s.d[2]), 2 * s.d[3], Abs(g - s.cx))
TangentY(s, g) ==
  CASE s.k = "circle" -> Abs(g - s.cy) = s.r
    [] s.k = "ellipse" -> EqSqrt(Sq(s.w * s.d[2]) + Sq(s.h * s.d[1]), 2 * s.d[3], Abs(g - s.cy))
Degenerate(s, ix, iy, U) ==
  LET x0 == ix * U - (U \div 2)  x1 == x0 + U  y0 == iy * U - (U \div 2)  y1 == y0 + U IN
  \/ \E p \in {<<x0, y0>>, <<x0, y1>>, <<x1, y0>>, <<x1, y1>>} : Member(s, p) = "EDGE"
  \/ TangentX(s, x0) \/ TangentX(s, x1) \/ TangentY(s, y0) \/ TangentY(s, y1)
=============================================================================
