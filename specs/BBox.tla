------------------------------- MODULE BBox -------------------------------
(* Integer rectangle algebra of RegionBoundingBox (regions/core/bounding_box.py).            *)
(* A box is <<x0, x1, y0, y1>> with exclusive upper bounds; it denotes the pixel set           *)
(* {(x,y) : x0 <= x < x1 /\ y0 <= y < y1}.  Ref operators state what a user relies on (C19);   *)
(* Impl operators are shaped like the code.  The state machine is one call and its return.     *)
EXTENDS Integers, Sequences, FiniteSets, TLC

CONSTANTS Lo, Hi,          \* corners range over Lo..Hi
          MaxImg,          \* image sides range over 0..MaxImg
          Ops,             \* operations explored by this config
          FLo, FHi,        \* float rectangle coordinates in eighths: FLo..FHi
          FixSlices        \* TRUE: get_overlap_slices answers None whenever nothing is selected

None == <<>>
Min(a, b) == IF a <= b THEN a ELSE b
Max(a, b) == IF a >= b THEN a ELSE b

Corner == Lo..Hi
Boxes == {<<x0, x1, y0, y1>> \in Corner \X Corner \X Corner \X Corner : x0 <= x1 /\ y0 <= y1}
IsBox(b) == Len(b) = 4 /\ b[1] <= b[2] /\ b[3] <= b[4]
Pixels(b) == {<<x, y>> : x \in b[1]..(b[2] - 1), y \in b[3]..(b[4] - 1)}
Contains(c, b) == c[1] <= b[1] /\ b[2] <= c[2] /\ c[3] <= b[3] /\ b[4] <= c[4]
ImgPixels(h, w) == {<<x, y>> : x \in 0..(w - 1), y \in 0..(h - 1)}

---------------------------------------------------------------------------
(* Impl: the code's arithmetic *)
UnionImpl(a, b) == <<Min(a[1], b[1]), Max(a[2], b[2]), Min(a[3], b[3]), Max(a[4], b[4])>>

IntersectImpl(a, b) ==
  LET x0 == Max(a[1], b[1])  x1 == Min(a[2], b[2])
      y0 == Max(a[3], b[3])  y1 == Min(a[4], b[4])
  IN IF x1 < x0 \/ y1 < y0 THEN None ELSE <<x0, x1, y0, y1>>

ShapeImpl(b) == <<b[4] - b[3], b[2] - b[1]>>                     \* (ny, nx)
Center2Impl(b) == <<b[4] - 1 + b[3], b[2] - 1 + b[1]>>           \* 2*(cy, cx)
Extent2Impl(b) == <<2 * b[1] - 1, 2 * b[2] - 1, 2 * b[3] - 1, 2 * b[4] - 1>>  \* 2*(xmin,xmax,ymin,ymax)

(* to_region(): the rectangle region <<2*cx, 2*cy, width, height>> ; as_artist(): the matplotlib Rectangle       *)
(* <<2*x of the lower-left corner, 2*y of it, width, height>>                                                        *)
(* an empty box has no region: RectanglePixelRegion refuses a zero width or height (None here)                         *)
ToRegionImpl(b) == IF b[2] = b[1] \/ b[4] = b[3] THEN None ELSE <<b[2] - 1 + b[1], b[4] - 1 + b[3], b[2] - b[1], b[4] - b[3]>>
AsArtistImpl(b) == <<2 * b[1] - 1, 2 * b[3] - 1, b[2] - b[1], b[4] - b[3]>>

(* windows are <<lo, hi>> pairs: large = <<ywin, xwin>> in the image, small likewise in the box *)
SlicesImpl(b, h, w) ==
  LET xmin == b[1] xmax == b[2] ymin == b[3] ymax == b[4]
      none == xmin >= w \/ ymin >= h \/ xmax <= 0 \/ ymax <= 0
      empty == Min(xmax, w) <= Max(xmin, 0) \/ Min(ymax, h) <= Max(ymin, 0)
  IN IF none \/ (FixSlices /\ empty) THEN None
     ELSE << << <<Max(ymin, 0), Min(ymax, h)>>, <<Max(xmin, 0), Min(xmax, w)>> >>,
             << <<Max(-ymin, 0), Min(ymax - ymin, h - ymin)>>,
                <<Max(-xmin, 0), Min(xmax - xmin, w - xmin)>> >> >>

FloorDiv8(e) == e \div 8
CeilDiv8(e) == -((-e) \div 8)
FromFloatImpl(f) == <<FloorDiv8(f[1] + 4), CeilDiv8(f[2] + 4), FloorDiv8(f[3] + 4), CeilDiv8(f[4] + 4)>>

---------------------------------------------------------------------------
(* Ref: the property *)
UnionRef(a, b, r) ==           \* smallest box containing both boxes
  /\ IsBox(r) /\ Contains(r, a) /\ Contains(r, b)
  /\ \A c \in Boxes : Contains(c, a) /\ Contains(c, b) => Contains(c, r)
  /\ (Pixels(a) \cup Pixels(b)) \subseteq Pixels(r)

IntersectRef(a, b, r) ==       \* exactly the common pixels; None only when there are none
  IF r = None THEN Pixels(a) \cap Pixels(b) = {}
  ELSE IsBox(r) /\ Pixels(r) = Pixels(a) \cap Pixels(b)

Gap(a, b) == a[2] < b[1] \/ b[2] < a[1] \/ a[4] < b[3] \/ b[4] < a[3]
IntersectNoneWhenSeparated(a, b, r) == Gap(a, b) => r = None

ShapeRef(b, r) ==              \* (ny, nx) = number of rows, columns of the pixel set
  /\ r[2] = Cardinality(b[1]..(b[2] - 1)) /\ r[1] = Cardinality(b[3]..(b[4] - 1))
  /\ r[1] * r[2] = Cardinality(Pixels(b))
CenterRef(b, r) ==             \* mean of first and last pixel index, on each axis
  Pixels(b) # {} =>
     LET xs == b[1]..(b[2] - 1)  ys == b[3]..(b[4] - 1)
         mn(S) == CHOOSE v \in S : \A u \in S : v <= u
         mx(S) == CHOOSE v \in S : \A u \in S : v >= u
     IN r = <<mn(ys) + mx(ys), mn(xs) + mx(xs)>>
ExtentRef(b, r) ==             \* outer pixel edges: first pixel - 1/2 .. last pixel + 1/2
  Pixels(b) # {} =>
     LET xs == b[1]..(b[2] - 1)  ys == b[3]..(b[4] - 1)
         mn(S) == CHOOSE v \in S : \A u \in S : v <= u
         mx(S) == CHOOSE v \in S : \A u \in S : v >= u
     IN r = <<2 * mn(xs) - 1, 2 * mx(xs) + 1, 2 * mn(ys) - 1, 2 * mx(ys) + 1>>

(* the region / the patch of a box covers exactly the pixels of the box, edge to edge: its sides are the outer     *)
(* pixel edges (ExtentRef), so a pixel centre is inside it exactly when the pixel belongs to the box, and the box of   *)
(* that region is the box again                                                                                     *)
RectOfRegion2(r) == <<r[1] - r[3], r[1] + r[3], r[2] - r[4], r[2] + r[4]>>      \* 2*(xlo, xhi, ylo, yhi) of a centre/size rectangle
RectOfPatch2(r) == <<r[1], r[1] + 2 * r[3], r[2], r[2] + 2 * r[4]>>
CoversBox(b, rect2) ==
  /\ Pixels(b) # {} => rect2 = Extent2Impl(b) /\ ExtentRef(b, rect2)
  /\ \A x \in (Lo - 1)..(Hi + 1), y \in (Lo - 1)..(Hi + 1) :
        (rect2[1] < 2 * x /\ 2 * x < rect2[2] /\ rect2[3] < 2 * y /\ 2 * y < rect2[4]) <=> <<x, y>> \in Pixels(b)
ToRegionRef(b, r) == IF Pixels(b) = {} THEN r = None ELSE
                     r # None /\ r[3] = b[2] - b[1] /\ r[4] = b[4] - b[3] /\ CoversBox(b, RectOfRegion2(r))
                     /\ (Pixels(b) # {} => FromFloatImpl(<<4 * (r[1] - r[3]), 4 * (r[1] + r[3]), 4 * (r[2] - r[4]), 4 * (r[2] + r[4])>>) = b)
AsArtistRef(b, r) == r[3] = b[2] - b[1] /\ r[4] = b[4] - b[3] /\ CoversBox(b, RectOfPatch2(r))

Win(p) == p[1]..(p[2] - 1)
SlicesRef(b, h, w, r) ==
  LET common == Pixels(b) \cap ImgPixels(h, w) IN
  IF r = None THEN common = {}
  ELSE LET ly == r[1][1] lx == r[1][2] sy == r[2][1] sx == r[2][2] IN
       /\ FixSlices => common # {}
       /\ 0 <= ly[1] /\ ly[2] <= h /\ 0 <= lx[1] /\ lx[2] <= w              \* no wrap-around
       /\ 0 <= sy[1] /\ sy[2] <= b[4] - b[3] /\ 0 <= sx[1] /\ sx[2] <= b[2] - b[1]
       /\ {<<x, y>> : x \in Win(lx), y \in Win(ly)} = common                 \* image window = common pixels
       /\ {<<x + b[1], y + b[3]>> : x \in Win(sx), y \in Win(sy)} = common   \* box window = the same pixels
       /\ Max(ly[2] - ly[1], 0) = Max(sy[2] - sy[1], 0)                      \* equal shapes
       /\ Max(lx[2] - lx[1], 0) = Max(sx[2] - sx[1], 0)

FRange == ((FLo - 4) \div 8 - 1)..(-((-(FHi + 4)) \div 8) + 1)
FromFloatRef(f, r) ==          \* smallest box whose pixel-edge extent [x0-1/2, x1-1/2] covers the rectangle
  /\ 8 * r[1] - 4 <= f[1] /\ f[2] <= 8 * r[2] - 4 /\ 8 * r[3] - 4 <= f[3] /\ f[4] <= 8 * r[4] - 4
  /\ \A k \in FRange : (8 * k - 4 <= f[1] => k <= r[1]) /\ (f[2] <= 8 * k - 4 => r[2] <= k)
  /\ \A k \in FRange : (8 * k - 4 <= f[3] => k <= r[3]) /\ (f[4] <= 8 * k - 4 => r[4] <= k)

---------------------------------------------------------------------------
(* State machine: a call and its return *)
VARIABLES op, a, b, c, img, flt, res, pc
vars == <<op, a, b, c, img, flt, res, pc>>

FloatRects == {<<x0, x1, y0, y1>> \in (FLo..FHi) \X (FLo..FHi) \X (FLo..FHi) \X (FLo..FHi) : x0 <= x1 /\ y0 <= y1}
NoBox == <<0, 0, 0, 0>>

Init ==
  /\ op \in Ops /\ pc = "call" /\ res = None
  /\ a \in IF op = "from_float" THEN {NoBox} ELSE Boxes
  /\ b \in IF op \in {"union", "intersection", "assoc_union", "assoc_inter"} THEN Boxes ELSE {NoBox}
  /\ c \in IF op \in {"assoc_union", "assoc_inter"} THEN Boxes ELSE {NoBox}
  /\ img \in IF op = "slices" THEN (0..MaxImg) \X (0..MaxImg) ELSE {<<0, 0>>}
  /\ flt \in IF op = "from_float" THEN FloatRects ELSE {NoBox}

Inter3L == LET ab == IntersectImpl(a, b) IN IF ab = None THEN None ELSE IntersectImpl(ab, c)
Inter3R == LET bc == IntersectImpl(b, c) IN IF bc = None THEN None ELSE IntersectImpl(a, bc)

Apply ==
  CASE op = "union" -> UnionImpl(a, b)
    [] op = "intersection" -> IntersectImpl(a, b)
    [] op = "shape" -> ShapeImpl(a)
    [] op = "center" -> Center2Impl(a)
    [] op = "extent" -> Extent2Impl(a)
    [] op = "slices" -> SlicesImpl(a, img[1], img[2])
    [] op = "from_float" -> FromFloatImpl(flt)
    [] op = "assoc_union" -> UnionImpl(UnionImpl(a, b), c)
    [] op = "assoc_inter" -> Inter3L
    [] op = "to_region" -> ToRegionImpl(a)
    [] op = "as_artist" -> AsArtistImpl(a)

Return == pc = "call" /\ pc' = "ret" /\ res' = Apply /\ UNCHANGED <<op, a, b, c, img, flt>>
Next == Return
Spec == Init /\ [][Next]_vars

Done == pc = "ret"
InvUnion == Done /\ op = "union" => UnionRef(a, b, res) /\ res = UnionImpl(b, a)
InvIntersect == Done /\ op = "intersection" =>
                  /\ IntersectRef(a, b, res) /\ IntersectNoneWhenSeparated(a, b, res)
                  /\ res = IntersectImpl(b, a)
InvShape == Done /\ op = "shape" => ShapeRef(a, res)
InvCenter == Done /\ op = "center" => CenterRef(a, res)
InvExtent == Done /\ op = "extent" => ExtentRef(a, res)
InvSlices == Done /\ op = "slices" => SlicesRef(a, img[1], img[2], res)
InvFromFloat == Done /\ op = "from_float" => FromFloatRef(flt, res)
InvToRegion == Done /\ op = "to_region" => ToRegionRef(a, res)
InvAsArtist == Done /\ op = "as_artist" => AsArtistRef(a, res)
InvAssocUnion == Done /\ op = "assoc_union" => res = UnionImpl(a, UnionImpl(b, c))
InvAssocInter == Done /\ op = "assoc_inter" =>
                   \* associativity on pixel sets (None and empty boxes both denote the empty set)
                   LET px(r) == IF r = None THEN {} ELSE Pixels(r) IN
                   /\ px(res) = px(Inter3R)
                   /\ px(res) = (Pixels(a) \cap Pixels(b)) \cap Pixels(c)
=============================================================================
