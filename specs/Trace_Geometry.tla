--------------------------- MODULE Trace_Geometry ---------------------------
(* Validates events recorded from real pixel regions against Geometry.tla.  Events are        *)
(* stateless calls on an abstract lattice shape (the harness embeds the lattice into pixel    *)
(* coordinates by an exact power-of-two scale and a translation; the model is equivariant     *)
(* under both, MC_Geometry!InvEquivariant).  One initial state per event; the verdict names   *)
(* the failing clause.                                                                         *)
EXTENDS Geometry, Json, IOUtils

Events == JsonDeserialize(IOEnv.TRACE_FILE)

Code(t) == CASE t = "IN" -> 1 [] t = "OUT" -> 0 [] OTHER -> 2

(* contains: e.pts sequence of <<x, y>>, e.ans sequence of 0/1 *)
BadContains(e) == {i \in 1..Len(e.pts) : LET m == Code(Member(e.shape, e.pts[i])) IN m # 2 /\ m # e.ans[i]}
EdgeCount(e) == Cardinality({i \in 1..Len(e.pts) : Member(e.shape, e.pts[i]) = "EDGE"})

(* bbox: e.box the four integers reported by the region; aligned extremes may round either way *)
VBox(e) ==
  IF "grow" \in DOMAIN e /\ e.grow = 1
    THEN (IF GrownBox(e.shape, e.U) = e.box THEN "ok" ELSE "bbox:wrong_for_a_shape_poking_just_past_a_pixel_edge")
  ELSE
  LET m == BoxOf(e.shape, e.U) IN
  IF m.box = e.box THEN "ok"
  ELSE IF m.aligned /\ ~e.exact /\ \A i \in 1..4 : Abs(m.box[i] - e.box[i]) <= 1 THEN "ok"
  ELSE "bbox:wrong"

(* mask: e.n sub-sampling, e.grid integer counts (data * n^2 rounded), e.box *)
VMask(e) ==
  LET m == BoxOf(e.shape, e.U) IN
  IF m.box # e.box THEN (IF m.aligned /\ ~e.exact THEN "ok" ELSE "mask:bbox_wrong")
  ELSE LET g == MaskRef(e.shape, e.U, e.n) IN
       IF Len(g) # Len(e.grid) THEN "mask:shape_wrong"
       ELSE IF \E j \in 1..Len(g) : Len(g[j]) # Len(e.grid[j]) THEN "mask:shape_wrong"
       ELSE IF \E j \in 1..Len(g) : \E i \in 1..Len(g[j]) : g[j][i] # -1 /\ g[j][i] # e.grid[j][i] THEN "mask:value_wrong"
       ELSE "ok"

Verdict(e) ==
  CASE e.ev = "contains" -> IF BadContains(e) = {} THEN "ok" ELSE "contains:mismatch"
    [] e.ev = "bbox" -> VBox(e)
    [] e.ev = "mask" -> VMask(e)
    [] OTHER -> "unknown_event"
At(e) == IF e.ev = "contains" /\ BadContains(e) # {} THEN CHOOSE i \in BadContains(e) : \A j \in BadContains(e) : i <= j ELSE 0

VARIABLES i, verdict, at, edges
Init == /\ i \in 1..Len(Events)
        /\ verdict = Verdict(Events[i]) /\ at = At(Events[i])
        /\ edges = IF Events[i].ev = "contains" THEN EdgeCount(Events[i]) ELSE 0
Next == UNCHANGED <<i, verdict, at, edges>>
Spec == Init /\ [][Next]_<<i, verdict, at, edges>>
=============================================================================
