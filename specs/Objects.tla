------------------------------- MODULE Objects -------------------------------
(* Heap model of region objects (regions/core/attributes.py, metadata.py, core.py, regions.py). *)
(*                                                                                              *)
(* Regions are objects with identity; their meta and visual are *references* to dict objects    *)
(* (also with identity), so sharing versus copying is a state predicate.  Parameter values are  *)
(* tokens from a catalogue per descriptor kind (the harness maps each token to a Python value). *)
(* Every API entry that can change an object is one action; `act` records the action and its    *)
(* arguments, `pre` the state it was applied to and `out` the outcome ("ok" or an exception     *)
(* class), so each reachable state is one self-contained implementation test (binding B) and    *)
(* each behaviour one call history.                                                             *)
(*                                                                                              *)
(* Ref (C17): AllValid is an invariant; a rejected action is a stutter on the heap.             *)
(* Ref (C16): Copy allocates fresh identities and equal contents; Eq sees every field.          *)
EXTENDS Integers, Sequences, FiniteSets, TLC

CONSTANTS Classes,        \* class names explored by this config
          Acts,           \* enabled action groups
          MaxObj,         \* object slots
          Deviations,     \* named deviations of the code from the Ref that are switched on
          ExtraPix,       \* additional pixel-position tokens (tolerance probes far from / at the origin), used by the C16 configs
          MaxDepth

NoObj == [cls |-> "none"]
Empty == <<>>                    \* empty function (dict contents are functions key -> value token)

(* ---------------- descriptor kinds and their token catalogues ---------------- *)
SkyExtras == {"sAobs", "sAnear", "sAfar"}    \* ... and the direction of sA at two different distances        \* the position sA with another observation time: a different value (extra frame attribute), not an error
ValidTok(kind) ==
  CASE kind = "pos" -> {"f1_5", "i3", "npf2_5", "f4", "f4u"}                 \* f4u, a30u, q2degu: the next double after f4, a30, q2deg
    [] kind = "posn" -> {"i3", "f4", "i5"}
    [] kind = "pix" -> {"pA", "pB", "pAc", "pAf"} \cup (ExtraPix \ SkyExtras)
    [] kind = "pix1d" -> {"parr3", "parr4"}
    [] kind = "sky" -> {"sA", "sB"} \cup (ExtraPix \cap SkyExtras)
    [] kind = "sky1d" -> {"sarr3", "sarr4"}
    [] kind = "ang" -> {"a0", "a30", "arad", "aAngle", "aneg", "a30am", "a30u", "a390"}        \* a390: a full turn more is another value
    [] kind = "posang" -> {"q1as", "q3am", "q2deg", "q180as", "q2degu"}
    [] kind = "regpix" -> {"regP1", "regP2"}
    [] kind = "regsky" -> {"regS1", "regS2"}
    [] kind = "text" -> {"tHello", "tEmpty", "tPadded"}          \* tPadded: blanks and a tab around the label are part of it
    [] kind = "oper" -> {"op_and", "op_or", "op_lamA", "op_lamB"}       \* two different callables with the same __name__
InvalidTok(kind) ==
  CASE kind = "pos" -> {"zero", "neg", "nan", "inf", "str", "none", "list", "arr0d", "arr1d", "arr1", "list1", "a30", "qpix"}
    [] kind = "posn" -> {"zero", "neg", "nan", "str", "none", "arr1d", "narr1", "a30", "i2", "f3_5"}      \* a count: an integer, at least 3
    [] kind = "pix" -> {"parr3", "parr1", "p2d", "sA", "tuple", "none", "str", "f1_5"}
    [] kind = "pix1d" -> {"pA", "p2d", "sarr3", "list", "none"}
    [] kind = "sky" -> {"sarr3", "sarr1", "pA", "tuple", "none", "q2deg"}
    [] kind = "sky1d" -> {"sA", "s2d", "parr3", "none"}
    [] kind = "ang" -> {"f1_5", "qpix", "qm", "qdimless", "aarr", "aarr1", "aAngle1", "str", "none"}
    [] kind = "posang" -> {"a0", "aneg", "qinf", "qnan", "f1_5", "qpix", "qm", "qdimless", "qpercent", "aarr", "qarr1", "none", "str"}
    [] kind = "regpix" -> {"regS1", "str", "none"}
    [] kind = "regsky" -> {"regP1", "str", "none"}
    [] kind = "text" -> {}
    [] kind = "oper" -> {"str", "none"}
Tokens(kind) == ValidTok(kind) \cup InvalidTok(kind)
ValidValue(kind, tok) == tok \in ValidTok(kind)

(* numeric order of size tokens, for the annulus inner < outer constraint *)
Num(tok) == CASE tok = "f1_5" -> 15 [] tok = "npf2_5" -> 25 [] tok = "i3" -> 30 [] tok = "f4" -> 40
              [] tok = "q1as" -> 1 [] tok = "q3am" -> 180 [] tok = "q180as" -> 180 [] tok = "q2deg" -> 7200 [] tok = "q2degu" -> 7201 [] tok = "f4u" -> 41 [] OTHER -> 0

(* tokens that denote the same value: angular quantities differing only by unit, and pixel      *)
(* positions within the documented relative tolerance 1e-5 (pAc = pA + 1e-7; pAf = pA + 1e-3)   *)
(* pFarC = pFar + 0.005 at x = 2000 (within rtol 1e-5); pOc = pO + 4e-6 at the origin (outside atol 1e-8) *)
SameValue(t1, t2) == t1 = t2 \/ {t1, t2} \in {{"a30", "a30am"}, {"q3am", "q180as"}, {"pA", "pAc"}, {"pFar", "pFarC"}}

(* ---------------- classes ---------------- *)
F(n, k) == <<n, k>>
Fields(cls) ==
  CASE cls = "CirclePix" -> <<F("center", "pix"), F("radius", "pos")>>
    [] cls = "EllipsePix" -> <<F("center", "pix"), F("width", "pos"), F("height", "pos"), F("angle", "ang")>>
    [] cls = "RectanglePix" -> <<F("center", "pix"), F("width", "pos"), F("height", "pos"), F("angle", "ang")>>
    [] cls = "PolygonPix" -> <<F("vertices", "pix1d")>>
    [] cls = "RegularPolygonPix" -> <<F("center", "pix"), F("nvertices", "posn"), F("radius", "pos"), F("angle", "ang")>>
    [] cls = "CircleAnnulusPix" -> <<F("center", "pix"), F("inner_radius", "pos"), F("outer_radius", "pos")>>
    [] cls \in {"EllipseAnnulusPix", "RectangleAnnulusPix"} ->
         <<F("center", "pix"), F("inner_width", "pos"), F("outer_width", "pos"), F("inner_height", "pos"),
           F("outer_height", "pos"), F("angle", "ang")>>
    [] cls = "PointPix" -> <<F("center", "pix")>>
    [] cls = "LinePix" -> <<F("start", "pix"), F("end", "pix")>>
    [] cls = "TextPix" -> <<F("center", "pix"), F("text", "text")>>
    [] cls = "CircleSky" -> <<F("center", "sky"), F("radius", "posang")>>
    [] cls \in {"EllipseSky", "RectangleSky"} -> <<F("center", "sky"), F("width", "posang"), F("height", "posang"), F("angle", "ang")>>
    [] cls = "PolygonSky" -> <<F("vertices", "sky1d")>>
    [] cls = "CircleAnnulusSky" -> <<F("center", "sky"), F("inner_radius", "posang"), F("outer_radius", "posang")>>
    [] cls \in {"EllipseAnnulusSky", "RectangleAnnulusSky"} ->
         <<F("center", "sky"), F("inner_width", "posang"), F("outer_width", "posang"), F("inner_height", "posang"),
           F("outer_height", "posang"), F("angle", "ang")>>
    [] cls = "PointSky" -> <<F("center", "sky")>>
    [] cls = "LineSky" -> <<F("start", "sky"), F("end", "sky")>>
    [] cls = "TextSky" -> <<F("center", "sky"), F("text", "text")>>
    [] cls = "CompoundPix" -> <<F("region1", "regpix"), F("region2", "regpix"), F("operator", "oper")>>
    [] cls = "CompoundSky" -> <<F("region1", "regsky"), F("region2", "regsky"), F("operator", "oper")>>
FieldNames(cls) == {Fields(cls)[i][1] : i \in 1..Len(Fields(cls))}
KindOf(cls, f) == LET i == CHOOSE j \in 1..Len(Fields(cls)) : Fields(cls)[j][1] = f IN Fields(cls)[i][2]
ReadOnly(cls, f) == cls \in {"CompoundPix", "CompoundSky"} /\ f = "operator"

(* cross-field constraints (annuli: outer sizes strictly exceed inner ones) *)
Cross(cls, par) ==
  CASE cls \in {"CircleAnnulusPix", "CircleAnnulusSky"} -> Num(par["inner_radius"]) < Num(par["outer_radius"])
    [] cls \in {"EllipseAnnulusPix", "RectangleAnnulusPix", "EllipseAnnulusSky", "RectangleAnnulusSky"} ->
         Num(par["inner_width"]) < Num(par["outer_width"]) /\ Num(par["inner_height"]) < Num(par["outer_height"])
    [] cls = "RegularPolygonPix" -> TRUE
    [] OTHER -> TRUE
ParValid(cls, par) == (\A f \in FieldNames(cls) : ValidValue(KindOf(cls, f), par[f])) /\ Cross(cls, par)

(* ---------------- meta / visual vocabularies ---------------- *)
MetaKeys == {"label", "include", "tag"}                 \* sample of the documented RegionMeta vocabulary
VisualKeys == {"color", "linewidth", "fontsize"}
BadKeys == {"foo", "Label", "COLOR"}        \* incl. keys that differ from a documented one only in letter case
KeyTokens(which) == IF which = "meta" THEN MetaKeys \cup BadKeys \cup {"color"} ELSE VisualKeys \cup BadKeys \cup {"label", "width"}
Canon(which, k) == IF which = "visual" /\ k = "width" THEN "linewidth" ELSE k       \* documented alias
KeyOK(which, k) == Canon(which, k) \in (IF which = "meta" THEN MetaKeys ELSE VisualKeys)
ValTokens == {"v1", "v2", "vlist"}            \* vlist: a list-valued entry (e.g. tag); vlist2: the same list after an in-place append

(* ---------------- state ---------------- *)
VARIABLES heap,    \* slot -> [cls, par, meta (dict id), visual (dict id)] or NoObj
          dicts,   \* dict id -> [which, kv]     (function; ids allocated 1, 2, ...)
          pre, act, out, depth,
          eq       \* "eq" / "ne": value equality of the objects in slots 1 and 2 when both are live, else "-"
vars == <<heap, dicts, pre, act, out, depth, eq>>

Slots == 1..MaxObj
Live == {s \in Slots : heap[s].cls # "none"}
Free == {s \in Slots : heap[s].cls = "none"}
NewDict == Len(dicts) + 1
Put(kv, k, v) == [x \in DOMAIN kv \cup {k} |-> IF x = k THEN v ELSE kv[x]]
Drop(kv, k) == [x \in DOMAIN kv \ {k} |-> kv[x]]

Init == /\ heap = [s \in Slots |-> NoObj] /\ dicts = <<>> /\ pre = <<>> /\ act = [a |-> "init"] /\ out = "ok" /\ depth = 0 /\ eq = "-"

(* value equality, as documented for Region.__eq__: same class, every parameter, every meta and visual entry *)
EqIn(h, d, s, t) == /\ h[s].cls = h[t].cls
                    /\ \A f \in DOMAIN h[s].par : SameValue(h[s].par[f], h[t].par[f])
                    /\ d[h[s].meta].kv = d[h[t].meta].kv /\ d[h[s].visual].kv = d[h[t].visual].kv
EqFlag(h, d) == IF MaxObj >= 2 /\ h[1].cls # "none" /\ h[2].cls # "none" THEN (IF EqIn(h, d, 1, 2) THEN "eq" ELSE "ne") ELSE "-"
Step(a, o, h, d) == /\ pre' = [heap |-> heap, dicts |-> dicts] /\ act' = a /\ out' = o /\ heap' = h /\ dicts' = d
                    /\ depth' = depth + 1 /\ eq' = EqFlag(h, d)
Reject(a, o) == Step(a, o, heap, dicts)

(* ---- construction: cls(args) ---- *)
RECURSIVE Prod(_, _)
Prod(cls, i) == IF i = 0 THEN {Empty}
                ELSE {Put(p, Fields(cls)[i][1], t) : p \in Prod(cls, i - 1), t \in ValidTok(Fields(cls)[i][2])}
AllClassNames == {"CirclePix", "EllipsePix", "RectanglePix", "PolygonPix", "RegularPolygonPix", "CircleAnnulusPix",
                  "EllipseAnnulusPix", "RectangleAnnulusPix", "PointPix", "LinePix", "TextPix", "CircleSky", "EllipseSky",
                  "RectangleSky", "PolygonSky", "CircleAnnulusSky", "EllipseAnnulusSky", "RectangleAnnulusSky", "PointSky",
                  "LineSky", "TextSky", "CompoundPix", "CompoundSky"}
GoodArgsTable == [c \in AllClassNames |-> Prod(c, Len(Fields(c)))]     \* evaluated once
GoodArgs(cls) == GoodArgsTable[cls]                     \* every field a valid token (cross-field constraints not applied)
RepArgs(cls) == CHOOSE p \in GoodArgs(cls) : Cross(cls, p)
CtorExc(cls, p) ==
  IF \E f \in FieldNames(cls) : KindOf(cls, f) = "oper" /\ p[f] \notin ValidTok("oper") THEN "TypeError" ELSE "ValueError"
(* a compound made without meta/visual takes its first member's (the member tokens regP1 / regS1 carry a label and a colour) *)
MemberKv(tok, which) == IF tok \in {"regP1", "regS1"} THEN (IF which = "meta" THEN Put(Empty, "label", "member") ELSE Put(Empty, "color", "cyan")) ELSE Empty
InitKv(cls, p, which) == IF cls \in {"CompoundPix", "CompoundSky"} THEN MemberKv(p["region1"], which) ELSE Empty
Construct(cls, s) ==
  /\ "construct" \in Acts /\ cls \in Classes /\ s \in Free /\ s = CHOOSE x \in Free : \A y \in Free : x <= y
  /\ ("construct_first_only" \in Acts => s = 1)
  /\ \E p \in GoodArgs(cls) \cup (IF "construct_bad" \in Acts
                                     THEN UNION {{[RepArgs(cls) EXCEPT ![f] = t] : t \in InvalidTok(KindOf(cls, f))} : f \in FieldNames(cls)}
                                     ELSE {}) :
     LET a == [a |-> "construct", cls |-> cls, args |-> p, slot |-> s] IN
     IF ParValid(cls, p)
       THEN Step(a, "ok",
                 [heap EXCEPT ![s] = [cls |-> cls, par |-> p, meta |-> NewDict, visual |-> NewDict + 1]],
                 dicts \o <<[which |-> "meta", kv |-> InitKv(cls, p, "meta")], [which |-> "visual", kv |-> InitKv(cls, p, "visual")]>>)
       ELSE Reject(a, CtorExc(cls, p))

(* ---- attribute assignment: descriptor __set__ = Validate ; Store ---- *)
Assign(s) ==
  /\ "assign" \in Acts /\ s \in Live
  /\ \E f \in FieldNames(heap[s].cls) : \E t \in Tokens(KindOf(heap[s].cls, f)) :
     LET cls == heap[s].cls
         a == [a |-> "assign", slot |-> s, field |-> f, value |-> t]
         newpar == [heap[s].par EXCEPT ![f] = t]
     IN IF ReadOnly(cls, f) THEN Reject(a, "AttributeError")
        ELSE IF ValidValue(KindOf(cls, f), t) /\ (Cross(cls, newpar) \/ "AssignAnnulusUnchecked" \in Deviations)
          THEN Step(a, "ok", [heap EXCEPT ![s].par = newpar], dicts)
          ELSE Reject(a, "ValueError")

(* shape attributes kept by a validating descriptor although the constructor does not take them (the polygon a regular polygon stands for) *)
DerivedShapeFields(cls) == IF cls = "RegularPolygonPix" THEN {"vertices"} ELSE {}
Delete(s) ==
  /\ "delete" \in Acts /\ s \in Live
  /\ \E f \in FieldNames(heap[s].cls) \cup DerivedShapeFields(heap[s].cls) :
        Reject([a |-> "delete", slot |-> s, field |-> f], "AttributeError")   \* shape parameters, given or derived

MetaHows == {"setitem", "update", "update_kw", "update_same", "update_other", "setdefault", "ior", "ior_other", "pop", "del", "clear", "nested_append",
             "update2", "update2_kw", "ior2"}       \* ...2: the argument holds two entries, a documented key first, then k
(* ---- dict mutation entry points of RegionMeta / RegionVisual ---- *)
DictOf(s, which) == IF which = "meta" THEN heap[s].meta ELSE heap[s].visual
MetaOp(s, which, how, k, v) ==
  /\ \/ "meta" \in Acts
     \/ "meta_small" \in Acts /\ how \in {"setitem", "pop", "nested_append"} /\ k \in {"label", "color"} /\ KeyOK(which, k) /\ v \in {"v1", "vlist"}
  /\ s \in Live /\ which \in {"meta", "visual"} /\ k \in KeyTokens(which) /\ v \in ValTokens
  /\ how \in MetaHows
  /\ (k = "width" => how \in {"setitem", "update", "update_kw", "ior", "setdefault", "update2", "update2_kw", "ior2"})   \* the alias is for setting
  /\ (how = "nested_append" => v = "vlist")
  /\ LET id == DictOf(s, which)
         kv == dicts[id].kv
         ck == Canon(which, k)
         a == [a |-> "meta", slot |-> s, which |-> which, how |-> how, key |-> k, value |-> v]
         set == Step(a, "ok", heap, [dicts EXCEPT ![id].kv = Put(kv, ck, v)])
     IN CASE how \in {"setitem", "update", "update_kw", "update_same", "update_other"} ->     \* update_same/other: the argument is a
                                                                                              \* RegionMeta/RegionVisual instance holding {k: v}
               IF KeyOK(which, k) THEN set ELSE Reject(a, "KeyError")
          [] how = "ior_other" -> IF KeyOK(which, k) THEN set ELSE Reject(a, "KeyError")
          [] how \in {"update2", "update2_kw", "ior2"} ->      \* all or nothing: a refused key leaves the documented one unset as well
               LET gk == IF which = "meta" THEN "label" ELSE "color" IN
               IF KeyOK(which, k) THEN Step(a, "ok", heap, [dicts EXCEPT ![id].kv = Put(Put(kv, gk, "v2"), ck, v)])
               ELSE Reject(a, "KeyError")
          [] how = "nested_append" ->             \* m[k].append(x) on a list-valued entry: only this dict's value changes
               IF ck \in DOMAIN kv /\ kv[ck] = "vlist" THEN Step(a, "ok", heap, [dicts EXCEPT ![id].kv = Put(kv, ck, "vlist2")])
               ELSE FALSE
          [] how = "ior" -> IF KeyOK(which, k) THEN set
                            ELSE IF "MetaIorUnchecked" \in Deviations THEN Step(a, "ok", heap, [dicts EXCEPT ![id].kv = Put(kv, k, v)])
                            ELSE Reject(a, "KeyError")
          [] how = "setdefault" -> IF ck \in DOMAIN kv THEN Reject(a, "ok")
                                   ELSE IF KeyOK(which, k) THEN set ELSE Reject(a, "KeyError")
          [] how \in {"pop", "del"} -> IF ck \in DOMAIN kv /\ ck = k THEN Step(a, "ok", heap, [dicts EXCEPT ![id].kv = Drop(kv, ck)])
                                       ELSE IF k \in DOMAIN kv THEN Step(a, "ok", heap, [dicts EXCEPT ![id].kv = Drop(kv, k)])
                                       ELSE Reject(a, "KeyError")
          [] how = "clear" -> Step(a, "ok", heap, [dicts EXCEPT ![id].kv = Empty])

(* ---- assigning a whole meta / visual object ---- *)
DictTokens == {"dict_ok", "dict_empty", "obj_ok", "dict_badkey", "dict_goodbad", "other_kind", "str", "none"}   \* goodbad: a documented key, then an unknown one
MetaAssign(s, which, t) ==
  /\ "metaassign" \in Acts /\ s \in Live /\ which \in {"meta", "visual"} /\ t \in DictTokens
  /\ LET a == [a |-> "metaassign", slot |-> s, which |-> which, value |-> t]
         goodkey == IF which = "meta" THEN "label" ELSE "color"
         fresh(kv) == Step(a, "ok", [heap EXCEPT ![s] = IF which = "meta" THEN [@ EXCEPT !.meta = NewDict] ELSE [@ EXCEPT !.visual = NewDict]],
                           Append(dicts, [which |-> which, kv |-> kv]))
     IN CASE t \in {"dict_ok", "obj_ok"} -> fresh(Put(Empty, goodkey, "v1"))
          [] t = "dict_empty" -> fresh(Empty)
          [] t \in {"dict_badkey", "dict_goodbad", "other_kind"} -> Reject(a, "KeyError")   \* a dict of the other vocabulary is converted, its keys checked
          [] OTHER -> Reject(a, "ValueError")

(* ---- copies ---- *)
Copy(s, t) ==
  /\ "copy" \in Acts /\ s \in Live /\ t \in Free /\ t = CHOOSE x \in Free : \A y \in Free : x <= y
  /\ Step([a |-> "copy", slot |-> s, to |-> t], "ok",
          [heap EXCEPT ![t] = [heap[s] EXCEPT !.meta = NewDict, !.visual = NewDict + 1]],
          dicts \o <<dicts[heap[s].meta], dicts[heap[s].visual]>>)
CopyWith(s, t) ==
  /\ "copywith" \in Acts /\ s \in Live /\ t \in Free /\ t = CHOOSE x \in Free : \A y \in Free : x <= y
  /\ \E f \in {g \in FieldNames(heap[s].cls) : ~ReadOnly(heap[s].cls, g)} : \E v \in Tokens(KindOf(heap[s].cls, f)) :
     LET a == [a |-> "copywith", slot |-> s, to |-> t, field |-> f, value |-> v]
         newpar == [heap[s].par EXCEPT ![f] = v]
     IN IF ParValid(heap[s].cls, newpar)
          THEN Step(a, "ok", [heap EXCEPT ![t] = [heap[s] EXCEPT !.par = newpar, !.meta = NewDict, !.visual = NewDict + 1]],
                    dicts \o <<dicts[heap[s].meta], dicts[heap[s].visual]>>)
          ELSE Reject(a, "ValueError")
(* copy(meta=<dict>) / copy(visual=<dict>): the named dict is replaced by a fresh one with the given contents, the other is copied *)
CopyWithDict(s, t) ==
  /\ "copywithdict" \in Acts /\ s \in Live /\ t \in Free /\ t = (CHOOSE x \in Free : \A y \in Free : x <= y)
  /\ \E which \in {"meta", "visual"}, tok \in {"dict_ok", "dict_empty"} :
     LET a == [a |-> "copywithdict", slot |-> s, to |-> t, which |-> which, value |-> tok]
         goodkey == IF which = "meta" THEN "label" ELSE "color"
         given == [which |-> which, kv |-> IF tok = "dict_ok" THEN Put(Empty, goodkey, "v1") ELSE Empty]
     IN Step(a, "ok", [heap EXCEPT ![t] = [heap[s] EXCEPT !.meta = NewDict, !.visual = NewDict + 1]],
             dicts \o (IF which = "meta" THEN <<given, dicts[heap[s].visual]>> ELSE <<dicts[heap[s].meta], given>>))
(* a region of another class with the same parameter names and values (Ellipse/Rectangle and their annuli) *)
Sibling(cls) == CASE cls = "EllipsePix" -> "RectanglePix" [] cls = "RectanglePix" -> "EllipsePix"
                  [] cls = "EllipseSky" -> "RectangleSky" [] cls = "RectangleSky" -> "EllipseSky"
                  [] cls = "EllipseAnnulusPix" -> "RectangleAnnulusPix" [] cls = "RectangleAnnulusPix" -> "EllipseAnnulusPix"
                  [] cls = "EllipseAnnulusSky" -> "RectangleAnnulusSky" [] cls = "RectangleAnnulusSky" -> "EllipseAnnulusSky"
                  [] OTHER -> "none"
CopyAs(s, t) ==
  /\ "copy" \in Acts /\ s \in Live /\ Sibling(heap[s].cls) # "none" /\ t \in Free /\ t = (CHOOSE x \in Free : \A y \in Free : x <= y)
  /\ Step([a |-> "copyas", slot |-> s, to |-> t, cls |-> Sibling(heap[s].cls)], "ok",
          [heap EXCEPT ![t] = [heap[s] EXCEPT !.cls = Sibling(heap[s].cls), !.meta = NewDict, !.visual = NewDict + 1]],
          dicts \o <<dicts[heap[s].meta], dicts[heap[s].visual]>>)
Discard(s) == /\ "copy" \in Acts /\ s \in Live /\ s # 1
              /\ Step([a |-> "discard", slot |-> s], "ok", [heap EXCEPT ![s] = NoObj], dicts)

Moves ==
  \/ \E cls \in Classes, s \in Slots : Construct(cls, s)
  \/ \E s \in Slots : Assign(s)
  \/ \E s \in Slots : Delete(s)
  \/ \E s \in Slots, which \in {"meta", "visual"}, how \in MetaHows :
        \E k \in KeyTokens(which), v \in ValTokens : MetaOp(s, which, how, k, v)
  \/ \E s \in Slots, which \in {"meta", "visual"}, t \in DictTokens : MetaAssign(s, which, t)
  \/ \E s \in Slots, t \in Slots : Copy(s, t)
  \/ \E s \in Slots, t \in Slots : CopyWith(s, t)
  \/ \E s \in Slots, t \in Slots : CopyAs(s, t)
  \/ \E s \in Slots, t \in Slots : CopyWithDict(s, t)
  \/ \E s \in Slots : Discard(s)
Next == /\ depth < MaxDepth
        /\ ~(act.a = "construct" /\ out # "ok")         \* a refused construction ends the history
        /\ Moves
Spec == Init /\ [][Next]_vars

(* ---------------- properties ---------------- *)
ObjValid(o) == o.cls = "none" \/ ParValid(o.cls, o.par)
DictValid(d) == \A k \in DOMAIN d.kv : KeyOK(d.which, k) /\ Canon(d.which, k) = k
AllValid == (\A s \in Slots : ObjValid(heap[s])) /\ (\A i \in 1..Len(dicts) : DictValid(dicts[i]))
(* a rejected operation leaves every object exactly as it was *)
RejectIsStutter == out \notin {"ok"} /\ depth > 0 => heap = pre.heap /\ dicts = pre.dicts
(* no two live objects share a meta or visual dict (copies are independent) *)
NoSharing == \A s, t \in Live : s # t => heap[s].meta # heap[t].meta /\ heap[s].visual # heap[t].visual
                                         /\ heap[s].meta # heap[t].visual
(* value equality, as documented for Region.__eq__ *)
Eq(o1, o2) == /\ o1.cls = o2.cls /\ \A f \in DOMAIN o1.par : SameValue(o1.par[f], o2.par[f])
              /\ dicts[o1.meta].kv = dicts[o2.meta].kv /\ dicts[o1.visual].kv = dicts[o2.visual].kv
EqReflexiveSymmetric == \A s, t \in Live : Eq(heap[s], heap[s]) /\ (Eq(heap[s], heap[t]) <=> Eq(heap[t], heap[s]))
CopyEqual == act.a = "copy" /\ out = "ok" => Eq(heap[act.slot], heap[act.to])
CopyWithDiffers == act.a = "copywith" /\ out = "ok" =>
                     LET o == heap[act.slot]  c == heap[act.to] IN
                     /\ c.cls = o.cls /\ c.par = [o.par EXCEPT ![act.field] = act.value]
                     /\ dicts[c.meta].kv = dicts[o.meta].kv /\ dicts[c.visual].kv = dicts[o.visual].kv
                     /\ (Eq(o, c) <=> SameValue(o.par[act.field], act.value))
CopyWithDictDiffers == act.a = "copywithdict" /\ out = "ok" =>
                     LET o == heap[act.slot]  c == heap[act.to]
                         want == IF act.value = "dict_ok" THEN Put(Empty, IF act.which = "meta" THEN "label" ELSE "color", "v1") ELSE Empty IN
                     /\ c.cls = o.cls /\ c.par = o.par /\ c.meta # o.meta /\ c.visual # o.visual
                     /\ (IF act.which = "meta" THEN dicts[c.meta].kv = want /\ dicts[c.visual].kv = dicts[o.visual].kv
                                                ELSE dicts[c.visual].kv = want /\ dicts[c.meta].kv = dicts[o.meta].kv)
                     /\ (Eq(o, c) <=> (IF act.which = "meta" THEN dicts[o.meta].kv ELSE dicts[o.visual].kv) = want)
(* mutating one object never shows in another *)
Independent == act.a \in {"assign", "meta", "metaassign"} /\ depth > 0 =>
                 \A s \in Slots \ {act.slot} : /\ heap[s] = pre.heap[s]
                                               /\ s \in Live => /\ dicts[heap[s].meta] = pre.dicts[heap[s].meta]
                                                                /\ dicts[heap[s].visual] = pre.dicts[heap[s].visual]
DepthBound == depth <= MaxDepth
=============================================================================
