---------------------------- MODULE Trace_BBox ----------------------------
(* Validates events recorded from the real RegionBoundingBox against the BBox specification. *)
(* Each event is a stateless call {op, a, b, img, flt, res}; events are loaded as initial     *)
(* states and the verdict (name of the first failing clause, or "ok") is computed here.       *)
EXTENDS BBoxClosed, TLC, Json, IOUtils

Events == JsonDeserialize(IOEnv.TRACE_FILE)

VARIABLES i, verdict
Init == i \in 1..Len(Events) /\ verdict = Verdict(Events[i])
Next == UNCHANGED <<i, verdict>>
Spec == Init /\ [][Next]_<<i, verdict>>
=============================================================================
