----------------------------- MODULE Placement -----------------------------
(* State machine (one call and its return) over the operators of PlacementOps.tla; see there. *)
EXTENDS PlacementOps

CONSTANTS XLo, XHi,        \* range of box lower corners
          Sizes,           \* box side lengths
          ImgH, ImgW,      \* sets of image heights / widths
          Patterns, Fills

(* ---------------- state machine: one call and its return ---------------- *)
VARIABLES box, img, pat, op, arg, res, pc
vars == <<box, img, pat, op, arg, res, pc>>
Boxes == {<<x0, x0 + nx, y0, y0 + ny>> : x0 \in XLo..XHi, y0 \in XLo..XHi, nx \in Sizes, ny \in Sizes}
Init == /\ box \in Boxes /\ img \in ImgH \X ImgW /\ pat \in Patterns /\ pc = "call" /\ res = None
        /\ op \in {"to_image", "cutout", "multiply", "get_values"}
        /\ arg \in CASE op \in {"cutout", "multiply"} -> Fills [] op = "get_values" -> {"nomask", "alt"} [] OTHER -> {"float", "int", "bool"}
Apply ==
  CASE op = "to_image" -> ToImageImpl(box, pat, img[1], img[2], arg)
    [] op = "cutout" -> [grid |-> CutoutImpl(box, img[1], img[2]), inside |-> FullyInside(box, img[1], img[2])]
    [] op = "multiply" -> MultiplyImpl(box, pat, img[1], img[2])
    [] op = "get_values" -> ValuesRef(box, pat, img[1], img[2], arg)
Return == pc = "call" /\ pc' = "ret" /\ res' = Apply /\ UNCHANGED <<box, img, pat, op, arg>>
Next == Return
Spec == Init /\ [][Next]_vars
Done == pc = "ret"
InvToImage == Done /\ op = "to_image" => res = ToImageRef(box, pat, img[1], img[2], arg)
InvCutout == Done /\ op = "cutout" => res.grid = CutoutRef(box, img[1], img[2])
InvMultiply == Done /\ op = "multiply" => res = MultiplyRef(box, pat, img[1], img[2])
InvNoneIffNoOverlap == Done /\ op \in {"to_image", "multiply"} => (res = None <=> ~Overlap(box, img[1], img[2]))
InvValuesLen == Done /\ op = "get_values" => (res = <<>> <=> ~(\E y \in 0..(img[1] - 1), x \in 0..(img[2] - 1) :
                      InBox(box, y, x) /\ Weight(pat, y - box[3], x - box[1]) > 0 /\ ~Masked(arg, y, x)))
=============================================================================
