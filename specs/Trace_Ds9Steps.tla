--------------------------- MODULE Trace_Ds9Steps ---------------------------
(* Per-line trace validation of the real DS9 reader (regions/io/ds9/read.py::_parse_raw_data).    *)
(* The guarded hook `ds9.read.line` logs the reader's persistent variables after the loop body    *)
(* has processed each physical line (it fires at the head of every iteration and once after the  *)
(* loop, so the first event is the initial state): frame, global_meta, composite_meta and the      *)
(* number of region records accumulated.  An event is [file |-> abstract lines, log |-> logged states]; the trace   *)
(* spec re-uses Ds9!StepLine as its only action and requires after every step that the projection  *)
(* of the model state equals the logged one.  The verdict names the first failing step and clause.  *)
EXTENDS Ds9, Json, IOUtils
Events == JsonDeserialize(IOEnv.TRACE_FILE)
VARIABLES t, i, s, n, verdict
vars == <<t, i, s, n, verdict>>
Accepted(st, l) == l.k = "region" /\ st.frame # NoFrame         \* a region line adds one record (multi-annuli are split later)
Clause(s2, n2, g) ==
  IF g.frame # s2.frame THEN "frame"
  ELSE IF g.gmeta # s2.gmeta THEN "global_meta"
  ELSE IF g.cmeta # s2.cmeta THEN "composite_meta"
  ELSE IF g.n # n2 THEN "region_records"
  ELSE "ok"
Init == t \in 1..Len(Events) /\ i = 1 /\ s = St0 /\ n = 0
        /\ verdict = IF Len(Events[t].init) # 1 THEN "no_initial_state"
                     ELSE IF Clause(St0, 0, Events[t].init[1]) # "ok" THEN "initial_" \o Clause(St0, 0, Events[t].init[1])
                     ELSE IF Len(Events[t].log) # Len(Events[t].file) THEN "line_count" ELSE "ok"
Step == /\ verdict = "ok" /\ i <= Len(Events[t].file)
        /\ LET l == Events[t].file[i]
               s2 == StepLine(s, l)
               n2 == n + (IF Accepted(s, l) THEN 1 ELSE 0)
           IN s' = s2 /\ n' = n2 /\ verdict' = Clause(s2, n2, Events[t].log[i])
        /\ i' = i + 1 /\ UNCHANGED t
Next == Step
Spec == Init /\ [][Next]_vars
(* the trace is accepted when every logged line has been consumed with verdict ok *)
Finished == verdict # "ok" \/ i > Len(Events[t].file)
=============================================================================
