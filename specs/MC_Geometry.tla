---------------------------- MODULE MC_Geometry ----------------------------
(* Bounded instances of Geometry.tla: families of shapes on the half-pixel lattice (U = 2),  *)
(* a call/return state machine per operation, and the in-model invariants (Impl refines Ref). *)
(* Every returning state is one test case for the real package (binding B).                   *)
EXTENDS Geometry

CONSTANTS Family,        \* set of shapes (units 1/2 pixel)
          Ops,           \* subset of {"contains", "bbox", "mask", "rotate"}
          WLo, WHi,      \* query window (units) for contains / rotate
          SubN,          \* sub-sampling factors for "mask"
          Pivots, RotDirs

U0 == 2
M1 == -1
M2 == -2
M4 == -4
M8 == -8
M10 == -10
M12 == -12
M14 == -14
M16 == -16
M20 == -20

OpsContains == {"contains"}
OpsBBox == {"bbox"}
OpsMask == {"mask"}
OpsRotate == {"rotate"}
OpsModes == {"modes"}
OpsToPolygon == {"to_polygon"}
OpsCB == {"contains", "bbox"}
N1 == {1}
NQuick == {1, 2, 3, 5}
NBig == {12}
NAll == 1..12
NHuge == {33, 64}        \* far beyond the counts anyone tests with: the mask is still the exact fraction of the n x n sample centres
PivQuick == {<<0, 0>>, <<3, -2>>}
PivOne == {<<3, -2>>}
DirsThree == {<<3, 4, 5>>, <<-12, 5, 13>>, <<0, 1, 1>>}
PivAll == {<<0, 0>>, <<3, -2>>, <<-7, 5>>, <<1, 1>>}
DirsQuick == {<<3, 4, 5>>, <<-12, 5, 13>>, <<0, 1, 1>>, <<-1, 0, 1>>, <<15, -8, 17>>}
DirsSmall == UNION {Variants(d) : d \in {<<1, 0, 1>>, <<3, 4, 5>>, <<5, 12, 13>>}} \ {<<1, 0, 1>>}
IncAll == {"absent", "T", "F", "1", "0"}

(* ---------------- families ---------------- *)
Circle(cx, cy, r, inc) == [k |-> "circle", cx |-> cx, cy |-> cy, r |-> r, inc |-> inc]
Ell(kind, cx, cy, w, h, d, inc) == [k |-> kind, cx |-> cx, cy |-> cy, w |-> w, h |-> h, d |-> d, inc |-> inc]
Poly(vs, inc) == [k |-> "polygon", vs |-> vs, inc |-> inc]
CAnn(cx, cy, r1, r2, inc) == [k |-> "cannulus", cx |-> cx, cy |-> cy, r1 |-> r1, r2 |-> r2, inc |-> inc]
EAnn(kind, cx, cy, q, d, inc) == [k |-> kind, cx |-> cx, cy |-> cy, w1 |-> q[1], h1 |-> q[2], w2 |-> q[3], h2 |-> q[4], d |-> d, inc |-> inc]
Comp(op, a, b, inc, via) == [k |-> "compound", op |-> op, a |-> a, b |-> b, inc |-> inc, via |-> via]

Sizes == {<<2, 4>>, <<6, 2>>, <<3, 5>>, <<8, 6>>, <<2, 12>>, <<10, 3>>}
FamCircles == {Circle(cx, cy, r, "absent") : cx \in {-1, 0, 1, 2}, cy \in {0, 1}, r \in {1, 2, 3, 5, 8}}
               \cup {Circle(1, 0, 5, inc) : inc \in IncAll}
FamEllipses == {Ell("ellipse", cx, cy, q[1], q[2], d, "absent") : cx \in {0, 1}, cy \in {0, 1}, q \in Sizes, d \in AllDirs}
               \cup {Ell("ellipse", 1, 0, 8, 6, <<4, 3, 5>>, inc) : inc \in IncAll}
FamRectangles == {Ell("rectangle", cx, cy, q[1], q[2], d, "absent") : cx \in {0, 1}, cy \in {0, 1}, q \in Sizes, d \in AllDirs}
               \cup {Ell("rectangle", 1, 0, 8, 6, <<-12, 5, 13>>, inc) : inc \in IncAll}

PolyPool == {
  << <<0, 0>>, <<8, 0>>, <<2, 6>> >>,                                          \* triangle
  << <<0, 0>>, <<2, 6>>, <<8, 0>> >>,                                          \* the same, clockwise
  << <<-4, -3>>, <<7, -2>>, <<9, 6>>, <<-2, 5>> >>,                            \* convex quadrilateral
  << <<0, 0>>, <<8, 2>>, <<2, 3>>, <<3, 9>> >>,                                \* concave quadrilateral
  << <<0, 0>>, <<8, 0>>, <<8, 3>>, <<3, 3>>, <<3, 8>>, <<0, 8>> >>,            \* L
  << <<0, 0>>, <<8, 8>>, <<8, 0>>, <<0, 8>> >>,                                \* bow-tie
  << <<0, -10>>, <<6, 8>>, <<-9, -3>>, <<9, -3>>, <<-6, 8>> >>,               \* pentagram: even-odd # winding
  << <<0, 0>>, <<4, 0>>, <<8, 0>>, <<8, 6>>, <<0, 6>> >>,                      \* collinear vertices
  << <<0, 0>>, <<8, 0>>, <<8, 0>>, <<4, 7>> >>,                                \* duplicated vertex
  << <<-9, 0>>, <<9, 1>>, <<-9, 2>> >> }                                       \* sliver
Shift(vs, t) == [i \in 1..Len(vs) |-> <<vs[i][1] + t[1], vs[i][2] + t[2]>>]
FamPolygons == {Poly(Shift(vs, t), "absent") : vs \in PolyPool, t \in {<<0, 0>>, <<1, 0>>, <<0, 1>>, <<-3, -5>>}}
               \cup {Poly(<< <<0, 0>>, <<8, 8>>, <<8, 0>>, <<0, 8>> >>, inc) : inc \in IncAll}

AnnSizes == {<<2, 4, 6, 8>>, <<4, 2, 10, 3>>, <<1, 1, 9, 12>>}
FamAnnuli == {CAnn(cx, 0, q[1], q[2], inc) : cx \in {0, 1}, q \in {<<1, 3>>, <<2, 5>>, <<4, 9>>, <<7, 8>>}, inc \in {"absent", "F", "0"}}
             \cup {EAnn(kind, cx, 1, q, d, inc) : kind \in {"eannulus", "rannulus"}, cx \in {0, 1}, q \in AnnSizes,
                                                  d \in AllDirs, inc \in {"absent", "F"}}
FamOthers == {[k |-> "point", cx |-> cx, cy |-> cy, inc |-> inc] : cx \in {-3, 0, 1}, cy \in {0, 1}, inc \in IncAll}
             \cup {[k |-> "text", cx |-> cx, cy |-> 1, inc |-> inc] : cx \in {0, 1}, inc \in {"absent", "F"}}
             \cup {[k |-> "line", x1 |-> x1, y1 |-> 0, x2 |-> x2, y2 |-> y2, inc |-> inc] :
                     x1 \in {-3, 0}, x2 \in {-4, 1, 6}, y2 \in {-5, 0, 3}, inc \in {"absent", "F", "0"}}

Leaf(i, inc) ==
  CASE i = 1 -> Circle(0, 0, 6, inc)
    [] i = 2 -> Circle(4, 0, 6, inc)                    \* overlaps 1
    [] i = 3 -> Circle(0, 0, 2, inc)                    \* nested in 1
    [] i = 4 -> Circle(16, 0, 3, inc)                   \* disjoint from 1
    [] i = 5 -> Circle(9, 0, 3, inc)                    \* touches 1
    [] i = 6 -> Ell("rectangle", 1, 1, 8, 4, <<3, 4, 5>>, inc)
    [] i = 7 -> Ell("ellipse", -2, 3, 10, 4, <<5, -12, 13>>, inc)
    [] i = 8 -> Poly(<< <<0, 0>>, <<8, 0>>, <<8, 3>>, <<3, 3>>, <<3, 8>>, <<0, 8>> >>, inc)
    [] i = 9 -> EAnn("rannulus", 2, -1, <<2, 4, 6, 8>>, <<4, 3, 5>>, inc)
    [] i = 10 -> [k |-> "point", cx |-> 21, cy |-> 1, inc |-> inc]                                  \* on a pixel edge (x = 10.5): its own box holds no pixel
    [] i = 11 -> [k |-> "line", x1 |-> 25, y1 |-> -3, x2 |-> 25, y2 |-> 9, inc |-> inc]           \* along a pixel edge (x = 12.5)
    [] i = 12 -> [k |-> "text", cx |-> -19, cy |-> -23, inc |-> inc]                                \* on a pixel corner
OpsAll == {"and", "or", "xor"}
FamPairs ==      \* operator-built: the compound shares region1's meta, hence its include flag
  {Comp(op, Leaf(i, inc), Leaf(j, "absent"), inc, "operator") : i \in 1..9, j \in 1..9, op \in OpsAll, inc \in {"absent", "F"}}
  \cup {Comp(op, Leaf(i, "absent"), Leaf(j, incb), "absent", "operator") : i \in {1, 6}, j \in 1..9, op \in OpsAll, incb \in {"F", "0"}}
  \cup {Comp(op, Leaf(i, "absent"), Leaf(j, "absent"), inc, "ctor") : i \in {1, 2, 6, 8}, j \in 1..9, op \in OpsAll, inc \in {"F", "0", "T"}}
(* operands without area lying exactly on pixel edges: the compound's box is still the union (hull) of the operand boxes *)
FamPairsDegenerate ==
  {Comp(op, Leaf(i, "absent"), Leaf(j, "absent"), "absent", "operator") : i \in {1, 6, 8}, j \in {10, 11, 12}, op \in {"or", "xor"}}
  \cup {Comp("or", Leaf(j, "absent"), Leaf(i, "absent"), "absent", "operator") : i \in {1, 8}, j \in {10, 11, 12}}
  \cup {Comp("or", Leaf(10, "absent"), Leaf(11, "absent"), "absent", "operator")}
Small == {1, 2, 6, 8}
FamDeep ==
  {Comp(o2, Comp(o1, Leaf(i, "absent"), Leaf(j, "absent"), "absent", "operator"), Leaf(l, "absent"), "absent", "operator") :
     i \in Small, j \in Small, l \in {3, 5, 7}, o1 \in OpsAll, o2 \in OpsAll}
  \cup {Comp(o3, Comp(o1, Leaf(i, inc), Leaf(2, "absent"), inc, "operator"),
                 Comp(o2, Leaf(6, "absent"), Leaf(l, "absent"), "absent", "operator"), inc, "operator") :
     i \in {1, 3}, l \in {7, 8, 9}, o1 \in OpsAll, o2 \in OpsAll, o3 \in OpsAll, inc \in {"absent", "F"}}
  \cup {Comp(o3, Leaf(7, "absent"), Comp(o2, Leaf(l, "absent"), Comp(o1, Leaf(1, "absent"), Leaf(2, "absent"), "absent", "operator"),
                                          "absent", "operator"), "absent", "operator") :
     l \in {3, 6, 9}, o1 \in OpsAll, o2 \in OpsAll, o3 \in OpsAll}

(* mask families: smaller shapes so that the n-fold refined lattice stays within 32-bit squares *)
MaskDirs == UNION {Variants(d) : d \in {<<1, 0, 1>>, <<3, 4, 5>>, <<5, 12, 13>>}}
FamMaskSimple ==
  {Circle(cx, cy, r, "absent") : cx \in {0, 1}, cy \in {0, 1}, r \in {1, 2, 3, 5}}
  \cup {Ell(kind, cx, 1, q[1], q[2], d, "absent") : kind \in {"ellipse", "rectangle"}, cx \in {0, 1},
                                                   q \in {<<2, 4>>, <<6, 2>>, <<3, 5>>, <<8, 6>>}, d \in MaskDirs}
  \cup {Poly(Shift(vs, t), "absent") : vs \in PolyPool, t \in {<<0, 0>>, <<1, 1>>}}
FamMaskCompound ==
  {CAnn(cx, 0, q[1], q[2], inc) : cx \in {0, 1}, q \in {<<1, 3>>, <<2, 5>>, <<4, 9>>}, inc \in {"absent", "F"}}
  \cup {EAnn(kind, cx, 1, q, d, "absent") : kind \in {"eannulus", "rannulus"}, cx \in {0, 1}, q \in AnnSizes, d \in MaskDirs}
  \cup FamPairs \cup FamDeep
FamRectHuge == {Ell("rectangle", cx, 1, q[1], q[2], d, "absent") : cx \in {0, 1}, q \in {<<6, 2>>, <<3, 5>>}, d \in {<<1, 0, 1>>, <<0, 1, 1>>}}       \* (rotated shapes overflow 32-bit squares on the 64-fold refined lattice)
               \cup {Poly(<< <<0, 0>>, <<7, 1>>, <<2, 6>> >>, "absent"), Circle(1, 0, 3, "absent")}
FamUnsupported == FamOthers

FamSimple == FamCircles \cup FamEllipses \cup FamRectangles \cup FamPolygons \cup FamAnnuli \cup FamOthers
FamCompound == FamPairs \cup FamDeep \cup FamPairsDegenerate
FamAll == FamSimple \cup FamCompound

(* ---------------- state machine ---------------- *)
VARIABLES shape, op, arg, res, pc
vars == <<shape, op, arg, res, pc>>

WPts == [i \in 1..((WHi - WLo + 1) * (WHi - WLo + 1)) |->
           <<WLo + ((i - 1) % (WHi - WLo + 1)), WLo + ((i - 1) \div (WHi - WLo + 1))>>]
Code(t) == CASE t = "IN" -> 1 [] t = "OUT" -> 0 [] OTHER -> 2
Answers(s) == [i \in 1..Len(WPts) |-> Code(Member(s, WPts[i]))]

Args(o) == CASE o = "mask" -> SubN
             [] o = "rotate" -> Pivots \X RotDirs
             [] OTHER -> {0}

Init == /\ shape \in Family /\ op \in Ops /\ arg \in Args(op) /\ res = <<>> /\ pc = "call"

Apply ==
  CASE op = "contains" -> [win |-> Answers(shape)]
    [] op = "bbox" -> BoxOf(shape, U0)
    [] op = "mask" -> LET s2 == Scale(shape, arg)  u2 == U0 * arg
                      IN [box |-> BoxOf(s2, u2).box, aligned |-> BoxOf(s2, u2).aligned, grid |-> MaskRef(s2, u2, arg)]
    [] op = "modes" -> [m \in 1..3 |-> Supported(shape, Modes[m])]
    [] op = "to_polygon" -> IF shape.k = "rectangle" THEN [poly |-> ToPolygon2h(shape), scale |-> 2 * shape.d[3], win |-> Answers(shape)]
                            ELSE [poly |-> <<>>, scale |-> 0, win |-> Answers(shape)]
    [] op = "rotate" -> [rot |-> Rotate(shape, arg[1], arg[2]), win |-> Answers(shape),
                         area |-> IF shape.k = "compound" THEN <<0, 0, 0>> ELSE Area(shape)]

Return == pc = "call" /\ pc' = "ret" /\ res' = Apply /\ UNCHANGED <<shape, op, arg>>
Next == Return
Spec == Init /\ [][Next]_vars
Done == pc = "ret"

(* ---------------- invariants: Impl refines Ref inside the model ---------------- *)
WSet == {WPts[i] : i \in 1..Len(WPts)}

(* annulus built as xor of helpers sharing the meta = outer minus inner, for every include flag *)
InvAnnulusXor == Done /\ op = "contains" /\ IsAnnulus(shape) =>
                   \A p \in WSet : Member(AnnulusAsXor(shape), p) = Member(shape, p)
(* an excluded region answers the exact complement *)
InvComplement == Done /\ op = "contains" =>
                   \A p \in WSet : Member([shape EXCEPT !.inc = "F"], p) = Not3(Member([shape EXCEPT !.inc = "absent"], p))
(* membership commutes with integer translation and with scaling of all lengths *)
InvEquivariant == Done /\ op = "contains" =>
                   \A p \in WSet : /\ Member(Translate(shape, 7, -3), <<p[1] + 7, p[2] - 3>>) = Member(shape, p)
                                   /\ Member(Scale(shape, 3), <<3 * p[1], 3 * p[2]>>) = Member(shape, p)
(* every member point lies inside the box's pixel-edge extent *)
InvEnclosed == Done /\ op = "bbox" =>
                   \A p \in WSet : Member(ShapeOnly(shape), p) = "IN" =>
                        /\ res.box[1] * U0 - 1 <= p[1] /\ p[1] <= res.box[2] * U0 - 1
                        /\ res.box[3] * U0 - 1 <= p[2] /\ p[2] <= res.box[4] * U0 - 1
(* the box translates with the shape by whole pixels *)
InvBoxTranslates == Done /\ op = "bbox" =>
                   LET b == BoxOf(Translate(shape, 3 * U0, -5 * U0), U0).box
                   IN b = <<res.box[1] + 3, res.box[2] + 3, res.box[3] - 5, res.box[4] - 5>>
(* compound/annulus centre mask: pad-then-operate (Impl) = sampled membership on the union box (Ref) *)
InvMaskImpl == Done /\ op = "mask" /\ arg = 1 /\ (shape.k = "compound" \/ IsAnnulus(shape)) =>
                   LET impl == MaskImpl(shape, U0) IN
                   /\ Len(impl) = Len(res.grid)
                   /\ \A j \in 1..Len(impl) : /\ Len(impl[j]) = Len(res.grid[j])
                                              /\ \A i \in 1..Len(impl[j]) :
                                                   impl[j][i] = -1 \/ res.grid[j][i] = -1 \/ impl[j][i] = res.grid[j][i]
(* a mask value counts samples; centre masks hold only 0 and 1 *)
InvMaskRange == Done /\ op = "mask" =>
                   \A j \in 1..Len(res.grid) : \A i \in 1..Len(res.grid[j]) :
                       res.grid[j][i] \in (-1)..(arg * arg)
(* the mask translates with the shape by whole pixels *)
InvMaskTranslates == Done /\ op = "mask" /\ arg \in {1, 2} =>
                   LET s2 == Scale(shape, arg)  u2 == U0 * arg
                   IN MaskRef(Translate(s2, 3 * u2, -5 * u2), u2, arg) = res.grid
(* the polygon of a rectangle's corners has the rectangle's membership (positions in the EDGE band of either excepted), and   *)
(* every corner lies on the rectangle's boundary                                                                            *)
InvToPolygon == Done /\ op = "to_polygon" /\ shape.k = "rectangle" =>
                   LET m == res.scale IN
                   /\ \A p \in WSet : LET a == Member(shape, p)  b == Member(res.poly, <<m * p[1], m * p[2]>>)
                                       IN a = "EDGE" \/ b = "EDGE" \/ a = b
                   /\ \A k \in 1..4 : Member(ScaleDirs(Scale(Plain(shape), m), 1), res.poly.vs[k]) = "EDGE"
(* rotation: a rotated position is a member of the rotated region iff the original was; area kept *)
InvRotate == Done /\ op = "rotate" =>
                   /\ \A p \in WSet : Member(res.rot, RotPoint(p, arg[1], arg[2])) = Member(shape, p)
                   /\ shape.k # "compound" =>
                        LET a0 == Area(shape)  a1 == Area(res.rot)  h2 == Sq(arg[2][3])
                        IN a1[1] * a0[3] = a0[1] * h2 * a1[3] /\ a1[2] * a0[3] = a0[2] * h2 * a1[3]
(* rotating back by the inverse direction restores every parameter (expressed in units 1/(U h^2)) *)
InvRotateBack == Done /\ op = "rotate" =>
                   LET e == arg[2]  back == Rotate(res.rot, <<arg[1][1] * e[3], arg[1][2] * e[3]>>, DirInv(e))
                   IN back = ScaleDirs(Scale(shape, Sq(e[3])), Sq(e[3]))
=============================================================================
