----------------------------- MODULE Trace_Wcs7 -----------------------------
(* Validates recorded to_pixel results against the pixel image the model intended: sizes in     *)
(* 1e-6 pixel within tol_size_ppb (parts per 1e9), angle in 1e-6 rad within tol_ang_urad.         *)
EXTENDS Integers, Sequences, FiniteSets, TLC, Json, IOUtils
Events == JsonDeserialize(IOEnv.TRACE_FILE)
Abs(x) == IF x < 0 THEN -x ELSE x
TwoPi == 6283185
SizeOK(g, w, ppb) == Abs(g - w) <= 1 + (((w \div 1000) * (ppb \div 100)) \div 10000)         \* |g - w| <= w * ppb * 1e-9 (+1 rounding unit)
AngOK(g, w, tol) == Abs(g - w) <= tol + 1 \/ Abs(Abs(g - w) - TwoPi) <= tol + 1
Verdict(e) ==
  LET fs == DOMAIN e.want \ {"ang"} IN
  IF \E f \in fs : ~SizeOK(e.got[f], e.want[f], e.tol_size_ppb) THEN "size_not_angular_size_over_scale"
  ELSE IF "ang" \in DOMAIN e.want /\ ~AngOK(e.got["ang"], e.want["ang"], e.tol_ang_urad) THEN "angle_not_sky_angle_plus_north_minus_90"
  ELSE "ok"
VARIABLES i, verdict
Init == i \in 1..Len(Events) /\ verdict = Verdict(Events[i])
Next == UNCHANGED <<i, verdict>>
Spec == Init /\ [][Next]_<<i, verdict>>
=============================================================================
