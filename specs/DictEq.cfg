SPECIFICATION Spec
INVARIANT Reflexive
INVARIANT SeesEntry
CHECK_DEADLOCK FALSE
