------------------------------ MODULE Selector ------------------------------
(* The matplotlib selector of a rectangle / ellipse region (as_mpl_selector, _update_from_mpl_selector in      *)
(* regions/shapes/rectangle.py and ellipse.py): a two-party state machine - the region and the widget.        *)
(* Not one of the listed properties: part of the growth of the specification (DESIGN.md section 11).            *)
(* Coordinates are integers (pixel edges on a lattice); the centre is kept doubled (cx2 = 2 cx).                *)
(* reg = [cx2, cy2, w, h, rot] ; sel = the widget's extents <<x0, x1, y0, y1>> or None ; calls = number of      *)
(* user-callback invocations.  Every state records (pre, act, out) and is one implementation test.              *)
EXTENDS Integers, Sequences, FiniteSets, TLC
CONSTANTS Coords,        \* lattice of edge coordinates
          MaxDepth

None == <<>>
Edges(r) == <<(r.cx2 - r.w) \div 2, (r.cx2 + r.w) \div 2, (r.cy2 - r.h) \div 2, (r.cy2 + r.h) \div 2>>
Extents == {<<x0, x1, y0, y1>> \in Coords \X Coords \X Coords \X Coords : x0 <= x1 /\ y0 <= y1}
Regions0 == {[cx2 |-> 2 * c, cy2 |-> 2 * d, w |-> w, h |-> h, rot |-> rot] : c \in {2, 3}, d \in {2}, w \in {2, 4}, h \in {2}, rot \in {FALSE, TRUE}}

VARIABLES reg, sel, attached, sync, hascb, calls, pre, act, out, depth
vars == <<reg, sel, attached, sync, hascb, calls, pre, act, out, depth>>
Snap == [reg |-> reg, sel |-> sel, attached |-> attached, sync |-> sync, hascb |-> hascb, calls |-> calls]
Init == /\ reg \in Regions0 /\ sel = None /\ attached = FALSE /\ sync = FALSE /\ hascb = FALSE /\ calls = 0
        /\ pre = None /\ act = [a |-> "init"] /\ out = "ok" /\ depth = 0
Step(a, o) == pre' = Snap /\ act' = a /\ out' = o /\ depth' = depth + 1

(* ---- as_mpl_selector(ax, sync=, callback=) ---- *)
Attach(sy, cb) ==
  LET a == [a |-> "attach", sync |-> sy, callback |-> cb] IN
  IF attached THEN Step(a, "AttributeError") /\ UNCHANGED <<reg, sel, attached, sync, hascb, calls>>        \* one selector per region
  ELSE IF reg.rot THEN Step(a, "NotImplementedError") /\ UNCHANGED <<reg, sel, attached, sync, hascb, calls>>
  ELSE /\ Step(a, "ok") /\ sel' = Edges(reg) /\ attached' = TRUE /\ sync' = sy /\ hascb' = cb
       /\ calls' = IF sy /\ cb THEN calls + 1 ELSE calls            \* the callback is called once when the selector is created
       /\ UNCHANGED reg

(* ---- the user makes a selection: the widget takes the new extents and calls onselect ---- *)
(* _update_from_mpl_selector assigns centre, width, height, angle one after the other: a zero-sized selection   *)
(* (a click without a drag) is refused by the width/height descriptor AFTER the centre has been moved           *)
Select(e) ==
  LET a == [a |-> "select", extents |-> e]
      moved == [reg EXCEPT !.cx2 = e[1] + e[2], !.cy2 = e[3] + e[4]]
      w2 == e[2] - e[1]  h2 == e[4] - e[3] IN
  /\ attached /\ sel' = e /\ UNCHANGED <<attached, sync, hascb>>
  /\ IF ~sync THEN Step(a, "ok") /\ UNCHANGED <<reg, calls>>                                      \* disconnected: the region does not follow
     ELSE IF w2 = 0 THEN Step(a, "ValueError") /\ reg' = moved /\ UNCHANGED calls                     \* (sic) partial update: centre moved, size kept
     ELSE IF h2 = 0 THEN Step(a, "ValueError") /\ reg' = [moved EXCEPT !.w = w2] /\ UNCHANGED calls    \* (sic) centre and width updated
     ELSE Step(a, "ok") /\ reg' = [moved EXCEPT !.w = w2, !.h = h2, !.rot = FALSE] /\ calls' = IF hascb THEN calls + 1 ELSE calls

(* ---- the user edits the region directly: the widget does not follow (synchronisation is one-way) ---- *)
MoveRegion(c2) ==
  /\ Step([a |-> "assign_center", cx2 |-> c2], "ok") /\ reg' = [reg EXCEPT !.cx2 = c2]
  /\ UNCHANGED <<sel, attached, sync, hascb, calls>>

Next == /\ depth < MaxDepth
        /\ \/ \E sy \in BOOLEAN, cb \in BOOLEAN : Attach(sy, cb)
           \/ \E e \in Extents : Select(e)
           \/ \E c \in {4, 8} : MoveRegion(c)
Spec == Init /\ [][Next]_vars

(* ---------------- properties ---------------- *)
RegionValid == reg.w > 0 /\ reg.h > 0
(* the widget depicts the region when it is created, and the region follows every accepted selection *)
DepictsOnCreate == act.a = "attach" /\ out = "ok" => sel = Edges(reg)
FollowsSelection == act.a = "select" /\ out = "ok" /\ sync => Edges(reg) = sel /\ ~reg.rot
Disconnected == act.a = "select" /\ ~sync => reg = pre.reg /\ calls = pre.calls
OneSelector == act.a = "attach" /\ pre # None /\ pre.attached => out = "AttributeError" /\ reg = pre.reg /\ sel = pre.sel
OneWay == act.a = "assign_center" => sel = pre.sel
CallbackOnlyOnSuccess == depth > 0 /\ out # "ok" => calls = pre.calls
(* what one would like and the code does not give (violated by the (sic) branches above; checked to be violated as a self-test) *)
SelectAtomic == act.a = "select" /\ out # "ok" => reg = pre.reg
=============================================================================
