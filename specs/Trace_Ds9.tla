------------------------------ MODULE Trace_Ds9 ------------------------------
(* Validates files parsed by the real DS9 reader: event = [file (abstract lines), out (observed  *)
(* regions projected to integers: sky values in mas, pixel values in mpix), warn].  The expected  *)
(* regions are Ds9!Ds9Meaning(file); numbers agree within 2 units of the projection (1e-9 rel).    *)
EXTENDS Ds9, Json, IOUtils
Events == JsonDeserialize(IOEnv.TRACE_FILE)
Abs(x) == IF x < 0 THEN -x ELSE x
Full == 1296000000                                   \* 360 degrees in mas
Mas(v) == IF v.u = "mpix" THEN v.v ELSE v.v          \* (urad tokens are not generated for traces)
CloseLon(a, b) == Abs(a - b) <= 3 \/ Abs(Abs(a - b) - Full) <= 3
Close(a, b) == Abs(a - b) <= 3
RegionOK(m, g) ==
  /\ m.cls = g.cls /\ m.frame = g.frame
  /\ Len(m.pos) = Len(g.pos) /\ \A j \in 1..Len(m.pos) : IF j % 2 = 1 /\ m.frame # "image" THEN CloseLon(Mas(m.pos[j]), g.pos[j]) ELSE Close(Mas(m.pos[j]), g.pos[j])
  /\ Len(m.sizes) = Len(g.sizes) /\ \A j \in 1..Len(m.sizes) : Close(Mas(m.sizes[j]), g.sizes[j])
  /\ (m.ang.u # "none" => Close(m.ang.v, g.ang))
  /\ m.props.include = g.inc
  /\ ("text" \in DOMAIN m.props => m.props.text = g.text)
  /\ (IF "color" \in DOMAIN m.props THEN m.props.color = g.color ELSE g.color = "-")
Clause(m, g) ==
  IF m.cls # g.cls THEN "class" ELSE IF m.frame # g.frame THEN "frame"
  ELSE IF ~(Len(m.pos) = Len(g.pos) /\ \A j \in 1..Len(m.pos) : IF j % 2 = 1 /\ m.frame # "image" THEN CloseLon(Mas(m.pos[j]), g.pos[j]) ELSE Close(Mas(m.pos[j]), g.pos[j])) THEN "position"
  ELSE IF ~(Len(m.sizes) = Len(g.sizes) /\ \A j \in 1..Len(m.sizes) : Close(Mas(m.sizes[j]), g.sizes[j])) THEN "size"
  ELSE IF m.ang.u # "none" /\ ~Close(m.ang.v, g.ang) THEN "angle"
  ELSE IF m.props.include # g.inc THEN "include"
  ELSE IF "text" \in DOMAIN m.props /\ m.props.text # g.text THEN "text" ELSE "color_precedence_or_leak"
Check(e) ==
  LET s == ReadAll(e.file)  m == s.out IN
  IF Len(m) # Len(e.out) THEN <<"region_count", 0>>
  ELSE LET bad == {j \in 1..Len(m) : ~RegionOK(m[j], e.out[j])} IN
       IF bad # {} THEN LET j == CHOOSE x \in bad : \A y \in bad : x <= y IN <<Clause(m[j], e.out[j]), j>>
       ELSE IF s.warn # e.warn THEN <<"skip_warning_count", 0>> ELSE <<"ok", 0>>
VARIABLES i, verdict, at
Init == i \in 1..Len(Events) /\ verdict = Check(Events[i])[1] /\ at = Check(Events[i])[2]
Next == UNCHANGED <<i, verdict, at>>
Spec == Init /\ [][Next]_<<i, verdict, at>>
=============================================================================
