----------------------------- MODULE Ds9Visual -----------------------------
(* The DS9 <-> matplotlib translation of visual properties (regions/io/ds9/meta.py):                  *)
(*   ToVisual = _translate_ds9_to_visual after _split_raw_metadata and the RegionVisual key mapping   *)
(*             (width -> linewidth), with its shape-dependent filtering;                               *)
(*   ToDs9    = _translate_metadata_to_ds9 restricted to the visual keys.                              *)
(* Both are transcribed case by case; "A" stands for an absent key.  The state machine is             *)
(* parse (ToVisual) -> serialise (ToDs9) -> parse again; every state is one implementation test.       *)
EXTENDS Integers, Sequences, FiniteSets, TLC
CONSTANTS Shapes, Colors, Fills, Dashes, Dashlists, Widths, Points, Fonts, Angles, Rotates

A == "A"
Fillable == {"circle", "ellipse", "box", "polygon"}
NoColorSplit == {"point", "line", "text"}

(* ---- lexical tables ---- *)
Marker(sym) == CASE sym = "circle" -> "o" [] sym = "box" -> "s" [] sym = "diamond" -> "D" [] sym = "x" -> "x" [] sym = "cross" -> "+"
SymbolOf(m) == CASE m = "o" -> "circle" [] m = "s" -> "box" [] m = "D" -> "diamond" [] m = "x" -> "x" [] m = "+" -> "cross"
PointParts(pt) == CASE pt = "cross" -> <<"cross">> [] pt = "cross 12" -> <<"cross", "12">> [] pt = "diamond 7" -> <<"diamond", "7">> [] pt = "x" -> <<"x">> [] pt = "circle" -> <<"circle">>
FontParts(f) == CASE f = "times" -> <<"times">> [] f = "times 14" -> <<"times", "14">> [] f = "times 14 bold" -> <<"times", "14", "bold">>
                  [] f = "times 14 bold italic" -> <<"times", "14", "bold", "italic">>
                  [] f = "helvetica 10 normal roman" -> <<"helvetica", "10", "normal", "roman">>
Join2(a, b) == a \o " " \o b

NoVisual == [color |-> A, facecolor |-> A, edgecolor |-> A, fill |-> A, linestyle |-> A, linewidth |-> A, markeredgewidth |-> A,
             marker |-> A, markersize |-> A, fontname |-> A, fontsize |-> A, fontweight |-> A, fontstyle |-> A, rotation |-> A, textrotate |-> A]

(* ---- DS9 properties -> visual ---- *)
ToVisual(shape, p) ==
  LET fill == IF p.fill = "1" /\ shape \in Fillable THEN "T" ELSE A
      ls0 == IF p.dash = "1" THEN (IF p.dashlist # A THEN "dashes " \o p.dashlist ELSE "dashed") ELSE A
      ls == IF shape = "point" THEN A ELSE ls0                           \* dashed lines are unsupported for points (warning)
      pp == IF p.point = A THEN <<>> ELSE PointParts(p.point)
      marker0 == IF pp = <<>> THEN A ELSE Marker(pp[1])
      msize0 == IF Len(pp) = 2 THEN pp[2] ELSE A
      fp == IF p.font = A THEN <<>> ELSE FontParts(p.font)
      fname == IF fp = <<>> THEN A ELSE fp[1]
      fsize == IF fp = <<>> THEN A ELSE IF Len(fp) >= 2 THEN fp[2] ELSE "10"
      fweight == IF fp = <<>> THEN A ELSE IF Len(fp) >= 3 THEN fp[3] ELSE "normal"
      fstyle0 == IF fp = <<>> THEN A ELSE IF Len(fp) >= 4 THEN fp[4] ELSE "normal"
      fstyle == IF fstyle0 = "roman" THEN "normal" ELSE fstyle0
      ispoint == shape = "point"
      istext == shape = "text"
      (* text: textangle is consumed; it becomes the rotation unless textrotate = 0; textrotate is consumed only together with textangle *)
      rotation == IF istext /\ p.textangle # A /\ p.textrotate # "0" THEN p.textangle ELSE A
      textrotate == IF istext /\ p.textangle = A THEN p.textrotate ELSE A
      split == shape \notin NoColorSplit
  IN [NoVisual EXCEPT
        !.fill = IF istext THEN A ELSE fill,
        !.linestyle = IF istext THEN A ELSE ls,
        !.marker = IF ispoint THEN marker0 ELSE A,
        !.markersize = IF ispoint THEN msize0 ELSE A,
        !.markeredgewidth = IF ispoint THEN p.width ELSE A,
        !.linewidth = IF ispoint THEN A ELSE p.width,              \* (sic) also for text: 'linewidth' is filtered before the key mapping renames 'width'
        !.fontname = fname, !.fontsize = fsize, !.fontweight = fweight, !.fontstyle = fstyle,
        !.rotation = rotation, !.textrotate = textrotate,
        !.color = IF split THEN A ELSE p.color,
        !.facecolor = IF split THEN p.color ELSE A,
        !.edgecolor = IF split THEN p.color ELSE A]

(* ---- visual -> DS9 properties ---- *)
NoProps == [color |-> A, fill |-> A, dash |-> A, dashlist |-> A, width |-> A, point |-> A, font |-> A, textangle |-> A, textrotate |-> A]
ToDs9(shape, v) ==
  [NoProps EXCEPT
     !.fill = IF shape = "annulus" THEN A ELSE IF v.fill = "T" THEN "1" ELSE A,
     !.color = IF v.edgecolor # A THEN v.edgecolor ELSE IF v.facecolor # A THEN v.facecolor ELSE v.color,
     !.width = IF v.markeredgewidth # A THEN v.markeredgewidth ELSE v.linewidth,
     !.point = IF v.marker = A THEN A ELSE IF v.markersize # A THEN Join2(SymbolOf(v.marker), v.markersize) ELSE SymbolOf(v.marker),
     !.font = IF v.fontname = A THEN A
              ELSE Join2(Join2(Join2(v.fontname, IF v.fontsize = A THEN "10" ELSE v.fontsize), IF v.fontweight = A THEN "normal" ELSE v.fontweight),
                         IF v.fontstyle \in {A, "normal"} THEN "roman" ELSE v.fontstyle),
     !.dash = IF v.linestyle \notin {A, "solid"} THEN "1" ELSE A,               \* a solid line is not a dashed one
     !.dashlist = IF v.linestyle \notin {A, "dashed", "solid"} THEN "8 3" ELSE A,
     !.textangle = v.rotation,
     !.textrotate = v.textrotate]
(* the font string written is always the 4-part form; reading it back needs its parts *)
FontPartsW(f) == IF f \in Fonts THEN FontParts(f)
                 ELSE CASE f = "times 10 normal roman" -> <<"times", "10", "normal", "roman">> [] f = "times 14 normal roman" -> <<"times", "14", "normal", "roman">>
                        [] f = "times 14 bold roman" -> <<"times", "14", "bold", "roman">> [] f = "times 10 bold roman" -> <<"times", "10", "bold", "roman">>
                        [] f = "times 10 normal italic" -> <<"times", "10", "normal", "italic">> [] f = "times 10 bold italic" -> <<"times", "10", "bold", "italic">>
                        [] f = "times 14 normal italic" -> <<"times", "14", "normal", "italic">> [] f = "times 14 bold italic" -> <<"times", "14", "bold", "italic">>

(* ---- state machine: parse, serialise, parse again ---- *)
VARIABLES shape, props, vis1, out, vis2, pc
vars == <<shape, props, vis1, out, vis2, pc>>
Props == [color : Colors, fill : Fills, dash : Dashes, dashlist : Dashlists, width : Widths, point : Points, font : Fonts,
          textangle : Angles, textrotate : Rotates]
Init == shape \in Shapes /\ props \in Props /\ vis1 = NoVisual /\ out = NoProps /\ vis2 = NoVisual /\ pc = "parse"
Parse == pc = "parse" /\ vis1' = ToVisual(shape, props) /\ pc' = "serialize" /\ UNCHANGED <<shape, props, out, vis2>>
Serialize == pc = "serialize" /\ out' = ToDs9(shape, vis1) /\ pc' = "reparse" /\ UNCHANGED <<shape, props, vis1, vis2>>
(* the second parse reads what was written: fonts come back in the 4-part form *)
ToVisualW(sh, p) == LET q == [p EXCEPT !.font = A] IN
                    IF p.font = A THEN ToVisual(sh, p)
                    ELSE LET fp == FontPartsW(p.font) IN
                         [ToVisual(sh, q) EXCEPT !.fontname = fp[1], !.fontsize = fp[2], !.fontweight = fp[3],
                                                 !.fontstyle = IF fp[4] = "roman" THEN "normal" ELSE fp[4]]
Reparse == pc = "reparse" /\ vis2' = ToVisualW(shape, out) /\ pc' = "done" /\ UNCHANGED <<shape, props, vis1, out>>
Next == Parse \/ Serialize \/ Reparse
Spec == Init /\ [][Next]_vars
Done == pc = "done"

(* ---- a second entry point: visual attributes given through the API (as a matplotlib user writes them), serialised first ---- *)
(* what the writer assumes for what is not given (font size 10, weight normal, style roman) is what DS9 assumes, so that the text *)
(* written and the attributes read back from it describe the same appearance, and from then on the cycle is a fixed point            *)
Opt(x) == {A, x}
ApiVisuals(sh) ==
  LET fonts == IF sh = "text" THEN {[n |-> "times", z |-> z, w |-> w, t |-> t] : z \in Opt("14"), w \in Opt("bold"), t \in {A, "italic", "normal"}} \cup {[n |-> A, z |-> A, w |-> A, t |-> A]}
               ELSE {[n |-> A, z |-> A, w |-> A, t |-> A]}
      lines == IF sh \in {"point", "text"} THEN {A} ELSE {A, "dashed", "dashes 8 3", "solid"}
      marks == IF sh = "point" THEN {<<A, A>>, <<"o", A>>, <<"D", "7">>} ELSE {<<A, A>>}
      fills == IF sh \in Fillable THEN {A, "T"} ELSE {A}
  IN {[NoVisual EXCEPT !.fontname = f.n, !.fontsize = f.z, !.fontweight = f.w, !.fontstyle = f.t, !.linestyle = l, !.marker = m[1], !.markersize = m[2],
                       !.fill = fl, !.edgecolor = c, !.linewidth = IF sh = "point" THEN A ELSE lw, !.markeredgewidth = IF sh = "point" THEN lw ELSE A] :
        f \in fonts, l \in lines, m \in marks, fl \in fills, c \in Opt("red"), lw \in Opt("3")}
InitW == shape \in Shapes /\ props = NoProps /\ vis1 \in ApiVisuals(shape) /\ out = NoProps /\ vis2 = NoVisual /\ pc = "serialize"
SpecW == InitW /\ [][Next]_vars
WriterDefaultsAreDs9s == Done /\ vis1.fontname # A =>
                           /\ vis2.fontsize = (IF vis1.fontsize = A THEN "10" ELSE vis1.fontsize)
                           /\ vis2.fontweight = (IF vis1.fontweight = A THEN "normal" ELSE vis1.fontweight)
                           /\ vis2.fontstyle = (IF vis1.fontstyle = A THEN "normal" ELSE vis1.fontstyle)
SecondCycleFixed == Done => ToVisualW(shape, ToDs9(shape, vis2)) = vis2
Solid(l) == IF l = "solid" THEN A ELSE l                   \* DS9 has no word for "solid": no dash property means a solid line
LineStyleSurvives == Done => vis2.linestyle = Solid(vis1.linestyle)

(* ---------------- properties ---------------- *)
(* parsing, serialising and parsing again returns the visual attributes of the first parse *)
FixedPoint == Done => vis2 = vis1
(* shape-dependent filtering *)
TextHasNoLineProps == Done /\ shape = "text" => vis1.fill = A /\ vis1.linestyle = A
OnlyPointsHaveMarkers == Done /\ shape # "point" => vis1.marker = A /\ vis1.markersize = A /\ vis1.markeredgewidth = A
PointsAreNotDashed == Done /\ shape = "point" => vis1.linestyle = A /\ vis1.linewidth = A
OnlyFillableIsFilled == Done /\ vis1.fill = "T" => shape \in Fillable
ColourGoesToTheRightKeys == Done => IF shape \in NoColorSplit THEN vis1.color = props.color /\ vis1.facecolor = A /\ vis1.edgecolor = A
                                   ELSE vis1.color = A /\ vis1.facecolor = props.color /\ vis1.edgecolor = props.color
OnlyTextRotates == Done /\ shape # "text" => vis1.rotation = A /\ vis1.textrotate = A
(* nothing a reader understood is lost by the writer, except the documented cases (textangle with textrotate=0) *)
ColourSurvives == Done => out.color = props.color
WidthSurvives == Done => out.width = props.width
=============================================================================
