------------------------------- MODULE FieldEq -------------------------------
(* C16: "equality ... fails as soon as the class [or] any shape parameter ... differs" - single-field   *)
(* perturbations of every field of every class.  Two regions of one class are built from the same        *)
(* representative arguments except for one field, which gets the valid tokens t1 and t2 of its kind       *)
(* (Objects!ValidTok; cross-field constraints respected); they are equal exactly when the two tokens       *)
(* denote the same value (Objects!SameValue: unit re-expressions, sub-tolerance pixel offsets).            *)
(* Every state is one implementation test (==, != in both directions, and the same through copy(f = t)).   *)
EXTENDS MC_Objects

VARIABLES cls, field, t1, t2, want, rep
fvars == <<cls, field, t1, t2, want, rep>>
(* representative arguments without a search over the product of the token sets: the smallest size for inner fields, the largest for outer ones *)
InnerFields == {"inner_radius", "inner_width", "inner_height"}
OuterFields == {"outer_radius", "outer_width", "outer_height"}
RepTok(c, f) == LET k == KindOf(c, f) IN
  CASE k = "pos" -> (IF f \in InnerFields THEN "f1_5" ELSE IF f \in OuterFields THEN "f4u" ELSE "i3")
    [] k = "posang" -> (IF f \in InnerFields THEN "q1as" ELSE IF f \in OuterFields THEN "q2degu" ELSE "q3am")
    [] OTHER -> CHOOSE t \in ValidTok(k) : TRUE
RepTable == [c \in ClsAll |-> [f \in FieldNames(c) |-> RepTok(c, f)]]
Args(c, f, t) == [RepTable[c] EXCEPT ![f] = t]
InitF == /\ cls \in Classes /\ field \in FieldNames(cls)
         /\ t1 \in ValidTok(KindOf(cls, field)) /\ t2 \in ValidTok(KindOf(cls, field))
         /\ Cross(cls, Args(cls, field, t1)) /\ Cross(cls, Args(cls, field, t2))
         /\ want = (IF SameValue(t1, t2) THEN "eq" ELSE "ne") /\ rep = RepTable[cls]
         /\ heap = <<>> /\ dicts = <<>> /\ pre = <<>> /\ act = <<>> /\ out = "-" /\ depth = 0 /\ eq = "-"
NextF == UNCHANGED <<fvars, vars>>
SpecF == InitF /\ [][NextF]_<<fvars, vars>>
(* model-level laws of the value relation *)
Reflexive == t1 = t2 => want = "eq"
Symmetric == SameValue(t1, t2) = SameValue(t2, t1)
=============================================================================
