SPECIFICATION Spec
CONSTANTS MaxLen = 3
 MaxDepth = 3
 Deviations = {}
INVARIANT AllRegions
INVARIANT RejectIsStutter
INVARIANT SourceUnchanged
INVARIANT DerivedUnchanged
CHECK_DEADLOCK FALSE
