------------------------------ MODULE MC_Fits ------------------------------
EXTENDS Fits
G(cls, x, y, r, ang, inc, comp) == [cls |-> cls, x |-> x, y |-> y, r |-> r, ang |-> ang, inc |-> inc, comp |-> comp]
Shapes(inc, comp) == {
  G("point", <<12>>, <<16>>, <<>>, 0, inc, comp),
  G("circle", <<20>>, <<24>>, <<8>>, 0, inc, comp),
  G("ellipse", <<28>>, <<32>>, <<24, 16>>, 120, inc, comp),
  G("cannulus", <<4>>, <<8>>, <<8, 20>>, 0, inc, comp),
  G("eannulus", <<8>>, <<12>>, <<8, 24, 4, 16>>, 180, inc, comp),
  G("eannulus", <<40>>, <<44>>, <<4, 8, 20, 32>>, 40, inc, comp),                    \* tall and thin: the outer width is smaller than the inner height
  G("rectangle", <<16>>, <<16>>, <<12, 8>>, 40, inc, comp),
  G("polygon", <<0, 16, 8>>, <<0, 0, 12>>, <<>>, 0, inc, comp),
  G("polygon", <<4, 20, 24, 12, 0>>, <<4, 0, 16, 28, 12>>, <<>>, 0, inc, comp),
  G("regpoly4", <<128>>, <<96>>, <<10>>, 0, inc, comp),                                 \* regular polygons are written as polygons
  G("polygon", <<0, 16, 16, 0>>, <<0, 0, 12, 12>>, <<>>, 0, inc, comp)}          \* axis-aligned box: the last edge is horizontal
Unsupported == {[cls |-> "line"], [cls |-> "text"], [cls |-> "rannulus"], [cls |-> "compound"], [cls |-> "sky"]}
NC == -1
PoolQuick == UNION {Shapes(inc, comp) : inc \in {"absent", "F", "0", "T"}, comp \in {NC, 0, 40000}} \cup Unsupported      \* component 0 is a given number; 40000 does not fit 16 bits
PoolSmall == UNION {Shapes(inc, comp) : inc \in {"absent", "F"}, comp \in {NC, 0, 100234}} \cup {[cls |-> "line"], [cls |-> "sky"]}
PoolTiny == Shapes("absent", NC) \cup Shapes("0", 5) \cup Shapes("absent", 0) \cup {[cls |-> "compound"]}
NoDev == {}
CodeDev == {"BangBeforeMap"}
=============================================================================
