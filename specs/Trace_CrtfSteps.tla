--------------------------- MODULE Trace_CrtfSteps ---------------------------
(* Per-line trace validation of the real CRTF reader (regions/io/crtf/read.py::_CRTFParser.run).   *)
(* The guarded hook `crtf.read.line` logs, after parse_line has processed each physical line, the  *)
(* parser's persistent state: global_meta and the number of shapes accumulated.  An event is        *)
(* [file |-> abstract physical lines, log |-> logged states]; the only action is Crtf!StepLine and   *)
(* after every step the projection of the model state must equal the logged one.                     *)
EXTENDS Crtf, Json, IOUtils
Events == JsonDeserialize(IOEnv.TRACE_FILE)
VARIABLES t, i, s, verdict
vars == <<t, i, s, verdict>>
Clause(s2, g) == IF g.gmeta # s2.gmeta THEN "global_meta" ELSE IF g.n # Len(s2.out) THEN "shapes" ELSE "ok"
Init == t \in 1..Len(Events) /\ i = 1 /\ s = RSt0
        /\ verdict = IF Len(Events[t].log) # Len(Events[t].file) THEN "line_count" ELSE "ok"
Step == /\ verdict = "ok" /\ i <= Len(Events[t].file)
        /\ LET s2 == StepLine(s, Events[t].file[i]) IN s' = s2 /\ verdict' = Clause(s2, Events[t].log[i])
        /\ i' = i + 1 /\ UNCHANGED t
Next == Step
Spec == Init /\ [][Next]_vars
=============================================================================
