------------------------------- MODULE RegPoly -------------------------------
(* The regular polygon (regions/shapes/polygon.py, RegularPolygonPixelRegion): the vertices it stands for.  *)
(* A regular n-gon of circumradius r about c, rotated by a (counter-clockwise, a = 0 points "up"), has      *)
(* vertex k at distance r from c in the direction 90 + a + k * 360 / n degrees.  Angles are kept exactly,   *)
(* as integers in units of 1/n degree: Dir(n, a, k) = n * (90 + a) + 360 * k.  Everything else about the     *)
(* class (membership, area, box, mask, artist) is that of the PolygonPixelRegion of these vertices.         *)
EXTENDS Integers, Sequences, FiniteSets
CONSTANTS Ns, Angles           \* numbers of vertices, rotation angles in whole degrees

Dir(n, a, k) == n * (90 + a) + 360 * k                      \* in 1/n degree
Vertices(n, a) == [k \in 1..n |-> Dir(n, a, k - 1)]
Turn(n) == 360 * n                                           \* a full turn in 1/n degree
Norm(n, d) == d % Turn(n)
(* derived attributes, as exact rationals <<numerator, denominator>> of degrees *)
Interior(n) == <<(n - 2) * 180, n>>
Exterior(n) == <<360, n>>

VARIABLES n, a, vs, pc
vars == <<n, a, vs, pc>>
Init == n \in Ns /\ a \in Angles /\ vs = <<>> /\ pc = "call"
Build == pc = "call" /\ vs' = Vertices(n, a) /\ pc' = "ret" /\ UNCHANGED <<n, a>>
Next == Build
Spec == Init /\ [][Next]_vars
Done == pc = "ret"

(* the first vertex points up for a = 0 and turns with a *)
FirstVertex == Done => vs[1] = n * (90 + a)
(* consecutive vertices are one n-th of a turn apart, all the way round: the last one is one step before the first *)
EqualSteps == Done => /\ \A k \in 1..(n - 1) : vs[k + 1] - vs[k] = 360
                      /\ Norm(n, vs[n] + 360) = Norm(n, vs[1])
(* n distinct directions *)
Distinct == Done => Cardinality({Norm(n, vs[k]) : k \in 1..n}) = n
(* the set of directions is invariant under a rotation by one step (the n-fold symmetry) *)
Symmetric == Done => {Norm(n, vs[k] + 360) : k \in 1..n} = {Norm(n, vs[k]) : k \in 1..n}
(* interior + exterior angle = 180 degrees *)
AnglesAddUp == Interior(n)[1] + Exterior(n)[1] = 180 * n
=============================================================================
