---------------------------- MODULE Trace_FileIO ----------------------------
(* Validates recorded write calls against FileIO!Outcomes.  Event: [fmt, ow, ser, pre, post,   *)
(* result] with pre/post = [a |-> .., b |-> ..] in the model's encoding (contents classified    *)
(* as "old" / "new" / other by the harness).                                                     *)
EXTENDS Integers, Sequences, FiniteSets, TLC, Json, IOUtils
Events == JsonDeserialize(IOEnv.TRACE_FILE)
F == INSTANCE FileIO WITH Formats <- {"ds9", "crtf", "fits"}, SwapSteps <- FALSE,
                          fs <- <<>>, pc <- "", req <- <<>>, result <- ""
Verdict(e) ==
  LET r == [fmt |-> e.fmt, ow |-> e.ow, ser |-> e.ser, dest |-> "-"]
      outs == F!Outcomes(e.pre, r)
  IN IF <<e.result, e.post>> \in outs THEN "ok"
     ELSE IF e.post # e.pre /\ e.result # "ok" THEN "failed_write_changed_destination"
     ELSE IF e.result = "ok" /\ \A o \in outs : o[1] # "ok" THEN "wrote_where_refusal_required"
     ELSE IF e.result # "ok" /\ \A o \in outs : o[1] = "ok" THEN "refused_where_write_required"
     ELSE "destination_state_not_allowed"
VARIABLES i, verdict
Init == i \in 1..Len(Events) /\ verdict = Verdict(Events[i])
Next == UNCHANGED <<i, verdict>>
Spec == Init /\ [][Next]_<<i, verdict>>
=============================================================================
