--------------------------------- MODULE Crtf ---------------------------------
(* C11: the CASA region text format (regions/io/crtf/read.py, io_core.py, write.py).            *)
(* READER: a line-consuming state machine whose only persistent state is gmeta (the defaults set   *)
(* by "global" lines).  A region line is [sign, ann, kind, toks, props]; inline keys override the    *)
(* global ones, coord= selects the frame (default image), a leading "-" excludes, "ann" marks an     *)
(* annotation, ellipse axes are [major, minor] semi-axes (height = 2*major, width = 2*minor),        *)
(* box / centerbox / rotbox all become rectangles, lengths carry units.                              *)
(* Tokens are [n |-> notation, v |-> integer in the notation's milli-unit]; Meaning gives the         *)
(* canonical value [u |-> "mas" | "urad" | "mpix", v].                                               *)
(* WRITER: ToLine renders a region in the serialiser's coordinate system (identity on the abstract   *)
(* value when the region's frame is the coordsys), sizes in radunit, ellipse axes halved and         *)
(* swapped, label quoted, meta filtered to the CRTF vocabulary.                                      *)
EXTENDS Integers, Sequences, FiniteSets, TLC

Val(u, v) == [u |-> u, v |-> v]
Override(f, g) == [k \in DOMAIN f \cup DOMAIN g |-> IF k \in DOMAIN g THEN g[k] ELSE f[k]]
NoProps == [zz |-> "zz"]
NoAng == Val("none", 0)

FrameOf(name) == CASE name = "J2000" -> "fk5" [] name = "B1950" -> "fk4" [] name = "ICRS" -> "icrs" [] name = "GALACTIC" -> "galactic"
                   [] name = "SUPERGAL" -> "supergalactic" [] name = "ECLIPTIC" -> "geocentrictrueecliptic" [] name \in {"image", "IMAGE"} -> "image"
NameOf(frame) == CASE frame = "fk5" -> "J2000" [] frame = "fk4" -> "B1950" [] frame = "icrs" -> "ICRS" [] frame = "galactic" -> "GALACTIC"
                   [] frame = "supergalactic" -> "SUPERGAL" [] frame = "geocentrictrueecliptic" -> "ECLIPTIC" [] frame = "image" -> "IMAGE"

(* ---------------- lexical layer ---------------- *)
CoordMeaning(t) ==
  CASE t.n \in {"deg", "plain"} -> Val("mas", t.v * 3600)          \* 12.5deg ; a bare number is degrees
    [] t.n = "rad" -> Val("urad", t.v)
    [] t.n \in {"hms", "colon"} -> Val("mas", t.v * 15)             \* 12h34m56.7s and hh:mm:ss.s are hours
    [] t.n = "dots" -> Val("mas", t.v)                             \* dd.mm.ss.s is degrees
    [] t.n = "pix" -> Val("mpix", t.v)
LenMeaning(t) ==
  CASE t.n = "deg" -> Val("mas", t.v * 3600) [] t.n = "rad" -> Val("urad", t.v)
    [] t.n \in {"arcmin", "aminq"} -> Val("mas", t.v * 60) [] t.n \in {"arcsec", "asecq"} -> Val("mas", t.v)
    [] t.n = "pix" -> Val("mpix", t.v)
Twice(x) == Val(x.u, 2 * x.v)
AbsV(x) == Val(x.u, IF x.v < 0 THEN -x.v ELSE x.v)
Mid(a, b) == Val(a.u, (a.v + b.v) \div 2)
Diff(a, b) == AbsV(Val(a.u, a.v - b.v))

(* ---------------- one region line -> one region ---------------- *)
Reg(cls, frame, pos, sizes, ang, inc, typ, props) ==
  [cls |-> cls, frame |-> frame, pos |-> pos, sizes |-> sizes, ang |-> ang, inc |-> inc, typ |-> typ, props |-> props]
Meaning(l, gmeta) ==
  LET props == Override(gmeta, l.props)
      frame == IF "coord" \in DOMAIN props THEN FrameOf(props.coord) ELSE "image"
      rest == [k \in DOMAIN props \ {"coord"} |-> props[k]]
      t0 == l.toks
      (* in the image coordinate system the reader takes the bare numeric value of a coordinate or length as pixels,    *)
      (* whatever unit it carries (the writer itself emits pixel positions with a "deg" suffix)                          *)
      AsPix(x) == IF frame = "image" /\ x.n \in {"deg", "plain", "pix", "arcsec", "arcmin", "asecq", "aminq"} THEN [n |-> "pix", v |-> x.v] ELSE x
      t == [i \in 1..Len(t0) |-> AsPix(t0[i])]
      c == <<CoordMeaning(t[1]), CoordMeaning(t[2])>>
      inc == l.sign # "-"
      typ == IF l.ann THEN "ann" ELSE "reg"
      R(cls, pos, sizes, ang) == Reg(cls, frame, pos, sizes, ang, inc, typ, rest)
  IN CASE l.kind = "circle" -> R("circle", c, <<LenMeaning(t[3])>>, NoAng)
       [] l.kind = "annulus" -> R("cannulus", c, <<LenMeaning(t[3]), LenMeaning(t[4])>>, NoAng)
       [] l.kind = "ellipse" -> R("ellipse", c, <<Twice(LenMeaning(t[4])), Twice(LenMeaning(t[3]))>>, LenMeaning(t0[5]))   \* width = 2*minor, height = 2*major
       [] l.kind = "centerbox" -> R("rectangle", c, <<LenMeaning(t[3]), LenMeaning(t[4])>>, Val("mas", 0))
       [] l.kind = "rotbox" -> R("rectangle", c, <<LenMeaning(t[3]), LenMeaning(t[4])>>, LenMeaning(t0[5]))
       [] l.kind = "box" -> LET d == <<CoordMeaning(t[3]), CoordMeaning(t[4])>>          \* two opposite corners
                            IN R("rectangle", <<Mid(c[1], d[1]), Mid(c[2], d[2])>>, <<Diff(c[1], d[1]), Diff(c[2], d[2])>>, Val("mas", 0))
       [] l.kind = "poly" -> R("polygon", [i \in 1..Len(t) |-> CoordMeaning(t[i])], <<>>, NoAng)
       [] l.kind = "line" -> R("line", [i \in 1..4 |-> CoordMeaning(t[i])], <<>>, NoAng)
       [] l.kind = "symbol" -> R("point", c, <<>>, NoAng)
       [] l.kind = "text" -> R("text", c, <<>>, NoAng)

(* ---------------- reader ---------------- *)
RSt(gmeta, out) == [gmeta |-> gmeta, out |-> out]
RSt0 == RSt(NoProps, <<>>)
StepLine(s, l) ==
  CASE l.k = "global" -> [s EXCEPT !.gmeta = Override(s.gmeta, l.props)]
    [] l.k = "comment" -> s
    [] l.k = "region" -> [s EXCEPT !.out = Append(s.out, Meaning(l, s.gmeta))]
RECURSIVE ReadFrom(_, _)
ReadFrom(s, file) == IF file = <<>> THEN s ELSE ReadFrom(StepLine(s, Head(file)), Tail(file))
ReadAll(file) == ReadFrom(RSt0, file).out

(* ---------------- writer ---------------- *)
(* region u = [cls, frame, pos, sizes, ang, inc, typ, props] with values that are exact multiples of the written unit;   *)
(* opts = [coordsys (a frame), radunit in {"deg", "arcsec", "arcmin", "pix"}]                                             *)
TokDeg(v) == [n |-> "deg", v |-> v.v \div 3600]
TokPix(v) == [n |-> "pix", v |-> v.v]
TokLen(v, radunit) == CASE v.u = "mpix" -> [n |-> IF radunit = "pix" THEN "pix" ELSE "deg", v |-> v.v]
                        [] radunit = "deg" -> [n |-> "deg", v |-> v.v \div 3600]
                        [] radunit = "arcmin" -> [n |-> "arcmin", v |-> v.v \div 60]
                        [] radunit = "arcsec" -> [n |-> "arcsec", v |-> v.v]
Half(v) == Val(v.u, v.v \div 2)
Writable(u) == u.cls \in {"circle", "cannulus", "ellipse", "rectangle", "polygon", "line", "point", "text"}
ToLine(u, opts) ==
  LET P == [i \in 1..Len(u.pos) |-> IF u.frame = "image" THEN [n |-> "deg", v |-> u.pos[i].v] ELSE TokDeg(u.pos[i])]   \* (sic) pixel positions carry "deg"
      L(v) == TokLen(v, opts.radunit)
      kind == CASE u.cls = "cannulus" -> "annulus" [] u.cls = "rectangle" -> "rotbox" [] u.cls = "polygon" -> "poly" [] u.cls = "point" -> "symbol" [] OTHER -> u.cls
      toks == CASE u.cls = "circle" -> P \o <<L(u.sizes[1])>>
                [] u.cls = "cannulus" -> P \o <<L(u.sizes[1]), L(u.sizes[2])>>
                [] u.cls = "ellipse" -> P \o <<L(Half(u.sizes[2])), L(Half(u.sizes[1])), [n |-> "deg", v |-> u.ang.v \div 3600]>>   \* [major, minor] = [height/2, width/2]
                [] u.cls = "rectangle" -> P \o <<L(u.sizes[1]), L(u.sizes[2]), [n |-> "deg", v |-> u.ang.v \div 3600]>>
                [] OTHER -> P
      coordprop == IF u.frame # opts.coordsys THEN [coord |-> NameOf(u.frame), zz |-> "zz"] ELSE NoProps
  IN [k |-> "region", sign |-> IF u.inc THEN "" ELSE "-", ann |-> u.typ = "ann", kind |-> kind, toks |-> toks,
      props |-> Override(coordprop, u.props)]
Write(L, opts) == <<[k |-> "global", props |-> [coord |-> NameOf(opts.coordsys), zz |-> "zz"]]>>
                  \o [i \in 1..Len(L) |-> ToLine(L[i], opts)]
=============================================================================
