----------------------------- MODULE MC_Objects -----------------------------
EXTENDS Objects
ClsPixSimple == {"CirclePix", "EllipsePix", "RectanglePix", "PolygonPix", "RegularPolygonPix", "PointPix", "LinePix", "TextPix"}
ClsPixAnnuli == {"CircleAnnulusPix", "EllipseAnnulusPix", "RectangleAnnulusPix"}
ClsSkySimple == {"CircleSky", "EllipseSky", "RectangleSky", "PolygonSky", "PointSky", "LineSky", "TextSky"}
ClsSkyAnnuli == {"CircleAnnulusSky", "EllipseAnnulusSky", "RectangleAnnulusSky"}
ClsCompound == {"CompoundPix", "CompoundSky"}
ClsAll == ClsPixSimple \cup ClsPixAnnuli \cup ClsSkySimple \cup ClsSkyAnnuli \cup ClsCompound
ClsOne == {"EllipsePix"}
ClsCA == {"CircleAnnulusPix"}
ClsEA == {"EllipseAnnulusPix"}
ClsPoint == {"PointPix"}
ClsQuick == ClsAll \ {"EllipseAnnulusPix", "EllipseAnnulusSky", "RectangleAnnulusSky", "RectangleSky", "LineSky", "PointSky", "TextSky", "PolygonSky", "LinePix"}
ClsQuickCopy == ClsAll \ {"EllipseAnnulusPix", "EllipseAnnulusSky", "RectangleAnnulusSky"}
ClsFew == {"CirclePix", "EllipseSky", "CircleAnnulusPix", "PolygonPix", "CompoundPix"}
ActsParams == {"construct", "construct_bad", "assign", "delete"}
ActsCtor == {"construct", "construct_bad"}
ClsQuickRest == ClsAll \ ClsQuick            \* the classes the quick tier leaves out of the full parameter run: constructors only
ActsMeta == {"construct", "meta", "metaassign"}
ActsCopy == {"construct", "assign", "meta", "copy", "copywith"}
ActsAll == {"construct", "construct_bad", "assign", "delete", "meta", "metaassign", "copy", "copywith"}
ActsCopyOnly == {"construct", "construct_first_only", "copy", "copywithdict"}
ActsEq == {"construct", "assign", "meta_small", "copy", "copywith", "copywithdict"}
ClsEq == {"CirclePix", "PolygonPix", "LinePix", "CircleSky", "RectanglePix", "PolygonSky"}
ClsEqSmall == {"CirclePix", "PolygonPix", "CircleSky", "PolygonSky"}
ClsSiblings == {"RectanglePix", "EllipseAnnulusSky"}
NoDev == {}
NoExtra == {}
TolProbes == {"pFar", "pFarC", "pO", "pOc", "sAobs", "sAnear", "sAfar"}
DevKnown == {"AssignAnnulusUnchecked"}
=============================================================================
