----------------------------- MODULE MC_Objects -----------------------------
EXTENDS Objects
ClsPixSimple == {"CirclePix", "EllipsePix", "RectanglePix", "PolygonPix", "RegularPolygonPix", "PointPix", "LinePix", "TextPix"}
ClsPixAnnuli == {"CircleAnnulusPix", "EllipseAnnulusPix", "RectangleAnnulusPix"}
ClsSkySimple == {"CircleSky", "EllipseSky", "RectangleSky", "PolygonSky", "PointSky", "LineSky", "TextSky"}
ClsSkyAnnuli == {"CircleAnnulusSky", "EllipseAnnulusSky", "RectangleAnnulusSky"}
ClsCompound == {"CompoundPix", "CompoundSky"}
ClsAll == ClsPixSimple \cup ClsPixAnnuli \cup ClsSkySimple \cup ClsSkyAnnuli \cup ClsCompound
ClsOne == {"EllipsePix"}
ClsCA == {"CircleAnnulusPix"}
ClsEA == {"EllipseAnnulusPix"}
ClsPoint == {"PointPix"}
ClsQuick == ClsAll \ {"EllipseAnnulusPix", "EllipseAnnulusSky", "RectangleAnnulusSky", "RectangleSky", "LineSky", "PointSky", "TextSky", "PolygonSky", "LinePix"}
ClsQuickCopy == ClsAll \ {"EllipseAnnulusPix", "EllipseAnnulusSky", "RectangleAnnulusSky"}
ClsFew == {"CirclePix", "EllipseSky", "CircleAnnulusPix", "PolygonPix", "CompoundPix"}
ActsParams == {"construct", "construct_bad", "assign", "delete"}
ActsCtor == {"construct", "construct_bad"}
ClsQuickRest == ClsAll \ ClsQuick            \* the classes the quick tier leaves out of the full parameter run: constructors only
ActsMeta == {"construct", "meta", "metaassign"}
ActsCopy == {"construct", "assign", "meta", "copy", "copywith"}
ActsAll == {"construct", "construct_bad", "assign", "delete", "meta", "metaassign", "copy", "copywith"}
ActsCopyOnly == {"construct", "construct_first_only", "copy", "copywithdict"}
ActsEq == {"construct", "assign", "meta_small", "copy", "copywith", "copywithdict"}
ClsEqSmall == {"CirclePix", "PolygonPix", "CircleSky", "PolygonSky"}
ClsEq == ClsEqSmall        \* (with the tolerance / frame-attribute / distance probes and the sky polygon the six-class instance no longer finishes in 50 minutes; FieldEq.tla covers every class)
ClsSiblings == {"RectanglePix", "EllipseAnnulusSky"}
NoDev == {}
NoExtra == {}
TolProbes == {"pFar", "pFarC", "pO", "pOc", "sAobs", "sAnear", "sAfar"}
DevKnown == {"AssignAnnulusUnchecked"}
=============================================================================
