SPECIFICATION Spec
CONSTANTS Objs = {"o1", "o2", "o3"}
 OpNames = {"contains", "to_mask", "area", "bounding_box", "convert", "rotate", "copy", "combine", "as_artist", "serialize_ds9", "serialize_crtf", "serialize_fits", "write", "parse", "slice", "mask_apply", "parse_foreign", "reread"}
 MaxLen = 30
VIEW View
INVARIANT ModuleStateConstant
INVARIANT ResultIsFunctionOfValue
PROPERTY LibraryNeverMutates
CHECK_DEADLOCK FALSE
