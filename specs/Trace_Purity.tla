---------------------------- MODULE Trace_Purity ----------------------------
(* Validates call histories recorded from the real package against Purity.tla.  One event per  *)
(* public call: [tid, op, obj, variant, ver (version of obj's value), pre, post (fingerprints   *)
(* of the whole pool and of the module tables before/after), res (fingerprint of the result)].  *)
(* A trace is accepted iff every library call leaves pool and module state unchanged and the    *)
(* result is a function of (op, obj, variant, version) throughout the history.                  *)
EXTENDS Integers, Sequences, FiniteSets, TLC, Json, IOUtils

Traces == JsonDeserialize(IOEnv.TRACE_FILE)       \* sequence of traces, each a sequence of events

FirstBad(t) ==
  LET n == Len(t)
      unchanged(i) == t[i].op = "mutate" \/ (t[i].pre = t[i].post)
      modconst(i) == t[i].modpre = t[i].modpost /\ t[i].modpre = t[1].modpre
      chained(i) == i = 1 \/ t[i].pre = t[i - 1].post
      functional(i) == \A j \in 1..(i - 1) :
          (t[j].op = t[i].op /\ t[j].obj = t[i].obj /\ t[j].variant = t[i].variant /\ t[j].ver = t[i].ver) => t[j].res = t[i].res
      bad == {i \in 1..n : ~(unchanged(i) /\ modconst(i) /\ chained(i) /\ functional(i))}
  IN IF bad = {} THEN 0 ELSE CHOOSE i \in bad : \A j \in bad : i <= j
Clause(t, i) ==
  IF i = 0 THEN "ok"
  ELSE IF ~(t[i].op = "mutate" \/ t[i].pre = t[i].post) THEN "input_mutated"
  ELSE IF ~(t[i].modpre = t[i].modpost /\ t[i].modpre = t[1].modpre) THEN "module_state_changed"
  ELSE IF ~(i = 1 \/ t[i].pre = t[i - 1].post) THEN "pool_changed_between_calls"
  ELSE "result_depends_on_history"

VARIABLES tid, at, verdict
Init == /\ tid \in 1..Len(Traces) /\ at = FirstBad(Traces[tid]) /\ verdict = Clause(Traces[tid], FirstBad(Traces[tid]))
Next == UNCHANGED <<tid, at, verdict>>
Spec == Init /\ [][Next]_<<tid, at, verdict>>
=============================================================================
