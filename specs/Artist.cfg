SPECIFICATION Spec
CONSTANTS Artists = {"Patch", "Line2D", "Text"}
 Styles = {"none", "mpl", "ds9"}
INVARIANT CallerWins
INVARIANT CallerColourShows
INVARIANT VisualBeatsDefault
INVARIANT DefaultsRemain
CHECK_DEADLOCK FALSE
