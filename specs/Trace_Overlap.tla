---------------------------- MODULE Trace_Overlap ----------------------------
(* Validates exact-mode mask values recorded from the real kernels against the measure axioms of *)
(* Overlap.tla.  Pixel event: [ev |-> "pixel", s (lattice shape, unit 1/(4m) pixel), m, ix, iy,      *)
(* val (value * 1e8 rounded, or -1 if not finite)].  Sum events compare integers computed by the     *)
(* harness: [ev |-> "equal", a, b, tol, what].                                                        *)
EXTENDS Overlap, Json, IOUtils
Events == JsonDeserialize(IOEnv.TRACE_FILE)
E8 == 100000000
PixelVerdict(e) ==
  LET U == 4 * e.m  mm == e.m * e.m
      lo == Lower(e.s, e.ix, e.iy, U, e.m)  hi == Upper(e.s, e.ix, e.iy, U, e.m)
  IN IF e.val < 0 \/ e.val > E8 THEN "value_not_in_unit_interval"
     ELSE IF lo = mm /\ e.val # E8 THEN "fully_covered_pixel_not_exactly_1"
     ELSE IF hi = 0 /\ e.val # 0 THEN "uncovered_pixel_not_exactly_0"
     ELSE IF e.val < (E8 \div mm) * lo - 2 \/ e.val > (E8 \div mm) * hi + 2 THEN "value_outside_area_bracket"
     ELSE "ok"
Verdict(e) == IF e.ev = "pixel" THEN PixelVerdict(e)
              ELSE IF (IF e.a > e.b THEN e.a - e.b ELSE e.b - e.a) <= e.tol THEN "ok" ELSE e.what
Deg(e) == IF e.ev = "pixel" THEN Degenerate(e.s, e.ix, e.iy, 4 * e.m) ELSE FALSE
VARIABLES i, verdict, deg
Init == i \in 1..Len(Events) /\ verdict = Verdict(Events[i]) /\ deg = Deg(Events[i])
Next == UNCHANGED <<i, verdict, deg>>
Spec == Init /\ [][Next]_<<i, verdict, deg>>
=============================================================================
