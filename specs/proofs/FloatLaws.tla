------------------------------ MODULE FloatLaws ------------------------------
(* Unbounded proofs (TLAPS) of the rounding law of RegionBoundingBox.from_float, as modelled in    *)
(* BBox!FromFloatImpl on the 1/8-pixel lattice: lower edges floor(v + 1/2), upper edges            *)
(* ceil(v + 1/2).  A value f stands for f/8 pixels; pixel k covers [k - 1/2, k + 1/2), i.e.          *)
(* [8k - 4, 8k + 4) in eighths.                                                                      *)
EXTENDS Integers, TLAPS

FloorDiv8(e) == e \div 8
CeilDiv8(e) == -((-e) \div 8)

(* ixmin = FloorDiv8(f + 4) is the largest k whose lower pixel edge 8k - 4 is <= f *)
THEOREM LowerEdge ==
  \A f \in Int : LET k == FloorDiv8(f + 4) IN 8 * k - 4 <= f /\ f < 8 * (k + 1) - 4
  BY DEF FloorDiv8

(* ixmax = CeilDiv8(f + 4) is the smallest k with f <= 8k - 4 (the exclusive upper bound's lower edge) *)
THEOREM UpperEdge ==
  \A f \in Int : LET k == CeilDiv8(f + 4) IN f <= 8 * k - 4 /\ 8 * (k - 1) - 4 < f
  BY DEF CeilDiv8

(* hence the box is never inverted and a degenerate interval on a pixel edge gives an empty box *)
THEOREM Ordered ==
  \A f, g \in Int : f <= g => FloorDiv8(f + 4) <= CeilDiv8(g + 4)
  BY DEF FloorDiv8, CeilDiv8
=============================================================================
