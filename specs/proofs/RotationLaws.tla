----------------------------- MODULE RotationLaws -----------------------------
(* Unbounded proofs (TLAPS) of the algebra behind rotations by rational directions <<c, s, h>>     *)
(* (c^2 + s^2 = h^2) used by Geometry.tla / PixCoord.tla: directions multiply as complex numbers,    *)
(* rotation is linear, preserves squared distances (scaled by h^2) and composes.                     *)
EXTENDS Integers, TLAPS

(* rotated offset (scaled by h): <<c*x - s*y, s*x + c*y>> *)
RotX(x, y, c, s) == c * x - s * y
RotY(x, y, c, s) == s * x + c * y

(* product of two directions (complex multiplication) is a direction again *)
THEOREM DirMulIsDir ==
  \A c, s, h, d, t, g \in Int : c * c + s * s = h * h /\ d * d + t * t = g * g =>
     (c * d - s * t) * (c * d - s * t) + (s * d + c * t) * (s * d + c * t) = (h * g) * (h * g)
  <1> SUFFICES ASSUME NEW c \in Int, NEW s \in Int, NEW h \in Int, NEW d \in Int, NEW t \in Int, NEW g \in Int,
                      c * c + s * s = h * h, d * d + t * t = g * g
               PROVE  (c * d - s * t) * (c * d - s * t) + (s * d + c * t) * (s * d + c * t) = (h * g) * (h * g)
    OBVIOUS
  <1>1. (c * d - s * t) * (c * d - s * t) + (s * d + c * t) * (s * d + c * t) = (c * c + s * s) * (d * d + t * t)
    OBVIOUS
  <1>2. (c * c + s * s) * (d * d + t * t) = (h * h) * (g * g)
    OBVIOUS
  <1>3. (h * h) * (g * g) = (h * g) * (h * g)
    OBVIOUS
  <1> QED BY <1>1, <1>2, <1>3

(* rotation preserves squared lengths up to the factor h^2: an isometry after division by h *)
THEOREM RotationIsIsometry ==
  \A x, y, c, s, h \in Int : c * c + s * s = h * h =>
     RotX(x, y, c, s) * RotX(x, y, c, s) + RotY(x, y, c, s) * RotY(x, y, c, s) = (h * h) * (x * x + y * y)
  BY DEF RotX, RotY

(* rotating by <<c, s>> and then by <<d, t>> is rotating by their product: angles add *)
THEOREM RotationComposes ==
  \A x, y, c, s, d, t \in Int :
     /\ RotX(RotX(x, y, c, s), RotY(x, y, c, s), d, t) = RotX(x, y, c * d - s * t, s * d + c * t)
     /\ RotY(RotX(x, y, c, s), RotY(x, y, c, s), d, t) = RotY(x, y, c * d - s * t, s * d + c * t)
  BY DEF RotX, RotY

(* rotating back by the conjugate direction restores the offset times h^2 *)
THEOREM RotationInverse ==
  \A x, y, c, s, h \in Int : c * c + s * s = h * h =>
     /\ RotX(RotX(x, y, c, s), RotY(x, y, c, s), c, -s) = (h * h) * x
     /\ RotY(RotX(x, y, c, s), RotY(x, y, c, s), c, -s) = (h * h) * y
  BY DEF RotX, RotY
=============================================================================
