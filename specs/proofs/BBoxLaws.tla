------------------------------ MODULE BBoxLaws ------------------------------
(* Unbounded proofs (TLAPS) of the rectangle-algebra laws that BBox.tla model-checks on a    *)
(* bounded universe.  The operators are textually those of BBox.tla's Impl layer.             *)
EXTENDS Integers, TLAPS

Min(a, b) == IF a <= b THEN a ELSE b
Max(a, b) == IF a >= b THEN a ELSE b

Box(b) == /\ b = <<b[1], b[2], b[3], b[4]>>
          /\ b[1] \in Int /\ b[2] \in Int /\ b[3] \in Int /\ b[4] \in Int
          /\ b[1] <= b[2] /\ b[3] <= b[4]
Contains(c, b) == c[1] <= b[1] /\ b[2] <= c[2] /\ c[3] <= b[3] /\ b[4] <= c[4]
Union(a, b) == <<Min(a[1], b[1]), Max(a[2], b[2]), Min(a[3], b[3]), Max(a[4], b[4])>>
InPix(x, y, b) == b[1] <= x /\ x < b[2] /\ b[3] <= y /\ y < b[4]
(* the non-None branch of intersection *)
Inter(a, b) == <<Max(a[1], b[1]), Min(a[2], b[2]), Max(a[3], b[3]), Min(a[4], b[4])>>
InterDefined(a, b) == ~(Min(a[2], b[2]) < Max(a[1], b[1]) \/ Min(a[4], b[4]) < Max(a[3], b[3]))

THEOREM UnionCommutes == \A a, b : Box(a) /\ Box(b) => Union(a, b) = Union(b, a)
  BY DEF Union, Min, Max, Box

THEOREM UnionAssociative == \A a, b, c : Box(a) /\ Box(b) /\ Box(c) =>
                               Union(Union(a, b), c) = Union(a, Union(b, c))
  BY DEF Union, Min, Max, Box

THEOREM UnionIdempotent == \A a : Box(a) => Union(a, a) = a
  BY DEF Union, Min, Max, Box

THEOREM UnionIsBox == \A a, b : Box(a) /\ Box(b) => Box(Union(a, b))
  BY DEF Union, Min, Max, Box

THEOREM UnionContainsBoth == \A a, b : Box(a) /\ Box(b) =>
                               Contains(Union(a, b), a) /\ Contains(Union(a, b), b)
  BY DEF Union, Min, Max, Box, Contains

THEOREM UnionMinimal == \A a, b, c : Box(a) /\ Box(b) /\ Box(c) /\ Contains(c, a) /\ Contains(c, b)
                               => Contains(c, Union(a, b))
  BY DEF Union, Min, Max, Box, Contains

THEOREM InterCommutes == \A a, b : Box(a) /\ Box(b) => Inter(a, b) = Inter(b, a)
  BY DEF Inter, Min, Max, Box

THEOREM InterAssociative == \A a, b, c : Box(a) /\ Box(b) /\ Box(c) =>
                               Inter(Inter(a, b), c) = Inter(a, Inter(b, c))
  BY DEF Inter, Min, Max, Box

THEOREM InterIsCommonPixels ==
  \A a, b : Box(a) /\ Box(b) =>
     \A x, y \in Int : InPix(x, y, Inter(a, b)) <=> (InPix(x, y, a) /\ InPix(x, y, b))
  BY DEF Inter, Min, Max, Box, InPix

THEOREM InterUndefinedMeansDisjoint ==
  \A a, b : Box(a) /\ Box(b) /\ ~InterDefined(a, b) =>
     \A x, y \in Int : ~(InPix(x, y, a) /\ InPix(x, y, b))
  BY DEF InterDefined, Min, Max, Box, InPix

THEOREM InterDefinedIsBox == \A a, b : Box(a) /\ Box(b) /\ InterDefined(a, b) => Box(Inter(a, b))
  BY DEF Inter, InterDefined, Min, Max, Box

THEOREM Absorption == \A a, b : Box(a) /\ Box(b) => Inter(a, Union(a, b)) = a /\ Union(a, Inter(a, b)) = a \/ ~InterDefined(a, b)
  BY DEF Inter, Union, InterDefined, Min, Max, Box
=============================================================================
