------------------------------ MODULE SliceLaws ------------------------------
(* Unbounded proofs (TLAPS) of the overlap-window arithmetic of get_overlap_slices              *)
(* (regions/core/bounding_box.py), which BBox.tla / Placement.tla model-check on a bounded        *)
(* universe and on which to_image / cutout / multiply / get_values (C05) are built.  One axis     *)
(* at a time: a box side [lo, hi) against an image side [0, n).  The operators are textually      *)
(* those of BBox!SlicesImpl.                                                                       *)
EXTENDS Integers, TLAPS

Min(a, b) == IF a <= b THEN a ELSE b
Max(a, b) == IF a >= b THEN a ELSE b

(* large window (in the image) and small window (in the box) of one axis *)
LargeLo(lo) == Max(lo, 0)
LargeHi(hi, n) == Min(hi, n)
SmallLo(lo) == Max(-lo, 0)
SmallHi(lo, hi, n) == Min(hi - lo, n - lo)
(* the axis contributes a "no overlap" verdict *)
NoneAxis(lo, hi, n) == lo >= n \/ hi <= 0 \/ lo >= hi \/ n <= 0

THEOREM LargeWindowIsCommonPixels ==
  \A lo, hi, n \in Int : lo <= hi /\ n >= 0 =>
     \A x \in Int : (LargeLo(lo) <= x /\ x < LargeHi(hi, n)) <=> (lo <= x /\ x < hi /\ 0 <= x /\ x < n)
  BY DEF LargeLo, LargeHi, Min, Max

THEOREM SmallWindowIsLargeWindowShifted ==
  \A lo, hi, n \in Int : lo <= hi /\ n >= 0 =>
     /\ SmallLo(lo) = LargeLo(lo) - lo
     /\ SmallHi(lo, hi, n) = LargeHi(hi, n) - lo
  BY DEF SmallLo, SmallHi, LargeLo, LargeHi, Min, Max

THEOREM WindowsHaveEqualLength ==
  \A lo, hi, n \in Int : lo <= hi /\ n >= 0 =>
     SmallHi(lo, hi, n) - SmallLo(lo) = LargeHi(hi, n) - LargeLo(lo)
  BY DEF SmallLo, SmallHi, LargeLo, LargeHi, Min, Max

THEOREM NoWrapAround ==
  \A lo, hi, n \in Int : lo <= hi /\ n >= 0 /\ ~NoneAxis(lo, hi, n) =>
     /\ 0 <= LargeLo(lo) /\ LargeLo(lo) < LargeHi(hi, n) /\ LargeHi(hi, n) <= n
     /\ 0 <= SmallLo(lo) /\ SmallLo(lo) < SmallHi(lo, hi, n) /\ SmallHi(lo, hi, n) <= hi - lo
  BY DEF NoneAxis, SmallLo, SmallHi, LargeLo, LargeHi, Min, Max

THEOREM NoneIffNoCommonPixel ==
  \A lo, hi, n \in Int : lo <= hi /\ n >= 0 =>
     (NoneAxis(lo, hi, n) <=> ~(\E x \in Int : lo <= x /\ x < hi /\ 0 <= x /\ x < n))
  <1> SUFFICES ASSUME NEW lo \in Int, NEW hi \in Int, NEW n \in Int, lo <= hi, n >= 0
               PROVE  NoneAxis(lo, hi, n) <=> ~(\E x \in Int : lo <= x /\ x < hi /\ 0 <= x /\ x < n)
    OBVIOUS
  <1>1. ASSUME ~NoneAxis(lo, hi, n) PROVE \E x \in Int : lo <= x /\ x < hi /\ 0 <= x /\ x < n
    <2>1. Max(lo, 0) \in Int /\ lo <= Max(lo, 0) /\ Max(lo, 0) < hi /\ 0 <= Max(lo, 0) /\ Max(lo, 0) < n
      BY <1>1 DEF NoneAxis, Max
    <2> QED BY <2>1
  <1>2. ASSUME NoneAxis(lo, hi, n) PROVE ~(\E x \in Int : lo <= x /\ x < hi /\ 0 <= x /\ x < n)
    BY <1>2 DEF NoneAxis
  <1> QED BY <1>1, <1>2

(* placing a mask value: image index x (in the large window) reads box index x - lo (in the small window) *)
THEOREM PlacementIndex ==
  \A lo, hi, n, x \in Int : lo <= hi /\ n >= 0 /\ LargeLo(lo) <= x /\ x < LargeHi(hi, n) =>
     /\ SmallLo(lo) + (x - LargeLo(lo)) = x - lo
     /\ 0 <= SmallLo(lo) + (x - LargeLo(lo))
     /\ SmallLo(lo) + (x - LargeLo(lo)) < hi - lo
  <1> SUFFICES ASSUME NEW lo \in Int, NEW hi \in Int, NEW n \in Int, NEW x \in Int,
                      lo <= hi, n >= 0, LargeLo(lo) <= x, x < LargeHi(hi, n)
               PROVE  /\ SmallLo(lo) + (x - LargeLo(lo)) = x - lo
                      /\ 0 <= SmallLo(lo) + (x - LargeLo(lo))
                      /\ SmallLo(lo) + (x - LargeLo(lo)) < hi - lo
    OBVIOUS
  <1>1. CASE lo >= 0
    <2>1. LargeLo(lo) = lo /\ SmallLo(lo) = 0 BY <1>1 DEF LargeLo, SmallLo, Max
    <2>2. x < hi BY DEF LargeHi, Min
    <2> QED BY <2>1, <2>2
  <1>2. CASE lo < 0
    <2>1. LargeLo(lo) = 0 /\ SmallLo(lo) = 0 - lo BY <1>2 DEF LargeLo, SmallLo, Max
    <2>2. x < hi BY DEF LargeHi, Min
    <2>3. 0 <= x BY <2>1
    <2> QED BY <1>2, <2>1, <2>2, <2>3
  <1> QED BY <1>1, <1>2
=============================================================================
