---------------------------- MODULE BBoxClosed ----------------------------
(* Closed-form acceptance clauses for single RegionBoundingBox calls: the Ref of BBox.tla     *)
(* rewritten without enumerating pixel sets, so that corners up to 10^9 can be validated.     *)
(* MC_BBox checks on the bounded universe that every call the set-based Ref accepts is        *)
(* accepted here (InvClosedAgrees); Trace_BBox uses these clauses on recorded events.         *)
EXTENDS Integers, Sequences

None == <<>>
Min(a, b) == IF a <= b THEN a ELSE b
Max(a, b) == IF a >= b THEN a ELSE b
IsBox(b) == Len(b) = 4 /\ b[1] <= b[2] /\ b[3] <= b[4]

(* the same Impl arithmetic as BBox, but Ref clauses are phrased without enumerating pixel sets *)
(* so that corners up to 10^9 can be validated.                                                  *)
NonEmpty(b) == b[1] < b[2] /\ b[3] < b[4]
Contains(c, b) == c[1] <= b[1] /\ b[2] <= c[2] /\ c[3] <= b[3] /\ b[4] <= c[4]
Hull(a, b) == <<Min(a[1], b[1]), Max(a[2], b[2]), Min(a[3], b[3]), Max(a[4], b[4])>>
CommonX(a, b) == <<Max(a[1], b[1]), Min(a[2], b[2])>>
CommonY(a, b) == <<Max(a[3], b[3]), Min(a[4], b[4])>>
HasCommon(a, b) == CommonX(a, b)[1] < CommonX(a, b)[2] /\ CommonY(a, b)[1] < CommonY(a, b)[2]
Gap(a, b) == a[2] < b[1] \/ b[2] < a[1] \/ a[4] < b[3] \/ b[4] < a[3]

VUnion(e) ==
  IF ~IsBox(e.res) THEN "union:not_a_box"
  ELSE IF e.res # Hull(e.a, e.b) THEN "union:not_smallest_containing_both"
  ELSE "ok"

VInter(e) ==
  IF e.res = None THEN (IF HasCommon(e.a, e.b) THEN "intersection:none_but_common_pixels" ELSE "ok")
  ELSE IF ~IsBox(e.res) THEN "intersection:not_a_box"
  ELSE IF Gap(e.a, e.b) THEN "intersection:not_none_when_separated"
  ELSE IF HasCommon(e.a, e.b)
         THEN (IF e.res = <<CommonX(e.a, e.b)[1], CommonX(e.a, e.b)[2], CommonY(e.a, e.b)[1], CommonY(e.a, e.b)[2]>>
                 THEN "ok" ELSE "intersection:wrong_pixels")
  ELSE IF NonEmpty(e.res) THEN "intersection:pixels_from_nothing" ELSE "ok"

VShape(e) == IF e.res = <<e.a[4] - e.a[3], e.a[2] - e.a[1]>> THEN "ok" ELSE "shape:wrong"
(* centre and extent are statements about the pixel set, as in BBox!CenterRef/ExtentRef: an empty box has none *)
VCenter(e) == IF ~NonEmpty(e.a) \/ e.res = <<e.a[4] - 1 + e.a[3], e.a[2] - 1 + e.a[1]>> THEN "ok" ELSE "center:wrong"
VExtent(e) == IF ~NonEmpty(e.a) \/ e.res = <<2 * e.a[1] - 1, 2 * e.a[2] - 1, 2 * e.a[3] - 1, 2 * e.a[4] - 1>> THEN "ok" ELSE "extent:wrong"

(* res for slices: None or <<<<ylo,yhi>>,<<xlo,xhi>>>>,<<...>>>> of *normalised* index ranges     *)
(* observed by applying the returned slices to index arrays (wrap-around shows up as a range     *)
(* that is not the expected one).                                                                 *)
VSlices(e) ==
  LET b == e.a  h == e.img[1]  w == e.img[2]
      cx == <<Max(b[1], 0), Min(b[2], w)>>  cy == <<Max(b[3], 0), Min(b[4], h)>>
      common == cx[1] < cx[2] /\ cy[1] < cy[2]
  IN IF e.res = None THEN (IF common THEN "slices:none_but_common_pixels" ELSE "ok")
     ELSE IF ~common THEN "slices:not_none_without_overlap"
     ELSE IF e.res[1] # <<cy, cx>> THEN "slices:image_window_wrong"
     ELSE IF e.res[2] # << <<cy[1] - b[3], cy[2] - b[3]>>, <<cx[1] - b[1], cx[2] - b[1]>> >> THEN "slices:box_window_wrong"
     ELSE "ok"

(* from_float: flt in 1/8 pixel units (integers) plus an infinitesimal offset eps[i] in {-1, 0, 1} (the harness adds     *)
(* eps * 2^-k, k = 10..40, to the lattice value: exactly representable, far below the lattice spacing); res a box.        *)
LeEps(a, b, eb) == a < b \/ (a = b /\ eb >= 0)           \* a <= b + eb*epsilon
GeEps(a, b, eb) == a > b \/ (a = b /\ eb <= 0)           \* a >= b + eb*epsilon
LtEps(a, b, eb) == a < b \/ (a = b /\ eb > 0)
GtEps(a, b, eb) == a > b \/ (a = b /\ eb < 0)
VFromFloat(e) ==
  LET f == e.flt r == e.res  q == e.eps IN
  IF ~IsBox(r) THEN "from_float:not_a_box"
  ELSE IF ~(LeEps(8 * r[1] - 4, f[1], q[1]) /\ GeEps(8 * r[2] - 4, f[2], q[2]) /\ LeEps(8 * r[3] - 4, f[3], q[3]) /\ GeEps(8 * r[4] - 4, f[4], q[4]))
         THEN "from_float:does_not_cover"
  ELSE IF ~(GtEps(8 * (r[1] + 1) - 4, f[1], q[1]) /\ LtEps(8 * (r[2] - 1) - 4, f[2], q[2]) /\ GtEps(8 * (r[3] + 1) - 4, f[3], q[3]) /\ LtEps(8 * (r[4] - 1) - 4, f[4], q[4]))
         THEN "from_float:not_smallest"
  ELSE "ok"

(* cover: the box reported for a shape whose true extent [xmin, xmax] x [ymin, ymax] is given in units of 2^-20 pixel (integers, rounded    *)
(* down; |coordinates| < 1000 pixels): pixel ix spans [ix - 1/2, ix + 1/2], the box covers the extent and is the smallest that does.        *)
(* Extremes within 2 units of a pixel edge are not decided (the harness computes them in floating point).                                  *)
VCover(e) ==
  LET f == e.flt  r == e.res  H == 524288 IN
  IF ~IsBox(r) THEN "cover:not_a_box"
  ELSE IF ~((2 * r[1] - 1) * H <= f[1] + 2 /\ (2 * r[2] - 1) * H >= f[2] - 2 /\ (2 * r[3] - 1) * H <= f[3] + 2 /\ (2 * r[4] - 1) * H >= f[4] - 2)
         THEN "cover:does_not_cover"
  ELSE IF ~((2 * r[1] + 1) * H > f[1] - 2 /\ (2 * r[2] - 3) * H < f[2] + 2 /\ (2 * r[3] + 1) * H > f[3] - 2 /\ (2 * r[4] - 3) * H < f[4] + 2)
         THEN "cover:not_smallest"
  ELSE "ok"

Verdict(e) ==
  CASE e.op = "union" -> VUnion(e)
    [] e.op = "intersection" -> VInter(e)
    [] e.op = "shape" -> VShape(e)
    [] e.op = "center" -> VCenter(e)
    [] e.op = "extent" -> VExtent(e)
    [] e.op = "slices" -> VSlices(e)
    [] e.op = "from_float" -> VFromFloat(e)
    [] e.op = "cover" -> VCover(e)
    [] OTHER -> "unknown_op"

=============================================================================
