------------------------------- MODULE FileIO -------------------------------
(* C14: writing region files never clobbers or half-writes; files read back as written.        *)
(* (regions/io/*/write.py, connect.py, core/registry.py)                                        *)
(* fs maps the destination path "a" and a second path "b" to absent | file(content) | link(b).  *)
(* A write request is split into the steps the code takes; the ORDER of the steps is the        *)
(* property: CheckExists -> Serialize -> OpenWrite (text formats) / WriteTo (FITS).            *)
(* Whether serialisation succeeds is a parameter of the request (the spec does not predict      *)
(* which lists fail, only what may happen to fs in each case).                                   *)
EXTENDS Integers, Sequences, FiniteSets, TLC
CONSTANTS Formats, SwapSteps      \* SwapSteps = TRUE models the classic half-written-file bug (open before serialise)

Absent == [t |-> "absent"]
File(c) == [t |-> "file", c |-> c]
Link == [t |-> "link"]            \* a symbolic link a -> b
Old == "old"
New == "new"
Trunc == "truncated"

VARIABLES fs, pc, req, result
vars == <<fs, pc, req, result>>

DestStates == {"absent", "file", "emptyfile", "link", "dangling"}        \* emptyfile: an existing file of length 0 (its content "old" is the empty string)
InitFs(d) == CASE d = "absent" -> [a |-> Absent, b |-> Absent]
               [] d \in {"file", "emptyfile"} -> [a |-> File(Old), b |-> Absent]
               [] d = "link" -> [a |-> Link, b |-> File(Old)]
               [] d = "dangling" -> [a |-> Link, b |-> Absent]
LExists(f) == f.a.t # "absent"                                  \* os.path.lexists
Exists(f) == f.a.t = "file" \/ (f.a.t = "link" /\ f.b.t = "file")    \* os.path.exists (follows links)
Resolve(f) == IF f.a.t = "link" THEN "b" ELSE "a"
WriteThrough(f, c) == IF f.a.t = "link" THEN [f EXCEPT !.b = File(c)] ELSE [f EXCEPT !.a = File(c)]
Replace(f, c) == [f EXCEPT !.a = File(c)]                        \* remove the name, create a regular file

(* content: the list holds regions the format can express, or nothing it can express (an empty list; for FITS also a list of  *)
(* sky regions only) - an empty region file is still a complete new file; via: the list entry point (Regions.write) or the    *)
(* single-region one (Region.write); opts: the writer's options left at their defaults or given (they shape the text, and a     *)
(* bad one is one way for serialisation to fail).  None of the three changes which steps are taken, which is the point.       *)
(* path: the destination named by a str or by an os.PathLike object - the same file either way.                                  *)
Requests == {r \in [fmt : Formats, ow : BOOLEAN, ser : {"ok", "fail"}, dest : DestStates,
                    content : {"regions", "nothing"}, via : {"list", "single"}, opts : {"default", "given"}, path : {"str", "pathlike"}] :
               r.via = "single" => r.content = "regions"}
Init == /\ req \in Requests /\ fs = InitFs(req.dest) /\ result = "-"
        /\ pc = IF req.fmt = "fits" THEN "check" ELSE (IF SwapSteps THEN "open_first" ELSE "check")

IsText == req.fmt # "fits"
(* --- text formats --- *)
CheckExists == /\ pc = "check"                                   \* every writer refuses an existing name (lexists) without overwrite
               /\ IF LExists(fs) /\ ~req.ow THEN pc' = "done" /\ result' = "OSError" ELSE pc' = "serialize" /\ UNCHANGED result
               /\ UNCHANGED <<fs, req>>
Serialize == /\ pc = "serialize"
             /\ IF req.ser = "fail" THEN pc' = "done" /\ result' = "Error"
                ELSE pc' = (IF IsText THEN "open" ELSE "writeto") /\ UNCHANGED result
             /\ UNCHANGED <<fs, req>>
OpenWrite == /\ pc = "open" /\ IsText /\ fs' = WriteThrough(fs, New) /\ pc' = "done" /\ result' = "ok" /\ UNCHANGED req
(* the bug variant: open (truncate) first, then serialise *)
OpenFirst == /\ pc = "open_first" /\ IsText
             /\ IF LExists(fs) /\ ~req.ow THEN pc' = "done" /\ result' = "OSError" /\ UNCHANGED fs
                ELSE fs' = WriteThrough(fs, Trunc) /\ pc' = "serialize_late" /\ UNCHANGED result
             /\ UNCHANGED req
SerializeLate == /\ pc = "serialize_late"
                 /\ IF req.ser = "fail" THEN pc' = "done" /\ result' = "Error" /\ UNCHANGED fs
                    ELSE fs' = WriteThrough(fs, New) /\ pc' = "done" /\ result' = "ok"
                 /\ UNCHANGED req
(* --- FITS: astropy writeto(overwrite) after serialisation --- *)
WriteTo == /\ pc = "writeto" /\ ~IsText                          \* reached only when the name is free or overwrite is set
           /\ result' = "ok" /\ fs' \in {Replace(fs, New), WriteThrough(fs, New)}
           /\ pc' = "done" /\ UNCHANGED req
Next == CheckExists \/ Serialize \/ OpenWrite \/ OpenFirst \/ SerializeLate \/ WriteTo
Spec == Init /\ [][Next]_vars

(* the same steps composed into a relation on (fs before, request) -> set of <<result, fs after>>; used by the trace     *)
(* validator on arbitrary file-system states, and tied to the actions by OutcomeAgrees                                  *)
Outcomes(f, r) ==
  IF r.fmt # "fits"
    THEN IF LExists(f) /\ ~r.ow THEN {<<"OSError", f>>}
         ELSE IF r.ser = "fail" THEN {<<"Error", f>>}
         ELSE {<<"ok", WriteThrough(f, New)>>}
    ELSE IF LExists(f) /\ ~r.ow THEN {<<"OSError", f>>}
         ELSE IF r.ser = "fail" THEN {<<"Error", f>>}
         ELSE {<<"ok", WriteThrough(f, New)>>, <<"ok", Replace(f, New)>>}

(* ---------------- properties ---------------- *)
Fs0 == InitFs(req.dest)
Done == pc = "done"
(* an existing destination is never clobbered without overwrite=True (the name is what counts: lexists - a dangling link and an empty file exist)   *)
(* lexists-based writers; for exists-based ones the statement is ambiguous and both outcomes are allowed)        *)
NoClobber == Done /\ ~req.ow /\ LExists(Fs0) =>
               /\ fs = Fs0 /\ result # "ok"
               /\ (req.ser = "ok" => result = "OSError")       \* with an unserialisable list either error may come first
(* a write that fails for any reason leaves the destination as it was *)
FailureAtomic == Done /\ result # "ok" => fs = Fs0
(* a successful write leaves the complete new content reachable through the destination path *)
SuccessComplete == Done /\ result = "ok" => (IF fs.a.t = "link" THEN fs.b ELSE fs.a) = File(New)
(* the destination is only ever written by the final step *)
OnlyLastStepWrites == [][fs' # fs => pc \in {"open", "writeto"} \/ SwapSteps]_vars
OutcomeAgrees == Done /\ ~SwapSteps => <<result, fs>> \in Outcomes(InitFs(req.dest), req)
SerFailMeansError == Done /\ req.ser = "fail" /\ (req.ow \/ ~LExists(Fs0)) => result = "Error"
=============================================================================
