----------------------------- MODULE MC_Registry -----------------------------
EXTENDS Registry
ClassesMC == {"Regions", "Region"}
ClassesOne == {"Regions"}
FormatsMC == {"ds9", "crtf", "fits"}
ExtsQuick == {".reg", ".crtf", ".fits", ".dat", ".reg.gz", ".fits.gz", ".dat.gz"}
ExtsAll == {".reg", ".ds9", ".crtf", ".fits", ".fit", ".fts", ".dat", ".txt", ".reg.gz", ".ds9.gz", ".crtf.gz", ".fits.gz", ".fit.gz", ".fts.gz", ".dat.gz", ".gz"}
=============================================================================
