SPECIFICATION Spec
CONSTANTS Coords = {0, 1, 3, 6}
 MaxDepth = 3
INVARIANT SelectAtomic
INVARIANT DepictsOnCreate
INVARIANT FollowsSelection
INVARIANT Disconnected
INVARIANT OneSelector
INVARIANT OneWay
INVARIANT CallbackOnlyOnSuccess
CHECK_DEADLOCK FALSE
