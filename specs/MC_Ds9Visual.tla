---------------------------- MODULE MC_Ds9Visual ----------------------------
EXTENDS Ds9Visual
ShapesMC == {"circle", "ellipse", "box", "polygon", "annulus", "line", "point", "text"}
ColorsMC == {A, "red"}
FillsMC == {A, "0", "1"}
DashesMC == {A, "0", "1"}
DashlistsMC == {A, "8 3"}
WidthsMC == {A, "3"}
PointsMC == {A, "cross", "cross 12", "diamond 7"}
FontsMC == {A, "times", "times 14", "times 14 bold", "times 14 bold italic", "helvetica 10 normal roman"}
AnglesMC == {A, "30"}
RotatesMC == {A, "0", "1"}
=============================================================================
