------------------------------- MODULE MC_Wcs -------------------------------
(* One state per (WCS record, intended pixel image); `sky` is the abstract sky region the pixel *)
(* image comes from.  Every state is a test case: the harness builds the real WCS and the real  *)
(* sky region, calls to_pixel / to_sky, and compares with the model.                             *)
EXTENDS Wcs
CONSTANTS Rots, Scales, Parities, Regions

VARIABLES w, pix, sky, back
vars == <<w, pix, sky, back>>
Wcss == [scale : Scales, rot : Rots, parity : Parities]
Init == /\ w \in Wcss /\ pix \in Regions /\ sky = <<>> /\ back = <<>>
Convert == /\ sky = <<>> /\ sky' = ToSky(pix, w) /\ back' = ToPixel(ToSky(pix, w), w) /\ UNCHANGED <<w, pix>>
Next == Convert
Spec == Init /\ [][Next]_vars
Done == sky # <<>>

Dirs5 == {<<1, 0, 1>>, <<3, 4, 5>>, <<-12, 5, 13>>, <<0, 1, 1>>, <<-15, -8, 17>>, <<20, -21, 29>>}
BaseD == {<<1, 0, 1>>, <<3, 4, 5>>, <<5, 12, 13>>, <<8, 15, 17>>, <<7, 24, 25>>, <<20, 21, 29>>}
VariantsOf(d) == {<<a, b, d[3]>> : a \in {d[1], -d[1]}, b \in {d[2], -d[2]}} \cup {<<b, a, d[3]>> : a \in {d[1], -d[1]}, b \in {d[2], -d[2]}}
DirsAll == UNION {VariantsOf(d) : d \in BaseD}
(* nearly north-up: the smallest-angle Pythagorean directions with m = 150, n = 1 (0.76 deg from an axis) *)
DirsNear == {<<22499, 300, 22501>>, <<22499, -300, 22501>>, <<300, 22499, 22501>>, <<-300, 22499, 22501>>, <<-22499, 300, 22501>>, <<300, -22499, 22501>>}
P1 == {1}
PBoth == {1, -1}
S3 == {1, 4, 36}
S4 == {1, 4, 36, 400}
S6 == {1, 9, 324, 18000}          \* C06, in units of 0.01 arcsec / pixel: 0.01'', 0.09'', 3.24'' and 0.05 deg per pixel (the ends of the stated range)
Base(k, inc) == [k |-> k, cx |-> 40, cy |-> -24, inc |-> inc, vis |-> "v", sky |-> FALSE]
Circle(inc) == Base("circle", inc) @@ [r |-> 12]
Ell(k, d, inc) == Base(k, inc) @@ [w |-> 20, h |-> 8, d |-> d]
CAnn(inc) == Base("cannulus", inc) @@ [r1 |-> 6, r2 |-> 14]
EAnn(k, d, inc) == Base(k, inc) @@ [w1 |-> 6, h1 |-> 4, w2 |-> 20, h2 |-> 10, d |-> d]
Simple(inc) == {Circle(inc), CAnn(inc), Base("point", inc), Base("text", inc)}
                \cup {Ell(k, d, inc) : k \in {"ellipse", "rectangle"}, d \in Dirs5}
                \cup {EAnn(k, d, inc) : k \in {"eannulus", "rannulus"}, d \in {<<3, 4, 5>>, <<0, 1, 1>>}}
                \cup {[k |-> "line", cx |-> 40, cy |-> -24, x2 |-> 60, y2 |-> 0, inc |-> inc, vis |-> "v", sky |-> FALSE],
                      [k |-> "polygon", cx |-> 0, cy |-> 0, vs |-> << <<0, 0>>, <<32, 4>>, <<12, 28>> >>, inc |-> inc, vis |-> "v", sky |-> FALSE]}
Poly(inc) == [k |-> "polygon", cx |-> 0, cy |-> 0, vs |-> << <<20, -44>>, <<64, -28>>, <<36, 4>> >>, inc |-> inc, vis |-> "v", sky |-> FALSE]    \* overlaps the circle
Comp(op, a, b, inc) == [k |-> "compound", op |-> op, a |-> a, b |-> b, inc |-> inc, vis |-> "v", sky |-> FALSE]
RegsC06 == Simple("absent") \cup Simple("F")
           \cup {Comp(op, Circle("absent"), Ell("ellipse", <<3, 4, 5>>, "absent"), inc) : op \in {"and", "or", "xor"}, inc \in {"absent", "F"}}
           \cup {Comp("or", Comp("and", Circle("absent"), CAnn("absent"), "absent"), Ell("rectangle", <<0, 1, 1>>, "absent"), "F")}
           \cup {Comp(op, Circle("F"), Ell("ellipse", <<3, 4, 5>>, "absent"), "absent") : op \in {"and", "or", "xor"}}     \* excluded operand, compound with its own (empty) meta
           \cup {Comp(op, Poly("absent"), Circle("absent"), "absent") : op \in {"or", "xor"}}      \* a polygon as the operand that is asked first
           \cup {Comp("and", CAnn("absent"), Poly("F"), "absent")}
EllT(k, d, inc) == Base(k, inc) @@ [w |-> 8, h |-> 20, d |-> d]                 \* taller than wide
RegsNear == {Ell(k, d, "absent") : k \in {"ellipse", "rectangle"}, d \in {<<1, 0, 1>>, <<0, 1, 1>>}} \cup {EAnn("eannulus", <<1, 0, 1>>, "absent")}
EllN(k, d, inc) == Base(k, inc) @@ [w |-> 12, h |-> 13, d |-> d]               \* nearly round (3 x 3.25 pixels): the angle still matters
CAnnThin == Base("cannulus", "absent") @@ [r1 |-> 40, r2 |-> 42]               \* a ring half a pixel thick
RegsC07 == {Circle("absent"), CAnn("absent"), CAnnThin} \cup {EllN(k, d, "absent") : k \in {"ellipse", "rectangle"}, d \in Dirs5} \cup {Ell(k, d, "absent") : k \in {"ellipse", "rectangle"}, d \in DirsAll}
           \cup {EllT(k, d, "absent") : k \in {"ellipse", "rectangle"}, d \in Dirs5}
           \cup {Base(k, "absent") @@ [w1 |-> 6, h1 |-> 6, w2 |-> 14, h2 |-> 14, d |-> d] : k \in {"eannulus", "rannulus"}, d \in Dirs5}   \* square / round bounds: the angle still matters for rectangles
           \cup {EAnn(k, d, "absent") : k \in {"eannulus", "rannulus"}, d \in Dirs5}

(* round trip is the identity on class, geometry, include flag and visual, for every class incl. compounds *)
InvRoundTrip == Done => SameRegion(back, pix)
(* the sky description does not depend on how the WCS is rotated: converting through two differently *)
(* rotated WCS of the same scale and asking for the pixel image in the second gives the first image  *)
(* rotated by the difference of the rotations                                                        *)
InvAngleLaw == Done /\ HasAngle(pix) =>
                 \A r2 \in Rots : LET w2 == [w EXCEPT !.rot = r2] IN
                    SameDir(ToPixel(sky, w2).d, DirMul(DirMul(pix.d, DirInv(NorthMinus90(w))), NorthMinus90(w2)))
(* sizes in the sky description are the pixel sizes times the scale, whatever rot/parity *)
InvSizes == Done => \A f \in Sizes(pix) : sky[f] = pix[f] * w.scale
=============================================================================
