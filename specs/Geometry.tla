------------------------------ MODULE Geometry ------------------------------
(* Exact lattice model of pixel-region geometry (regions/shapes/*.py, core/compound.py).      *)
(*                                                                                            *)
(* All coordinates and lengths are integers in units of 1/U pixel (U even).  A rotation is a  *)
(* rational direction <<c, s, h>> with c^2 + s^2 = h^2 (the angle atan2(s, c)).  Predicates   *)
(* are evaluated by cross-multiplication, so every answer is exact; a point whose two sides   *)
(* are equal (or closer than 2^-20 relative) is EDGE: the properties except positions within  *)
(* floating-point rounding of the boundary, and EDGE entries are don't-care for the binding.  *)
(*                                                                                            *)
(* Shapes are records with field k:                                                           *)
(*   circle  [cx, cy, r]            ellipse/rectangle [cx, cy, w, h, d]   polygon [vs]        *)
(*   cannulus [cx, cy, r1, r2]      eannulus/rannulus [cx, cy, w1, h1, w2, h2, d]             *)
(*   point/text [cx, cy]            line [x1, y1, x2, y2]                                     *)
(*   compound [op, a, b]  with op in {"and", "or", "xor"}                                     *)
(* and field inc in {"absent", "T", "F", "1", "0"} (meta['include']).                         *)
EXTENDS Integers, Sequences, FiniteSets, TLC

Abs(x) == IF x < 0 THEN -x ELSE x
Min(a, b) == IF a <= b THEN a ELSE b
Max(a, b) == IF a >= b THEN a ELSE b
Sq(x) == x * x
EdgeDen == 1048576                         \* 2^20: relative width of the EDGE band

(* ---------------- ternary logic ---------------- *)
Not3(t) == CASE t = "IN" -> "OUT" [] t = "OUT" -> "IN" [] OTHER -> "EDGE"
And3(a, b) == IF a = "OUT" \/ b = "OUT" THEN "OUT" ELSE IF a = "IN" /\ b = "IN" THEN "IN" ELSE "EDGE"
Or3(a, b) == IF a = "IN" \/ b = "IN" THEN "IN" ELSE IF a = "OUT" /\ b = "OUT" THEN "OUT" ELSE "EDGE"
Xor3(a, b) == IF a = "EDGE" \/ b = "EDGE" THEN "EDGE" ELSE IF a # b THEN "IN" ELSE "OUT"
Op3(op, a, b) == CASE op = "and" -> And3(a, b) [] op = "or" -> Or3(a, b) [] op = "xor" -> Xor3(a, b)

(* lhs ? rhs for non-negative integers, with the EDGE band *)
Cmp(lhs, rhs) == IF Abs(lhs - rhs) <= rhs \div EdgeDen THEN "NEAR" ELSE IF lhs < rhs THEN "LT" ELSE "GT"

Included(inc) == inc \in {"absent", "T", "1"}

(* ---------------- directions ---------------- *)
BaseDirs == {<<1, 0, 1>>, <<3, 4, 5>>, <<5, 12, 13>>, <<8, 15, 17>>, <<7, 24, 25>>, <<20, 21, 29>>}
Variants(d) == {<<a, b, d[3]>> : a \in {d[1], -d[1]}, b \in {d[2], -d[2]}}
                 \cup {<<b, a, d[3]>> : a \in {d[1], -d[1]}, b \in {d[2], -d[2]}}
AllDirs == UNION {Variants(d) : d \in BaseDirs}             \* 44 directions
DirMul(d, e) == <<d[1] * e[1] - d[2] * e[2], d[2] * e[1] + d[1] * e[2], d[3] * e[3]>>
DirInv(d) == <<d[1], -d[2], d[3]>>
IsDir(d) == Sq(d[1]) + Sq(d[2]) = Sq(d[3]) /\ d[3] > 0

RECURSIVE GCD(_, _)
GCD(a, b) == IF b = 0 THEN a ELSE GCD(b, a % b)

(* ---------------- simple shapes ---------------- *)
InCircle(cx, cy, r, p) ==
  LET c == Cmp(Sq(p[1] - cx) + Sq(p[2] - cy), Sq(r))
  IN CASE c = "LT" -> "IN" [] c = "GT" -> "OUT" [] OTHER -> "EDGE"

(* (2u/w)^2 + (2v/h)^2 <= 1 with u = (c dx + s dy)/hh, v = (s dx - c dy)/hh *)
InEllipse(cx, cy, w, h, d, p) ==
  LET dx == p[1] - cx  dy == p[2] - cy
      u == d[1] * dx + d[2] * dy
      v == d[2] * dx - d[1] * dy
      even == w % 2 = 0 /\ h % 2 = 0
      pp == IF even THEN Abs(u) * (h \div 2) ELSE 2 * Abs(u) * h
      qq == IF even THEN Abs(v) * (w \div 2) ELSE 2 * Abs(v) * w
      rr == IF even THEN d[3] * (w \div 2) * (h \div 2) ELSE d[3] * w * h
  IN IF pp > rr \/ qq > rr THEN "OUT"
     ELSE LET g == IF rr <= 32767 THEN 1 ELSE GCD(GCD(pp, qq), rr)      \* keep the squares within 32 bits
              c == Cmp(Sq(pp \div g) + Sq(qq \div g), Sq(rr \div g))
          IN CASE c = "LT" -> "IN" [] c = "GT" -> "OUT" [] OTHER -> "EDGE"

InRectangle(cx, cy, w, h, d, p) ==
  LET dx == p[1] - cx  dy == p[2] - cy
      u == d[1] * dx + d[2] * dy
      v == d[2] * dx - d[1] * dy
      a == Cmp(2 * Abs(u), d[3] * w)
      b == Cmp(2 * Abs(v), d[3] * h)
  IN IF a = "GT" \/ b = "GT" THEN "OUT" ELSE IF a = "LT" /\ b = "LT" THEN "IN" ELSE "EDGE"

Prev(i, n) == IF i = 1 THEN n ELSE i - 1
Between(a, x, b) == (a <= x /\ x <= b) \/ (b <= x /\ x <= a)
OnSegment(p, a, b) ==
  /\ (b[1] - a[1]) * (p[2] - a[2]) - (b[2] - a[2]) * (p[1] - a[1]) = 0
  /\ Between(a[1], p[1], b[1]) /\ Between(a[2], p[2], b[2])
(* the horizontal ray from p towards +x crosses edge (vi, vj) *)
Crosses(p, vi, vj) ==
  /\ (vi[2] > p[2]) # (vj[2] > p[2])
  /\ LET dyv == vj[2] - vi[2]
         num == (vj[1] - vi[1]) * (p[2] - vi[2])
     IN IF dyv > 0 THEN (p[1] - vi[1]) * dyv < num ELSE (p[1] - vi[1]) * dyv > num
InPolygon(vs, p) ==                         \* even-odd rule
  LET n == Len(vs) IN
  IF \E i \in 1..n : OnSegment(p, vs[i], vs[Prev(i, n)]) THEN "EDGE"
  ELSE IF Cardinality({i \in 1..n : Crosses(p, vs[i], vs[Prev(i, n)])}) % 2 = 1 THEN "IN" ELSE "OUT"

(* ---------------- membership ---------------- *)
RECURSIVE Member(_, _)
Raw(s, p) ==
  CASE s.k = "circle" -> InCircle(s.cx, s.cy, s.r, p)
    [] s.k = "ellipse" -> InEllipse(s.cx, s.cy, s.w, s.h, s.d, p)
    [] s.k = "rectangle" -> InRectangle(s.cx, s.cy, s.w, s.h, s.d, p)
    [] s.k = "polygon" -> InPolygon(s.vs, p)
    [] s.k = "cannulus" -> And3(InCircle(s.cx, s.cy, s.r2, p), Not3(InCircle(s.cx, s.cy, s.r1, p)))
    [] s.k = "eannulus" -> And3(InEllipse(s.cx, s.cy, s.w2, s.h2, s.d, p),
                                Not3(InEllipse(s.cx, s.cy, s.w1, s.h1, s.d, p)))
    [] s.k = "rannulus" -> And3(InRectangle(s.cx, s.cy, s.w2, s.h2, s.d, p),
                                Not3(InRectangle(s.cx, s.cy, s.w1, s.h1, s.d, p)))
    [] s.k \in {"point", "line", "text"} -> "OUT"
    [] s.k = "compound" -> Op3(s.op, Member(s.a, p), Member(s.b, p))
Member(s, p) == IF Included(s.inc) THEN Raw(s, p) ELSE Not3(Raw(s, p))

(* Impl of an annulus as the code builds it: xor of inner and outer helper regions that share *)
(* the annulus' meta (so each helper is negated when the annulus is excluded), then negated   *)
(* as a whole.                                                                                 *)
AnnulusParts(s) ==
  CASE s.k = "cannulus" -> <<[k |-> "circle", cx |-> s.cx, cy |-> s.cy, r |-> s.r1, inc |-> s.inc],
                             [k |-> "circle", cx |-> s.cx, cy |-> s.cy, r |-> s.r2, inc |-> s.inc]>>
    [] s.k = "eannulus" -> <<[k |-> "ellipse", cx |-> s.cx, cy |-> s.cy, w |-> s.w1, h |-> s.h1, d |-> s.d, inc |-> s.inc],
                             [k |-> "ellipse", cx |-> s.cx, cy |-> s.cy, w |-> s.w2, h |-> s.h2, d |-> s.d, inc |-> s.inc]>>
    [] s.k = "rannulus" -> <<[k |-> "rectangle", cx |-> s.cx, cy |-> s.cy, w |-> s.w1, h |-> s.h1, d |-> s.d, inc |-> s.inc],
                             [k |-> "rectangle", cx |-> s.cx, cy |-> s.cy, w |-> s.w2, h |-> s.h2, d |-> s.d, inc |-> s.inc]>>
AnnulusAsXor(s) == [k |-> "compound", op |-> "xor", a |-> AnnulusParts(s)[1], b |-> AnnulusParts(s)[2], inc |-> s.inc]
IsAnnulus(s) == s.k \in {"cannulus", "eannulus", "rannulus"}

(* ---------------- bounding boxes (pixel indices, exclusive upper bound) ---------------- *)
(* an extent on one axis is centre c -+ sqrt(q)/den (all integers, units 1/U pixel).         *)
(* FloorLo = floor((c - e)/U + 1/2), CeilHi = ceil((c + e)/U + 1/2) found by comparing        *)
(* squares; Reach is the search radius in pixels.                                             *)
Reach == 40
LeSqrt(q, den, t) == t >= 0 /\ Sq(den * t) >= q           \* sqrt(q)/den <= t
EqSqrt(q, den, t) == t >= 0 /\ Sq(den * t) = q
FloorLo(c, q, den, U) ==
  LET k0 == c \div U
      K == {k \in (k0 - Reach)..(k0 + 1) : LeSqrt(q, den, c + (U \div 2) - k * U)}
  IN CHOOSE k \in K : \A j \in K : j <= k
CeilHi(c, q, den, U) ==
  LET k0 == c \div U
      K == {k \in k0..(k0 + Reach) : LeSqrt(q, den, k * U - (U \div 2) - c)}
  IN CHOOSE k \in K : \A j \in K : k <= j
AlignedLo(c, q, den, U) == EqSqrt(q, den, c + (U \div 2) - FloorLo(c, q, den, U) * U)
AlignedHi(c, q, den, U) == EqSqrt(q, den, CeilHi(c, q, den, U) * U - (U \div 2) - c)

SeqMin(f) == CHOOSE v \in {f[i] : i \in 1..Len(f)} : \A i \in 1..Len(f) : v <= f[i]
SeqMax(f) == CHOOSE v \in {f[i] : i \in 1..Len(f)} : \A i \in 1..Len(f) : v >= f[i]

(* per shape: <<cx, qx, denx, cy, qy, deny>> when symmetric about a centre; otherwise corners *)
BoxFromCentre(cx, qx, dnx, cy, qy, dny, U) ==
  [box |-> <<FloorLo(cx, qx, dnx, U), CeilHi(cx, qx, dnx, U), FloorLo(cy, qy, dny, U), CeilHi(cy, qy, dny, U)>>,
   aligned |-> AlignedLo(cx, qx, dnx, U) \/ AlignedHi(cx, qx, dnx, U) \/ AlignedLo(cy, qy, dny, U) \/ AlignedHi(cy, qy, dny, U)]
BoxFromCorners(x0, x1, y0, y1, U) ==
  [box |-> <<FloorLo(x0, 0, 1, U), CeilHi(x1, 0, 1, U), FloorLo(y0, 0, 1, U), CeilHi(y1, 0, 1, U)>>,
   aligned |-> AlignedLo(x0, 0, 1, U) \/ AlignedHi(x1, 0, 1, U) \/ AlignedLo(y0, 0, 1, U) \/ AlignedHi(y1, 0, 1, U)]

UnionBox(a, b) == <<Min(a[1], b[1]), Max(a[2], b[2]), Min(a[3], b[3]), Max(a[4], b[4])>>

RECURSIVE BoxOf(_, _)
BoxOf(s, U) ==
  CASE s.k = "circle" -> BoxFromCentre(s.cx, Sq(s.r), 1, s.cy, Sq(s.r), 1, U)
    [] s.k = "cannulus" -> BoxFromCentre(s.cx, Sq(s.r2), 1, s.cy, Sq(s.r2), 1, U)
    [] s.k = "ellipse" ->       \* half extents sqrt((w c)^2 + (h s)^2)/(2 hh), sqrt((w s)^2 + (h c)^2)/(2 hh)
         BoxFromCentre(s.cx, Sq(s.w * s.d[1]) + Sq(s.h * s.d[2]), 2 * s.d[3],
                       s.cy, Sq(s.w * s.d[2]) + Sq(s.h * s.d[1]), 2 * s.d[3], U)
    [] s.k = "eannulus" ->
         BoxFromCentre(s.cx, Sq(s.w2 * s.d[1]) + Sq(s.h2 * s.d[2]), 2 * s.d[3],
                       s.cy, Sq(s.w2 * s.d[2]) + Sq(s.h2 * s.d[1]), 2 * s.d[3], U)
    [] s.k = "rectangle" ->     \* half extents (|w c| + |h s|)/(2 hh), (|w s| + |h c|)/(2 hh)
         BoxFromCentre(s.cx, Sq(Abs(s.w * s.d[1]) + Abs(s.h * s.d[2])), 2 * s.d[3],
                       s.cy, Sq(Abs(s.w * s.d[2]) + Abs(s.h * s.d[1])), 2 * s.d[3], U)
    [] s.k = "rannulus" ->
         BoxFromCentre(s.cx, Sq(Abs(s.w2 * s.d[1]) + Abs(s.h2 * s.d[2])), 2 * s.d[3],
                       s.cy, Sq(Abs(s.w2 * s.d[2]) + Abs(s.h2 * s.d[1])), 2 * s.d[3], U)
    [] s.k = "polygon" ->
         LET xs == [i \in 1..Len(s.vs) |-> s.vs[i][1]]  ys == [i \in 1..Len(s.vs) |-> s.vs[i][2]]
         IN BoxFromCorners(SeqMin(xs), SeqMax(xs), SeqMin(ys), SeqMax(ys), U)
    [] s.k = "line" -> BoxFromCorners(Min(s.x1, s.x2), Max(s.x1, s.x2), Min(s.y1, s.y2), Max(s.y1, s.y2), U)
    [] s.k \in {"point", "text"} -> BoxFromCorners(s.cx, s.cx, s.cy, s.cy, U)
    [] s.k = "compound" ->
         LET a == BoxOf(s.a, U)  b == BoxOf(s.b, U)
         IN [box |-> UnionBox(a.box, b.box), aligned |-> a.aligned \/ b.aligned]

(* the same shape with every size multiplied by 1 + delta, delta > 0 far below any lattice step but far above floating-point noise:  *)
(* an extreme that lay exactly on a pixel edge now pokes past it, so the box gains that row / column - and only there           *)
CentreExt(s) ==
  CASE s.k = "circle" -> <<s.cx, Sq(s.r), 1, s.cy, Sq(s.r), 1>>
    [] s.k = "ellipse" -> <<s.cx, Sq(s.w * s.d[1]) + Sq(s.h * s.d[2]), 2 * s.d[3], s.cy, Sq(s.w * s.d[2]) + Sq(s.h * s.d[1]), 2 * s.d[3]>>
    [] s.k = "rectangle" -> <<s.cx, Sq(Abs(s.w * s.d[1]) + Abs(s.h * s.d[2])), 2 * s.d[3], s.cy, Sq(Abs(s.w * s.d[2]) + Abs(s.h * s.d[1])), 2 * s.d[3]>>
GrownBox(s, U) ==
  LET e == CentreExt(s) IN
  <<FloorLo(e[1], e[2], e[3], U) - (IF AlignedLo(e[1], e[2], e[3], U) THEN 1 ELSE 0),
    CeilHi(e[1], e[2], e[3], U) + (IF AlignedHi(e[1], e[2], e[3], U) THEN 1 ELSE 0),
    FloorLo(e[4], e[5], e[6], U) - (IF AlignedLo(e[4], e[5], e[6], U) THEN 1 ELSE 0),
    CeilHi(e[4], e[5], e[6], U) + (IF AlignedHi(e[4], e[5], e[6], U) THEN 1 ELSE 0)>>

(* ---------------- masks ---------------- *)
(* Ref: value of pixel (ix, iy) = number of the n x n regularly spaced sub-sample centres    *)
(* that are members of the *included* shape (masks ignore the include flag), or -1 if any     *)
(* sample is EDGE (don't care).  U must be a multiple of 2n.                                  *)
Plain(s) == [s EXCEPT !.inc = "absent"]
RECURSIVE ShapeOnly(_)
ShapeOnly(s) == IF s.k = "compound" THEN [s EXCEPT !.inc = "absent", !.a = ShapeOnly(s.a), !.b = ShapeOnly(s.b)]
                ELSE Plain(s)
SamplePos(i, U, n, sub) == i * U - (U \div 2) + (2 * sub - 1) * (U \div (2 * n))
PixelCount(s, ix, iy, U, n) ==
  LET pts == {<<SamplePos(ix, U, n, a), SamplePos(iy, U, n, b)>> : a \in 1..n, b \in 1..n}
      ans == [p \in pts |-> Member(s, p)]
  IN IF \E p \in pts : ans[p] = "EDGE" THEN -1 ELSE Cardinality({p \in pts : ans[p] = "IN"})
GridOn(s, box, U, n) ==
  [j \in 1..(box[4] - box[3]) |-> [i \in 1..(box[2] - box[1]) |-> PixelCount(s, box[1] + i - 1, box[3] + j - 1, U, n)]]
MaskRef(s, U, n) == GridOn(ShapeOnly(s), BoxOf(s, U).box, U, n)

(* Impl of a compound's centre mask as compound.py does it: each operand's own mask on its    *)
(* own box, padded on the four sides up to the union box, then the operator on 0/1 integers.  *)
Pad(grid, box, ubox) ==
  LET pl == Abs(box[1] - ubox[1])  pr == Abs(ubox[2] - box[2])
      pb == Abs(box[3] - ubox[3])  pt == Abs(ubox[4] - box[4])
      ny == box[4] - box[3]  nx == box[2] - box[1]
  IN [j \in 1..(pb + ny + pt) |-> [i \in 1..(pl + nx + pr) |->
        IF j > pb /\ j <= pb + ny /\ i > pl /\ i <= pl + nx THEN grid[j - pb][i - pl] ELSE 0]]
BitOp(op, x, y) == IF x = -1 \/ y = -1 THEN -1
                   ELSE CASE op = "and" -> IF x = 1 /\ y = 1 THEN 1 ELSE 0
                          [] op = "or" -> IF x = 1 \/ y = 1 THEN 1 ELSE 0
                          [] op = "xor" -> IF x # y THEN 1 ELSE 0
RECURSIVE MaskImpl(_, _)
MaskImpl(s, U) ==               \* centre mode only (n = 1)
  IF s.k = "compound"
    THEN LET ub == BoxOf(s, U).box
             ga == Pad(MaskImpl(s.a, U), BoxOf(s.a, U).box, ub)
             gb == Pad(MaskImpl(s.b, U), BoxOf(s.b, U).box, ub)
         IN [j \in 1..Len(ga) |-> [i \in 1..Len(ga[j]) |-> BitOp(s.op, ga[j][i], gb[j][i])]]
  ELSE IF IsAnnulus(s) THEN MaskImpl(AnnulusAsXor(s), U)
  ELSE GridOn(Plain(s), BoxOf(s, U).box, U, 1)

(* which (shape, mode) combinations yield a mask; the others raise NotImplementedError *)
RECURSIVE Supported(_, _)
Supported(s, mode) ==
  CASE s.k \in {"circle", "ellipse"} -> TRUE
    [] s.k \in {"rectangle", "polygon"} -> mode \in {"center", "subpixels"}
    [] s.k \in {"cannulus", "eannulus", "rannulus"} -> mode = "center"
    [] s.k = "compound" -> mode = "center" /\ Supported(s.a, mode) /\ Supported(s.b, mode)     \* a compound of a point, a line or a text has no mask either
    [] OTHER -> FALSE
Modes == <<"center", "subpixels", "exact">>

(* ---------------- derived polygons ---------------- *)
(* corners of a rotated rectangle, in units 1/(2 h U) (h = d[3]): the order of RectanglePixelRegion.corners            *)
(* (-w/2,-h/2), (w/2,-h/2), (w/2,h/2), (-w/2,h/2), each rotated by the region's direction about the centre               *)
CornerSigns == << <<-1, -1>>, <<1, -1>>, <<1, 1>>, <<-1, 1>> >>
Corners2h(s) == [k \in 1..4 |->
   <<2 * s.d[3] * s.cx + CornerSigns[k][1] * s.w * s.d[1] - CornerSigns[k][2] * s.h * s.d[2],
     2 * s.d[3] * s.cy + CornerSigns[k][1] * s.w * s.d[2] + CornerSigns[k][2] * s.h * s.d[1]>>]
(* to_polygon(): the polygon of the corners (same include flag); expressed in units 1/(2 h U) *)
ToPolygon2h(s) == [k |-> "polygon", vs |-> Corners2h(s), inc |-> s.inc]

(* ---------------- rigid motions ---------------- *)
(* Rotating by e = <<c, s, h>> about pivot multiplies the unit by h: the result is expressed  *)
(* in units 1/(U h).                                                                          *)
RotPoint(p, pivot, e) == <<pivot[1] * e[3] + e[1] * (p[1] - pivot[1]) - e[2] * (p[2] - pivot[2]),
                           pivot[2] * e[3] + e[2] * (p[1] - pivot[1]) + e[1] * (p[2] - pivot[2])>>
RECURSIVE Rotate(_, _, _)
Rotate(s, pivot, e) ==
  LET h == e[3]
      c == IF s.k \in {"polygon", "line", "compound"} THEN <<0, 0>> ELSE RotPoint(<<s.cx, s.cy>>, pivot, e)
  IN CASE s.k = "circle" -> [s EXCEPT !.cx = c[1], !.cy = c[2], !.r = s.r * h]
       [] s.k \in {"ellipse", "rectangle"} ->
            [s EXCEPT !.cx = c[1], !.cy = c[2], !.w = s.w * h, !.h = s.h * h, !.d = DirMul(s.d, e)]
       [] s.k = "polygon" -> [s EXCEPT !.vs = [i \in 1..Len(s.vs) |-> RotPoint(s.vs[i], pivot, e)]]
       [] s.k = "cannulus" -> [s EXCEPT !.cx = c[1], !.cy = c[2], !.r1 = s.r1 * h, !.r2 = s.r2 * h]
       [] s.k \in {"eannulus", "rannulus"} ->
            [s EXCEPT !.cx = c[1], !.cy = c[2], !.w1 = s.w1 * h, !.h1 = s.h1 * h,
                      !.w2 = s.w2 * h, !.h2 = s.h2 * h, !.d = DirMul(s.d, e)]
       [] s.k \in {"point", "text"} -> [s EXCEPT !.cx = c[1], !.cy = c[2]]
       [] s.k = "line" -> LET a == RotPoint(<<s.x1, s.y1>>, pivot, e)  b == RotPoint(<<s.x2, s.y2>>, pivot, e)
                          IN [s EXCEPT !.x1 = a[1], !.y1 = a[2], !.x2 = b[1], !.y2 = b[2]]
       [] s.k = "compound" -> [s EXCEPT !.a = Rotate(s.a, pivot, e), !.b = Rotate(s.b, pivot, e)]

RECURSIVE ScaleDirs(_, _)
ScaleDirs(s, m) ==      \* the same direction written with all three entries multiplied by m
  CASE s.k \in {"ellipse", "rectangle", "eannulus", "rannulus"} -> [s EXCEPT !.d = <<s.d[1] * m, s.d[2] * m, s.d[3] * m>>]
    [] s.k = "compound" -> [s EXCEPT !.a = ScaleDirs(s.a, m), !.b = ScaleDirs(s.b, m)]
    [] OTHER -> s

RECURSIVE Translate(_, _, _)
Translate(s, tx, ty) ==
  CASE s.k \in {"circle", "ellipse", "rectangle", "cannulus", "eannulus", "rannulus", "point", "text"} ->
         [s EXCEPT !.cx = s.cx + tx, !.cy = s.cy + ty]
    [] s.k = "polygon" -> [s EXCEPT !.vs = [i \in 1..Len(s.vs) |-> <<s.vs[i][1] + tx, s.vs[i][2] + ty>>]]
    [] s.k = "line" -> [s EXCEPT !.x1 = s.x1 + tx, !.y1 = s.y1 + ty, !.x2 = s.x2 + tx, !.y2 = s.y2 + ty]
    [] s.k = "compound" -> [s EXCEPT !.a = Translate(s.a, tx, ty), !.b = Translate(s.b, tx, ty)]

RECURSIVE Scale(_, _)
Scale(s, m) ==
  CASE s.k = "circle" -> [s EXCEPT !.cx = s.cx * m, !.cy = s.cy * m, !.r = s.r * m]
    [] s.k \in {"ellipse", "rectangle"} -> [s EXCEPT !.cx = s.cx * m, !.cy = s.cy * m, !.w = s.w * m, !.h = s.h * m]
    [] s.k = "polygon" -> [s EXCEPT !.vs = [i \in 1..Len(s.vs) |-> <<s.vs[i][1] * m, s.vs[i][2] * m>>]]
    [] s.k = "cannulus" -> [s EXCEPT !.cx = s.cx * m, !.cy = s.cy * m, !.r1 = s.r1 * m, !.r2 = s.r2 * m]
    [] s.k \in {"eannulus", "rannulus"} ->
         [s EXCEPT !.cx = s.cx * m, !.cy = s.cy * m, !.w1 = s.w1 * m, !.h1 = s.h1 * m, !.w2 = s.w2 * m, !.h2 = s.h2 * m]
    [] s.k \in {"point", "text"} -> [s EXCEPT !.cx = s.cx * m, !.cy = s.cy * m]
    [] s.k = "line" -> [s EXCEPT !.x1 = s.x1 * m, !.y1 = s.y1 * m, !.x2 = s.x2 * m, !.y2 = s.y2 * m]
    [] s.k = "compound" -> [s EXCEPT !.a = Scale(s.a, m), !.b = Scale(s.b, m)]

(* ---------------- symbolic area: <<a, b, den>> means (a*pi/4 + b)/den square units ---------------- *)
PolyArea2(vs) ==                \* twice the shoelace area (absolute value)
  LET n == Len(vs)
      RECURSIVE S(_)
      S(i) == IF i > n THEN 0 ELSE vs[Prev(i, n)][1] * vs[i][2] - vs[i][1] * vs[Prev(i, n)][2] + S(i + 1)
  IN Abs(S(1))
Area(s) ==
  CASE s.k = "circle" -> <<4 * Sq(s.r), 0, 1>>
    [] s.k = "ellipse" -> <<s.w * s.h, 0, 1>>
    [] s.k = "rectangle" -> <<0, s.w * s.h, 1>>
    [] s.k = "polygon" -> <<0, PolyArea2(s.vs), 2>>
    [] s.k = "cannulus" -> <<4 * (Sq(s.r2) - Sq(s.r1)), 0, 1>>
    [] s.k = "eannulus" -> <<s.w2 * s.h2 - s.w1 * s.h1, 0, 1>>
    [] s.k = "rannulus" -> <<0, s.w2 * s.h2 - s.w1 * s.h1, 1>>
    [] s.k \in {"point", "line", "text"} -> <<0, 0, 1>>
=============================================================================
