--------------------------- MODULE Trace_Placement ---------------------------
(* Validates recorded RegionMask calls (boxes far outside the enumerated range, larger images) *)
(* against the Ref operators of Placement.tla.  One initial state per event; consecutive events  *)
(* are calls on the same RegionMask object (a history), each of which must be explained on its own. *)
EXTENDS PlacementOps, Json, IOUtils
Events == JsonDeserialize(IOEnv.TRACE_FILE)
(* results are logged in the model's encoding: arrays as sequences of rows (1-based here),      *)
(* cutout/multiply cells as <<"d", v>> / <<"f">> / <<"z">>, "none" for None                      *)
Rows(f, n, m) == IF f = None THEN <<>> ELSE [j \in 1..n |-> [i \in 1..m |-> f[j - 1][i - 1]]]
IsNone(e) == CASE e.op = "to_image" -> ToImageRef(e.box, e.pat, e.h, e.w, e.arg) = None
                [] e.op = "cutout" -> CutoutRef(e.box, e.h, e.w) = None
                [] e.op = "multiply" -> MultiplyRef(e.box, e.pat, e.h, e.w) = None
                [] OTHER -> FALSE
Expected(e) ==
  CASE e.op = "to_image" -> Rows(ToImageRef(e.box, e.pat, e.h, e.w, e.arg), e.h, e.w)
    [] e.op = "cutout" -> Rows(CutoutRef(e.box, e.h, e.w), NY(e.box), NX(e.box))
    [] e.op = "multiply" -> LET r == Rows(MultiplyRef(e.box, e.pat, e.h, e.w), NY(e.box), NX(e.box))       \* recorded with fill value 0: "zf" and "z" are both 0
                            IN [j \in 1..Len(r) |-> [k \in 1..Len(r[j]) |-> IF r[j][k] = <<"zf">> THEN <<"z">> ELSE r[j][k]]]
    [] e.op = "get_values" -> ValuesRef(e.box, e.pat, e.h, e.w, e.arg)
Verdict(e) == IF e.isnone # IsNone(e) THEN e.op \o ":none_iff_no_overlap"
              ELSE IF e.isnone \/ e.res = Expected(e) THEN "ok" ELSE e.op \o ":differs_from_placement"
VARIABLES i, verdict
Init == i \in 1..Len(Events) /\ verdict = Verdict(Events[i])
Next == UNCHANGED <<i, verdict>>
Spec == Init /\ [][Next]_<<i, verdict>>
=============================================================================
