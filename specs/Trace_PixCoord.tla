--------------------------- MODULE Trace_PixCoord ---------------------------
(* Validates recorded PixCoord calls on random affine-filled arrays against PixCoord.tla.      *)
(* Event: [op, s1, ax, bx, ay, by (x = ax*n + bx over shape s1), s2 .., expr, rx, ry] where rx,  *)
(* ry are the observed components as [shape, vals (row-major)] or "error".                       *)
EXTENDS PixCoord, Json, IOUtils
Events == JsonDeserialize(IOEnv.TRACE_FILE)
RowMajor(arr) ==       \* values in row-major order
  LET n == Size(arr.shape)
      RECURSIVE Unflat(_, _)
      Unflat(k, shape) == IF shape = <<>> THEN <<>>
                          ELSE LET sz == Size(Tail(shape)) IN <<k \div sz>> \o Unflat(k % sz, Tail(shape))
  IN [k \in 1..n |-> arr.f[Unflat(k - 1, arr.shape)]]
Obs(arr) == IF arr = Err THEN "error" ELSE [shape |-> arr.shape, vals |-> RowMajor(arr)]
Verdict(e) ==
  LET x == MkArr(e.s1, e.ax, e.bx)  y == MkArr(e.s1, e.ay, e.by) IN
  CASE e.op = "index" ->
         IF Obs(IndexArr(x, e.expr)) = e.rx /\ Obs(IndexArr(y, e.expr)) = e.ry THEN "ok" ELSE "index:differs_from_array_indexing"
    [] e.op = "add" ->
         LET q == <<MkArr(e.s2, e.cx, e.dx), MkArr(e.s2, e.cy, e.dy)>>  r == Add(<<x, y>>, q) IN
         IF Obs(r[1]) = e.rx /\ Obs(r[2]) = e.ry THEN "ok" ELSE "add:not_componentwise"
    [] e.op = "sub" ->
         LET q == <<MkArr(e.s2, e.cx, e.dx), MkArr(e.s2, e.cy, e.dy)>>  r == Sub(<<x, y>>, q) IN
         IF Obs(r[1]) = e.rx /\ Obs(r[2]) = e.ry THEN "ok" ELSE "sub:not_componentwise"
    [] e.op = "sep2" ->
         LET q == <<MkArr(e.s2, e.cx, e.dx), MkArr(e.s2, e.cy, e.dy)>> IN
         IF Obs(Sep2(<<x, y>>, q)) = e.rx THEN "ok" ELSE "separation:not_euclidean"
    [] OTHER -> "unknown"
VARIABLES i, verdict
Init == i \in 1..Len(Events) /\ verdict = Verdict(Events[i])
Next == UNCHANGED <<i, verdict>>
Spec == Init /\ [][Next]_<<i, verdict>>
=============================================================================
