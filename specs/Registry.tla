------------------------------ MODULE Registry ------------------------------
(* The I/O registry (regions/core/registry.py) and the format identifiers (regions/io/*/connect.py).   *)
(* reg is the registry table: a set of keys <<class, method, format>>; order is the sequence in which     *)
(* the 'identify' functions were registered (the registry is an insertion-ordered dict and                  *)
(* identify_format takes the first identifier that answers True).  A call is split into the steps the       *)
(* code takes: Identify (only when no format is given) -> Lookup -> Invoke.                                   *)
(*                                                                                                          *)
(* A file is [ext, sig]: its (lower-cased) extension and the format whose content signature it carries        *)
(* ("none" for foreign content); compression is transparent for the content test.                             *)
EXTENDS Integers, Sequences, FiniteSets, TLC
CONSTANTS Classes,       \* e.g. {"Regions", "Region"}
          Formats,       \* registered formats
          Exts           \* file extensions to explore

Methods == {"read", "write", "parse", "serialize"}
None == "none"
WriteExts(f) == CASE f = "ds9" -> {".ds9", ".reg"} [] f = "crtf" -> {".crtf"} [] f = "fits" -> {".fits", ".fit", ".fts"} [] OTHER -> {}
ReadExts(f) == WriteExts(f) \cup {e \o ".gz" : e \in WriteExts(f)}
(* what one identifier answers *)
Ident(f, method, file) ==
  CASE method = "write" -> file.ext \in WriteExts(f)
    [] method = "read" -> file.ext \in ReadExts(f) \/ file.sig = f
    [] OTHER -> FALSE
Claimants(method, file, fs) == {f \in fs : Ident(f, method, file)}

Key(c, m, f) == <<c, m, f>>
VARIABLES reg, order, pc, req, fmt, res
vars == <<reg, order, pc, req, fmt, res>>

Files == [ext : Exts, sig : Formats \cup {None}]
Requests == [cls : Classes, method : Methods, format : Formats \cup {None, "bogus"}, file : Files]
NoReq == [cls |-> None, method |-> None, format |-> None, file |-> [ext |-> None, sig |-> None]]
AllOrders == {s \in [1..Cardinality(Formats) -> Formats] : \A i, j \in 1..Cardinality(Formats) : i # j => s[i] # s[j]}
FullTable == {Key(c, m, f) : c \in Classes, m \in Methods \cup {"identify"}, f \in Formats}

Init == /\ order \in AllOrders                       \* every registration order of the identifiers
        /\ reg \in {FullTable} \cup {FullTable \ {Key(c, m, f)} : c \in Classes, m \in Methods, f \in Formats}   \* complete, or one entry missing
        /\ pc = "idle" /\ req = NoReq /\ fmt = None /\ res = <<None, None>>

(* ---- registration ---- *)
RegisterDup(k) == /\ pc = "idle" /\ k \in reg /\ res' = <<"ValueError", k>> /\ pc' = "done" /\ UNCHANGED <<reg, order, req, fmt>>
RegisterNew(k) == /\ pc = "idle" /\ k \notin reg /\ reg' = reg \cup {k} /\ res' = <<"registered", k>> /\ pc' = "done" /\ UNCHANGED <<order, req, fmt>>

(* ---- a call ---- *)
Call(r) == /\ pc = "idle" /\ req' = r /\ fmt' = r.format
           /\ pc' = IF r.format # None THEN "lookup" ELSE IF r.method \in {"parse", "serialize"} THEN "noformat" ELSE "identify"
           /\ UNCHANGED <<reg, order, res>>
NoFormat == /\ pc = "noformat" /\ res' = <<"IORegistryError", "no-format">> /\ pc' = "done" /\ UNCHANGED <<reg, order, req, fmt>>
(* the first identifier, in registration order, that is registered for the class and answers True *)
FirstMatch(r) == LET idx == {i \in 1..Len(order) : Key(r.cls, "identify", order[i]) \in reg /\ Ident(order[i], r.method, r.file)}
                 IN IF idx = {} THEN None ELSE order[CHOOSE i \in idx : \A j \in idx : i <= j]
Identify == /\ pc = "identify"
            /\ LET f == FirstMatch(req) IN
               IF f = None THEN res' = <<"IORegistryError", "no-format">> /\ pc' = "done" /\ UNCHANGED fmt
               ELSE fmt' = f /\ pc' = "lookup" /\ UNCHANGED res
            /\ UNCHANGED <<reg, order, req>>
Lookup == /\ pc = "lookup"
          /\ IF Key(req.cls, req.method, fmt) \in reg THEN pc' = "invoke" /\ UNCHANGED res
             ELSE res' = <<"IORegistryError", "no-function">> /\ pc' = "done"
          /\ UNCHANGED <<reg, order, req, fmt>>
Invoke == /\ pc = "invoke" /\ res' = <<"invoked", Key(req.cls, req.method, fmt)>> /\ pc' = "done" /\ UNCHANGED <<reg, order, req, fmt>>
(* ---- the table of formats shown to the user (get_formats): one row per format that has any entry for the class ---- *)
Cols == <<"parse", "serialize", "read", "write", "identify">>
FormatRows(table, c) == {<<f, [i \in 1..5 |-> Key(c, Cols[i], f) \in table]>> : f \in {k[3] : k \in {q \in table : q[1] = c}}}
GetFormats(c) == /\ pc = "idle" /\ res' = <<"formats", FormatRows(reg, c)>> /\ pc' = "done"
                 /\ req' = [NoReq EXCEPT !.cls = c, !.method = "get_formats"] /\ UNCHANGED <<reg, order, fmt>>
Next == \/ \E k \in FullTable : RegisterDup(k) \/ RegisterNew(k)
        \/ \E c \in Classes : GetFormats(c)
        \/ \E r \in Requests : Call(r)
        \/ NoFormat \/ Identify \/ Lookup \/ Invoke
Spec == Init /\ [][Next]_vars
Done == pc = "done"

(* ---------------- properties ---------------- *)
(* registration never replaces an entry: the table only grows, and a duplicate is refused without effect *)
TableOnlyGrows == [][reg \subseteq reg']_vars
DupRefused == Done /\ res[1] = "ValueError" => res[2] \in reg
(* the function invoked is the one registered for the class, the method asked for and the format given *)
FormatsTableFaithful == Done /\ res[1] = "formats" =>
                          \A f \in Formats, i \in 1..5 : (Key(req.cls, Cols[i], f) \in reg) <=> (\E row \in res[2] : row[1] = f /\ row[2][i])
GivenFormatWins == Done /\ req.cls # None /\ req.format # None /\ res[1] = "invoked" => res[2] = Key(req.cls, req.method, req.format)
(* ... or, without a format, a format that claims the file; when exactly one format claims it, that one - whatever the registration order *)
IdentifiedClaims == Done /\ req.cls # None /\ req.format = None /\ res[1] = "invoked" =>
                      /\ res[2][1] = req.cls /\ res[2][2] = req.method
                      /\ res[2][3] \in Claimants(req.method, req.file, Formats)
UniqueClaimWins == Done /\ req.cls # None /\ req.format = None /\ req.method \in {"read", "write"} =>
                     LET cl == Claimants(req.method, req.file, {f \in Formats : Key(req.cls, "identify", f) \in reg}) IN
                     /\ (cl = {} => res = <<"IORegistryError", "no-format">>)
                     /\ (Cardinality(cl) = 1 /\ res[1] = "invoked" => res[2][3] \in cl)
(* a file written under a registered extension and read back under the same name is identified as the format it was written in *)
WriteThenReadSameFormat == \A f \in Formats : \A e \in WriteExts(f) :
                              \A g \in Formats : Ident(g, "write", [ext |-> e, sig |-> None]) => g = f
(* nothing is invoked for an unknown format or a missing table entry, and parse/serialize never guess *)
NeverGuess == Done /\ req.cls # None /\ res[1] = "invoked" => res[2] \in reg
NoGuessParse == Done /\ req.cls # None /\ req.format = None /\ req.method \in {"parse", "serialize"} => res = <<"IORegistryError", "no-format">>
=============================================================================
