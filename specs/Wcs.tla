--------------------------------- MODULE Wcs ---------------------------------
(* C06 / C07: pixel <-> sky conversion of regions through an undistorted celestial WCS, near    *)
(* its reference pixel, abstracted as a conformal affine map                                     *)
(*      (xi, eta) = CD (p - crpix),   CD = scale * R(rot) * diag(-parity, 1)                      *)
(* (xi east, eta north, standard parity +1 has longitude increasing to the left).  Lengths are    *)
(* integers (pixel lengths in 1/U pixel; angular sizes = pixel size * scale), rotations rational  *)
(* directions <<c, s, h>>.  frame / proj / crval are configuration the predictions must not        *)
(* depend on.                                                                                      *)
(* Impl follows the code: to_sky multiplies lengths by the local scale, subtracts (north - 90deg)  *)
(* from the angle, copies meta and visual, converts compounds component-wise; to_pixel inverts.    *)
EXTENDS Integers, Sequences, FiniteSets, TLC

DirMul(d, e) == <<d[1] * e[1] - d[2] * e[2], d[2] * e[1] + d[1] * e[2], d[3] * e[3]>>
DirInv(d) == <<d[1], -d[2], d[3]>>
SameDir(d, e) == d[1] * e[3] = e[1] * d[3] /\ d[2] * e[3] = e[2] * d[3]       \* equal as unit vectors
(* direction of local north in the pixel frame, and of (north - 90 deg) *)
North(w) == <<-w.parity * w.rot[2], w.rot[1], w.rot[3]>>
NorthMinus90(w) == <<w.rot[1], w.parity * w.rot[2], w.rot[3]>>

HasAngle(r) == r.k \in {"ellipse", "rectangle", "eannulus", "rannulus"}
Sizes(r) == CASE r.k = "circle" -> {"r"} [] r.k \in {"ellipse", "rectangle"} -> {"w", "h"} [] r.k = "cannulus" -> {"r1", "r2"}
              [] r.k \in {"eannulus", "rannulus"} -> {"w1", "h1", "w2", "h2"} [] OTHER -> {}

(* a sky region is represented by the pixel position its centre maps to (the WCS image of the sky *)
(* centre), its angular sizes (pixel size * scale, in scale units) and its sky angle               *)
RECURSIVE ToSky(_, _)
ToSky(r, w) ==
  IF r.k = "compound" THEN [r EXCEPT !.a = ToSky(r.a, w), !.b = ToSky(r.b, w), !.sky = TRUE]
  ELSE LET scaled == [f \in DOMAIN r |-> IF f \in Sizes(r) THEN r[f] * w.scale ELSE r[f]]
       IN IF HasAngle(r) THEN [scaled EXCEPT !.d = DirMul(r.d, DirInv(NorthMinus90(w))), !.sky = TRUE]
          ELSE [scaled EXCEPT !.sky = TRUE]
RECURSIVE ToPixel(_, _)
ToPixel(s, w) ==
  IF s.k = "compound" THEN [s EXCEPT !.a = ToPixel(s.a, w), !.b = ToPixel(s.b, w), !.sky = FALSE]
  ELSE LET scaled == [f \in DOMAIN s |-> IF f \in Sizes(s) THEN s[f] \div w.scale ELSE s[f]]
       IN IF HasAngle(s) THEN [scaled EXCEPT !.d = DirMul(s.d, NorthMinus90(w)), !.sky = FALSE]
          ELSE [scaled EXCEPT !.sky = FALSE]

RECURSIVE SameRegion(_, _)
SameRegion(a, b) ==
  IF a.k # b.k THEN FALSE
  ELSE IF a.k = "compound" THEN a.op = b.op /\ a.inc = b.inc /\ a.vis = b.vis /\ SameRegion(a.a, b.a) /\ SameRegion(a.b, b.b)
  ELSE /\ DOMAIN a = DOMAIN b
       /\ \A f \in DOMAIN a \ {"d"} : a[f] = b[f]
       /\ (HasAngle(a) => SameDir(a.d, b.d))
=============================================================================
