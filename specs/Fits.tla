-------------------------------- MODULE Fits --------------------------------
(* C12: FITS region tables (regions/io/fits/write.py, read.py).                                *)
(* A region is [cls, x, y (sequences), r (sequence of sizes), ang, inc, comp]; all numbers are  *)
(* integers in quarter pixels / quarter degrees (so halving ellipse axes is exact).  The writer  *)
(* is EncodeRow (shape name, '!' prefix, semi-axes, ROTANG) ; PadColumns ; NumberComponents,     *)
(* the reader DecodeRow per shape column map.  Unsupported items are skipped (stutter on rows).  *)
EXTENDS Integers, Sequences, FiniteSets, TLC
CONSTANTS Pool,          \* set of items: regions and unsupported things
          MaxLen,
          Deviations

Supported == {"point", "circle", "ellipse", "cannulus", "eannulus", "rectangle", "polygon", "regpoly4"}
IsRegion(it) == it.cls \in Supported
Excluded(inc) == inc \in {"F", "0"}
NoComp == -1
Max(a, b) == IF a >= b THEN a ELSE b

BaseName(cls) == CASE cls = "point" -> "point" [] cls = "circle" -> "circle" [] cls = "ellipse" -> "ellipse"
                   [] cls = "cannulus" -> "annulus" [] cls = "eannulus" -> "elliptannulus"
                   [] cls = "rectangle" -> "rotbox" [] cls = "polygon" -> "polygon"
ClassName(cls) == CASE cls = "cannulus" -> "circleannulus" [] cls = "eannulus" -> "ellipseannulus" [] OTHER -> cls
Halve(r) == [i \in 1..Len(r) |-> r[i] \div 2]
Double(r) == [i \in 1..Len(r) |-> r[i] * 2]

(* ---- writer ---- *)
(* a regular polygon is written as the polygon of its vertices, with its own meta (exclude flag, component):     *)
(* regpoly4 = 4 vertices, radius r[1], angle 0: top, left, bottom, right                                          *)
AsPolygon(g) == IF g.cls = "regpoly4"
                  THEN [g EXCEPT !.cls = "polygon", !.x = <<g.x[1], g.x[1] - g.r[1], g.x[1], g.x[1] + g.r[1]>>,
                                 !.y = <<g.y[1] + g.r[1], g.y[1], g.y[1] - g.r[1], g.y[1]>>, !.r = <<>>]
                  ELSE g
EncodeRow(g0) ==
  LET g == AsPolygon(g0) IN
  IF "BangBeforeMap" \in Deviations /\ Excluded(g.inc)
    THEN [shape |-> [excl |-> TRUE, name |-> ClassName(g.cls)], x |-> g.x, y |-> g.y, r |-> IF g.r = <<>> THEN <<0>> ELSE g.r, rotang |-> g.ang, comp |-> g.comp]
  ELSE [shape |-> [excl |-> Excluded(g.inc), name |-> BaseName(g.cls)], x |-> g.x, y |-> g.y,
        r |-> IF g.r = <<>> THEN <<0>> ELSE IF g.cls = "ellipse" THEN Halve(g.r) ELSE g.r,
        rotang |-> g.ang, comp |-> g.comp]
RECURSIVE Rows(_)
Rows(items) == IF items = <<>> THEN <<>>
               ELSE (IF IsRegion(Head(items)) THEN <<EncodeRow(Head(items))>> ELSE <<>>) \o Rows(Tail(items))   \* skipped with a warning
RECURSIVE MaxLenX(_)
MaxLenX(rows) == IF rows = <<>> THEN 0 ELSE Max(Len(Head(rows).x), MaxLenX(Tail(rows)))
RECURSIVE MaxLenR(_)
MaxLenR(rows) == IF rows = <<>> THEN 0 ELSE Max(Len(Head(rows).r), MaxLenR(Tail(rows)))
PadTo(s, n) == [i \in 1..n |-> IF i <= Len(s) THEN s[i] ELSE 0]
(* vertex columns are padded by repeating the last vertex, which leaves a polygon unchanged for any reader *)
PadEdge(s, n) == [i \in 1..n |-> IF i <= Len(s) THEN s[i] ELSE s[Len(s)]]
(* given component numbers are kept; missing ones get max+1, max+2, ...; no column when none is given *)
Given(rows) == {rows[i].comp : i \in 1..Len(rows)} \ {NoComp}
SetMax(S) == CHOOSE m \in S : \A k \in S : k <= m
NumberComponents(rows) ==
  IF Given(rows) = {} THEN rows
  ELSE LET base == SetMax(Given(rows))
           missing(i) == Cardinality({j \in 1..i : rows[j].comp = NoComp})
       IN [i \in 1..Len(rows) |-> IF rows[i].comp = NoComp THEN [rows[i] EXCEPT !.comp = base + missing(i)] ELSE rows[i]]
Table(items) ==
  LET rows == NumberComponents(Rows(items))
      wx == MaxLenX(rows)  wr == MaxLenR(rows)
  IN [i \in 1..Len(rows) |-> [rows[i] EXCEPT !.x = PadEdge(@, wx), !.y = PadEdge(@, wx), !.r = PadTo(@, wr)]]

(* ---- reader ---- *)
NVals(cls) == CASE cls = "point" -> 0 [] cls = "circle" -> 1 [] cls = "ellipse" -> 2 [] cls = "cannulus" -> 2
                [] cls = "eannulus" -> 4 [] cls = "rectangle" -> 2
ClsOfName(n) == CASE n = "point" -> "point" [] n = "circle" -> "circle" [] n = "ellipse" -> "ellipse" [] n = "annulus" -> "cannulus"
                  [] n = "elliptannulus" -> "eannulus" [] n \in {"rotbox", "box"} -> "rectangle" [] n = "polygon" -> "polygon" [] OTHER -> "invalid"
(* a polygon row: trailing repetitions of the last vertex are padding *)
RECURSIVE NVert(_, _, _)
NVert(x, y, n) == IF n > 1 /\ x[n] = x[n - 1] /\ y[n] = y[n - 1] THEN NVert(x, y, n - 1) ELSE n
DecodeRow(row) ==
  LET excl == row.shape.excl
      name == row.shape.name
      cls == ClsOfName(name)
  IN IF cls = "invalid" THEN [cls |-> "invalid"]
     ELSE [cls |-> cls,
           x |-> IF cls = "polygon" THEN SubSeq(row.x, 1, NVert(row.x, row.y, Len(row.x))) ELSE <<row.x[1]>>,
           y |-> IF cls = "polygon" THEN SubSeq(row.y, 1, NVert(row.x, row.y, Len(row.x))) ELSE <<row.y[1]>>,
           r |-> IF cls = "polygon" THEN <<>> ELSE IF cls = "ellipse" THEN Double(SubSeq(row.r, 1, 2)) ELSE SubSeq(row.r, 1, NVals(cls)),
           ang |-> IF cls \in {"ellipse", "eannulus", "rectangle"} THEN row.rotang ELSE 0,
           inc |-> IF excl THEN "0" ELSE "absent",
           comp |-> IF "ComponentOverwritesInclude" \in Deviations /\ row.comp # NoComp /\ excl THEN row.comp ELSE row.comp]
(* what a representable region comes back as *)
Representable(g0) == LET g == AsPolygon(g0) IN
                    [cls |-> g.cls, x |-> g.x, y |-> g.y, r |-> g.r,
                     ang |-> IF g.cls \in {"ellipse", "eannulus", "rectangle"} THEN g.ang ELSE 0,
                     inc |-> IF Excluded(g.inc) THEN "0" ELSE "absent", comp |-> g.comp]

(* ---- state machine: serialise a list, parse it back ---- *)
VARIABLES items, table, back, pc
vars == <<items, table, back, pc>>
Lists == UNION {[1..n -> Pool] : n \in 1..MaxLen}
Init == items \in Lists /\ table = <<>> /\ back = <<>> /\ pc = "serialize"
Serialize == pc = "serialize" /\ table' = Table(items) /\ pc' = "parse" /\ UNCHANGED <<items, back>>
Kept == SelectSeq(items, IsRegion)
Parse == /\ pc = "parse" /\ pc' = "done" /\ UNCHANGED <<items, table>>
         /\ back' = [i \in 1..Len(table) |-> DecodeRow(table[i])]
Next == Serialize \/ Parse
Spec == Init /\ [][Next]_vars
Done == pc = "done"

(* round trip: same classes, identical geometry, same exclude flag, given components kept *)
RoundTrip == Done => /\ Len(back) = Len(Kept)
                     /\ \A i \in 1..Len(back) : LET want == Representable(Kept[i]) IN
                          /\ back[i].cls = want.cls /\ back[i].x = want.x /\ back[i].y = want.y /\ back[i].r = want.r
                          /\ back[i].ang = want.ang /\ back[i].inc = want.inc
                          /\ (want.comp # NoComp => back[i].comp = want.comp)
(* component numbers: none when none given; otherwise all present and fresh ones distinct from everything *)
Components == Done => LET cs == [i \in 1..Len(back) |-> back[i].comp] IN
                      IF \A i \in 1..Len(Kept) : Kept[i].comp = NoComp THEN \A i \in 1..Len(cs) : cs[i] = NoComp
                      ELSE /\ \A i \in 1..Len(cs) : cs[i] # NoComp
                           /\ \A i, j \in 1..Len(cs) : (i # j /\ (Kept[i].comp = NoComp \/ Kept[j].comp = NoComp)) => cs[i] # cs[j]
(* unsupported items never corrupt the rows of the others: the table equals that of the supported items alone *)
SkipIsStutter == pc # "serialize" => table = Table(Kept)
(* parse -> serialise -> parse is a fixed point *)
FixedPoint == Done => LET t2 == Table(back) IN [i \in 1..Len(t2) |-> DecodeRow(t2[i])] = back
=============================================================================
