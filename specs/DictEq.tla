------------------------------- MODULE DictEq -------------------------------
(* C16: "equality ... fails as soon as ... any meta entry or any visual entry differs".             *)
(* Two regions of one class with the same parameters; their meta (or visual) dictionaries hold at     *)
(* most one entry under the same key k of the documented vocabulary, with values a and b ("absent":   *)
(* no entry).  The value tokens denote pairwise different Python values, among them the ones a        *)
(* "normalising" comparison would identify (None, the default style names, 0, the empty string, the   *)
(* empty list, lists that differ only in length).  Every state is one implementation test.            *)
EXTENDS Naturals, FiniteSets
MetaVocab == {"background", "comment", "component", "composite", "corr", "delete", "edit", "fixed", "frame", "highlite", "include",
              "label", "line", "move", "name", "range", "restfreq", "rotate", "select", "source", "tag", "text", "textrotate", "type", "veltype"}
VisualVocab == {"color", "dash", "dashlist", "fill", "font", "fontname", "fontsize", "fontstyle", "fontweight", "labeloff", "labelpos",
                "labelcolor", "line", "linestyle", "linewidth", "marker", "markersize", "symbol", "symsize", "symthick", "textangle",
                "textrotate", "usetex", "default_style", "dashes", "markeredgewidth", "rotation", "facecolor", "edgecolor"}
Vals == {"none", "mpl", "ds9", "zero", "two", "empty", "list0", "list_a", "list_aa", "twelve", "list_12_12", "list_8", "list_8_8"}
Absent == "absent"
Ord(v) == CASE v = "absent" -> 0 [] v = "none" -> 1 [] v = "mpl" -> 2 [] v = "ds9" -> 3 [] v = "zero" -> 4 [] v = "two" -> 5 [] v = "empty" -> 6 [] v = "list0" -> 7
            [] v = "list_a" -> 8 [] v = "list_aa" -> 9 [] v = "twelve" -> 10 [] v = "list_12_12" -> 11 [] v = "list_8" -> 12 [] v = "list_8_8" -> 13
Classes == {"CirclePix", "PolygonSky", "CompoundPix", "CompoundSky", "TextPix", "RegularPolygonPix", "EllipseAnnulusSky"}
Vocab(which) == IF which = "meta" THEN MetaVocab ELSE VisualVocab

VARIABLES cls, which, k, a, b, eq
vars == <<cls, which, k, a, b, eq>>
Init == /\ cls \in Classes /\ which \in {"meta", "visual"} /\ k \in Vocab(which)
        /\ a \in Vals \cup {Absent} /\ b \in Vals \cup {Absent} /\ eq = "?"
        /\ Ord(a) <= Ord(b)                       \* unordered pairs: the replay asks ==, != in both directions
(* dictionaries are equal iff they have the same keys with the same values *)
Eq(x, y) == x = y
Compare == eq = "?" /\ eq' = (IF Eq(a, b) THEN "eq" ELSE "ne") /\ UNCHANGED <<cls, which, k, a, b>>
Next == Compare
Spec == Init /\ [][Next]_vars
Done == eq # "?"
(* model-level laws *)
Reflexive == Done /\ a = b => eq = "eq"
SeesEntry == Done /\ a # b => eq = "ne"          \* in particular: an entry that is present differs from one that is absent
=============================================================================
