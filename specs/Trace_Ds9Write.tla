--------------------------- MODULE Trace_Ds9Write ---------------------------
(* Validates the numbers of DS9 serialise -> parse round trips recorded from the real package:   *)
(* event = [p, got (difference read - written in thousandths of 10^-p), half (allowed: 500 =      *)
(* half a unit, 1000 for ellipse axes which are written as semi-axes)].  Inclusive, with one      *)
(* thousandth of slack for the float representation of the written value.                          *)
EXTENDS Integers, Sequences, FiniteSets, TLC, Json, IOUtils
Events == JsonDeserialize(IOEnv.TRACE_FILE)
Abs(x) == IF x < 0 THEN -x ELSE x
Verdict(e) == IF \A j \in 1..Len(e.got) : Abs(e.got[j]) <= e.half[j] + 1 THEN "ok" ELSE "number_off_by_more_than_half_a_unit_of_the_precision"
VARIABLES i, verdict
Init == i \in 1..Len(Events) /\ verdict = Verdict(Events[i])
Next == UNCHANGED <<i, verdict>>
Spec == Init /\ [][Next]_<<i, verdict>>
=============================================================================
