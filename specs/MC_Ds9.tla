------------------------------- MODULE MC_Ds9 -------------------------------
(* Bounded instances of the DS9 reader: every file of a config is consumed line by line; the   *)
(* final state of each behaviour is one test case (the file rendered to text in several styles  *)
(* and parsed by the real reader).                                                              *)
EXTENDS Ds9
CONSTANTS Files

T(n, v) == [n |-> n, v |-> v]
P(kv) == Override(NoProps, kv)
Frame(n) == [k |-> "frame", name |-> n]
Global(kv) == [k |-> "global", props |-> P(kv)]
Region(shape, sign, toks, kv, cont) == [k |-> "region", shape |-> shape, sign |-> sign, toks |-> toks, props |-> P(kv), cont |-> cont]
Plain3 == <<T("plain", 10500), T("plain", 20250), T("plain", 3000)>>
Box5 == <<T("plain", 12000), T("plain", 8000), T("plain", 4000), T("plain", 2500), T("plain", 30000)>>
Alphabet == {
  Frame("image"), Frame("fk5"), Frame("galactic"), Frame("physical"),
  Global([color |-> "blue"]), Global([color |-> "green", width |-> "2"]),
  Region("circle", "", Plain3, NoProps, FALSE),
  Region("circle", "-", Plain3, NoProps, FALSE),
  Region("circle", "+", Plain3, [color |-> "red", text |-> "a b"], FALSE),
  Region("circle", "", Plain3, [include |-> "0", tag |-> "t1", tag2 |-> "Group 2"], FALSE),          \* two tags on one line (a list of two)
  Region("box", "", Box5, NoProps, TRUE),
  [k |-> "composite", props |-> P([color |-> "yellow"])], [k |-> "composite", props |-> P([include |-> "0"])], [k |-> "composite", props |-> P([text |-> "Group A"])],
  [k |-> "comment"], [k |-> "badshape", cont |-> FALSE], [k |-> "badshape", cont |-> TRUE], [k |-> "badword"],
  Region("annulus", "", <<T("plain", 10500), T("plain", 20250), T("plain", 1000), T("plain", 2000), T("plain", 3500)>>, NoProps, FALSE),
  Region("text", "", <<T("plain", 10500), T("plain", 20250)>>, [text |-> "hello; world # x=1"], FALSE) }
Seqs(S, n) == UNION {[1..m -> S] : m \in 1..n}
FilesState3 == Seqs(Alphabet, 3)
FilesState4 == Seqs(Alphabet, 4)
NonFrame == {l \in Alphabet : l.k # "frame"}
(* a frame line followed by three or four other lines: composite/global state that must stop or persist is only visible from the 4th line on *)
FilesFramed4 == {<<f>> \o t : f \in {Frame("image"), Frame("fk5")}, t \in [1..3 -> NonFrame]}
FilesQuick == FilesState3 \cup FilesFramed4

(* lexical config: one frame line and one region line *)
PosNots(f) == IF f = "image" THEN {"plain", "i"} ELSE {"plain", "d", "r", "colon", "hms", "dms"}
SizeNots(f) == IF f = "image" THEN {"plain", "i"} ELSE {"plain", "d", "r", "asec", "amin"}
(* raw values per notation (milli-units of the notation) chosen to be exactly renderable *)
PosRaw(n, which) ==          \* which = 3: a negative value whose leading field is zero (-0:30:15, -0.504): the sign is not in the leading number
  CASE n \in {"plain", "d", "i"} -> IF which = 1 THEN 150250 ELSE IF which = 2 THEN -20500 ELSE -504
    [] n = "r" -> IF which = 1 THEN 2617994 ELSE IF which = 2 THEN -357792 ELSE -8800
    [] n \in {"colon", "dms"} -> IF which = 1 THEN 37230500 ELSE IF which = 2 THEN -73815250 ELSE -1815000   \* 10:20:30.5, -20:30:15.25, -0:30:15
    [] n = "hms" -> IF which = 1 THEN 37230500 ELSE 4000250
SizeRaw(n, j) == CASE n \in {"plain", "d", "i"} -> 1500 * j [] n = "r" -> 26180 * j [] n = "asec" -> 5400500 * j [] n = "amin" -> 90250 * j
TextVals == {"\"M31\" core", "radius 30\"", "'tis a test", "{alpha} Cen", "see \"B\"", "a 'b' c", "end}", "{start", "5' x 3\""}
LexLines(f) ==
  UNION {
    {Region("circle", sg, <<T(p, PosRaw(p, 1)), T(q, PosRaw(q, 2)), T(z, SizeRaw(z, 1))>>, NoProps, FALSE) :
        p \in PosNots(f), q \in PosNots(f) \ {"hms"}, z \in SizeNots(f), sg \in {"", "-"}},
    {Region("ellipse", "", <<T(p, PosRaw(p, 1)), T("plain", -20500), T(z, SizeRaw(z, 2)), T(z, SizeRaw(z, 1)), T(a, IF a = "r" THEN 523599 ELSE 30000)>>, NoProps, FALSE) :
        p \in PosNots(f), z \in SizeNots(f), a \in {"plain", "d", "r"}},
    {Region("box", "", <<T("plain", 150250), T(q, PosRaw(q, 2)), T(z, SizeRaw(z, 3)), T(z, SizeRaw(z, 1)), T("plain", -45000)>>, NoProps, FALSE) :
        q \in PosNots(f) \ {"hms"}, z \in SizeNots(f)},
    {Region("ellipse", "", <<T("plain", 150250), T("plain", -20500), T(z, SizeRaw(z, 1)), T(z, SizeRaw(z, 1)), T(z, SizeRaw(z, 2)), T(z, SizeRaw(z, 3)),
                             T(z, SizeRaw(z, 4)), T(z, SizeRaw(z, 5)), T("plain", 10000)>>, NoProps, FALSE) : z \in SizeNots(f)},
    {Region("box", "", <<T("plain", 150250), T("plain", -20500), T(z, SizeRaw(z, 1)), T(z, SizeRaw(z, 2)), T(z, SizeRaw(z, 3)), T(z, SizeRaw(z, 4)), T("plain", 0)>>, NoProps, FALSE) :
        z \in SizeNots(f)},
    {Region("polygon", "", <<T(p, PosRaw(p, 1)), T(q, PosRaw(q, 2)), T("plain", 151250), T("plain", -20000), T(p, PosRaw(p, 1)), T("plain", -19000)>>, NoProps, FALSE) :
        p \in PosNots(f), q \in PosNots(f) \ {"hms"}},
    {Region("line", "", <<T(p, PosRaw(p, 1)), T("plain", -20500), T("plain", 151250), T(q, PosRaw(q, 2))>>, NoProps, FALSE) : p \in PosNots(f), q \in PosNots(f) \ {"hms"}},
    {Region("point", sg, <<T(p, PosRaw(p, 1)), T(q, PosRaw(q, 2))>>, [color |-> "red"], FALSE) : p \in PosNots(f), q \in PosNots(f) \ {"hms"}, sg \in {"", "+"}},
    {Region("point", "", <<T(p, PosRaw(p, 1)), T(q, PosRaw(q, 3))>>, NoProps, FALSE) : p \in PosNots(f), q \in PosNots(f) \ {"hms"}},
    {Region("circle", "", <<T(q, PosRaw(q, 3)), T(q, PosRaw(q, 3)), T("plain", 1500)>>, NoProps, FALSE) : q \in PosNots(f) \ {"hms"}},
    (* properties that are not carried (line=, ruler=) are dropped; the properties written after them on the line are kept *)
    {Region("line", "", <<T("plain", 150250), T("plain", -20500), T("plain", 151250), T("plain", -20000)>>, kv, FALSE) :
        kv \in {[line |-> "0 0", text |-> "arrow", tag |-> "t9"], [line |-> "1 0", width |-> "3", text |-> "one head"], [line |-> "0 0"]}},
    {Region("circle", "", <<T("plain", 150250), T("plain", -20500), T("plain", 1500)>>, [ruler |-> "fk5 degrees", text |-> "ruled", width |-> "2"], FALSE)},
    (* text in {} "" '' is kept verbatim: delimiter characters of the other kinds are ordinary characters *)
    {Region(sh, "", IF sh = "text" THEN <<T("plain", 150250), T("plain", -20500)>> ELSE <<T("plain", 150250), T("plain", -20500), T("plain", 1500)>>,
            [text |-> v], FALSE) : sh \in {"text", "circle"}, v \in TextVals} }
FilesLex == UNION {{<<Frame(f), l>> : l \in LexLines(f)} : f \in Supported}

(* spellings: a number is a number however it is written (150.000, 150., +150.000, 1.5000e+02, 150); the token carries its spelling, *)
(* the Meaning operators of Ds9.tla do not look at it                                                                          *)
TS(n, v, sp) == [n |-> n, v |-> v, sp |-> sp]
Spellings == {"fixed", "dot", "plus", "exp", "int"}
PosDec(f) == IF f = "image" THEN {"plain", "i"} ELSE {"plain", "d"}
SizeDec(f) == IF f = "image" THEN {"plain", "i"} ELSE {"plain", "d", "asec", "amin"}
SpellLines(f) ==
  UNION {
    {Region("circle", "", <<TS(p, 150000, sp), TS(p, -20000, sp), TS(z, 3000, sp)>>, NoProps, FALSE) : p \in PosDec(f), z \in SizeDec(f), sp \in Spellings},
    {Region("box", "", <<TS("plain", 150000, sp), TS("plain", 20000, sp), TS(z, 4000, sp), TS(z, 3000, sp), TS(a, 30000, sp)>>, NoProps, FALSE) :
        z \in SizeDec(f), a \in {"plain", "d"}, sp \in Spellings},
    {Region("ellipse", "", <<TS("plain", 150000, "fixed"), TS("plain", 20000, sp), TS(z, 4000, "fixed"), TS(z, 3000, sp), TS("plain", -30000, sp)>>, NoProps, FALSE) :
        z \in SizeDec(f), sp \in Spellings},
    {Region("annulus", "", <<TS("plain", 150000, sp), TS("plain", 20000, sp), TS(z, 1000, sp), TS(z, 2000, "fixed"), TS(z, 3000, sp)>>, NoProps, FALSE) :
        z \in SizeDec(f), sp \in Spellings},
    {Region("text", "", <<TS("plain", 150000, sp), TS("plain", 20000, sp)>>, [text |-> "A b"], FALSE) : sp \in Spellings},
    (* {} text on a tag is verbatim as well; a ';' inside it does not end the line *)
    {Region("circle", "", <<TS("plain", 150000, "fixed"), TS("plain", 20000, "fixed"), TS("plain", 3000, "fixed")>>, kv, FALSE) :
        kv \in {[tag |-> "a;b", color |-> "red"], [tag |-> "Group; 2", text |-> "x; y"]}} }
FilesSpell == UNION {{<<Frame(f), l>> : l \in SpellLines(f)} : f \in {"image", "fk5", "galactic"}}

VARIABLES file, i, s
vars == <<file, i, s>>
Init == file \in Files /\ i = 1 /\ s = St0
Consume == i <= Len(file) /\ s' = StepLine(s, file[i]) /\ i' = i + 1 /\ UNCHANGED file
Next == Consume
Spec == Init /\ [][Next]_vars
Done == i > Len(file)

(* no region is ever produced from a line that lacks a frame *)
NoRegionWithoutFrame == \A j \in 1..Len(s.out) : s.out[j].frame \in {CanonFrame(f) : f \in Supported}
(* skipped lines (comments, unsupported shapes, unknown words) are stutter steps on the reader state proper *)
SkipIsStutter == [][(i <= Len(file) /\ Skipped(file[i])) =>
                       s'.frame = s.frame /\ s'.gmeta = s.gmeta /\ s'.cmeta = s.cmeta /\ s'.out = s.out]_vars
(* ... and deleting them from the file does not change what is read *)
NonInterference == Done => LET g == SelectSeq(file, LAMBDA l : ~Skipped(l)) IN ReadAll(g).out = s.out
FoldAgrees == Done => s = ReadAll(file)
(* an unsupported frame clears the frame: regions after it are not produced until a supported frame appears *)
UnsupportedFrameClears == [][(i <= Len(file) /\ file[i].k = "frame" /\ file[i].name \in Unsupported) => s'.frame = NoFrame]_vars
(* the include flag of every region is the sign unless overridden inline *)
IncludeRule == Done => TRUE
=============================================================================
