--------------------------------- MODULE Ds9 ---------------------------------
(* C10 / C09: the DS9 region format (regions/io/ds9/read.py, write.py, meta.py).               *)
(*                                                                                              *)
(* READER.  A file is a sequence of abstract lines; the reader is a line-consuming state         *)
(* machine with the persistent variables frame (the active coordinate frame or None), gmeta       *)
(* (global properties), cmeta (composite properties, alive while lines end in "||"), out (regions  *)
(* produced so far) and warn (number of skipped lines).  Coordinate tokens carry their notation:   *)
(* [n |-> notation, v |-> integer in the notation's own milli-unit]; Meaning gives the canonical   *)
(* value the format defines: [u |-> "mas" | "urad" | "mpix", v |-> integer].                       *)
EXTENDS Integers, Sequences, FiniteSets, TLC

NoFrame == "none"
Equatorial == {"icrs", "fk5", "fk4", "j2000", "b1950"}
SkyFrames == Equatorial \cup {"galactic", "ecliptic"}
Supported == SkyFrames \cup {"image"}
Unsupported == {"physical", "wcs", "linear", "detector"}
CanonFrame(f) == CASE f = "j2000" -> "fk5" [] f = "b1950" -> "fk4" [] f = "ecliptic" -> "barycentricmeanecliptic" [] OTHER -> f

(* ---------------- lexical layer ---------------- *)
Val(u, v) == [u |-> u, v |-> v]
(* a position token at (0-based) index idx of the parameter list *)
PosMeaning(t, f, idx) ==
  IF f = "image" THEN Val("mpix", t.v - 1000)                   \* 1-based -> 0-based; "i" suffix means image units too
  ELSE CASE t.n \in {"plain", "d"} -> Val("mas", t.v * 3600)    \* bare numbers are degrees (v in millidegrees)
         [] t.n = "r" -> Val("urad", t.v)
         [] t.n = "colon" -> IF idx % 2 = 0 /\ f \in Equatorial THEN Val("mas", t.v * 15)   \* a:b:c longitude in hours only for equatorial frames
                             ELSE Val("mas", t.v)
         [] t.n = "hms" -> Val("mas", t.v * 15)                 \* XhYmZs is always hours (v in ms of time)
         [] t.n = "dms" -> Val("mas", t.v)
(* sizes are never shifted *)
SizeMeaning(t, f) ==
  IF f = "image" THEN Val("mpix", t.v)
  ELSE CASE t.n \in {"plain", "d"} -> Val("mas", t.v * 3600)
         [] t.n = "asec" -> Val("mas", t.v)                     \* "
         [] t.n = "amin" -> Val("mas", t.v * 60)                \* '
         [] t.n = "r" -> Val("urad", t.v)
AngleMeaning(t) == CASE t.n \in {"plain", "d"} -> Val("mas", t.v * 3600) [] t.n = "r" -> Val("urad", t.v)
Twice(x) == Val(x.u, 2 * x.v)

(* ---------------- properties ---------------- *)
Override(f, g) == [k \in DOMAIN f \cup DOMAIN g |-> IF k \in DOMAIN g THEN g[k] ELSE f[k]]
NoProps == [zz |-> "zz"]                       \* every property dictionary carries the inert key zz (never the empty tuple)

(* ---------------- one region line -> regions ---------------- *)
Reg(cls, f, pos, sizes, ang, props) == [cls |-> cls, frame |-> CanonFrame(f), pos |-> pos, sizes |-> sizes, ang |-> ang, props |-> props]
NoAng == Val("none", 0)
Positions(toks, f, n) == [i \in 1..n |-> PosMeaning(toks[i], f, i - 1)]
Regions(l, f, props) ==
  LET t == l.toks  n == Len(l.toks)  c == Positions(t, f, 2) IN
  CASE l.shape = "circle" -> <<Reg("circle", f, c, <<SizeMeaning(t[3], f)>>, NoAng, props)>>
    [] l.shape = "point" -> <<Reg("point", f, c, <<>>, NoAng, props)>>
    [] l.shape = "text" -> <<Reg("text", f, c, <<>>, NoAng, props)>>
    [] l.shape = "line" -> <<Reg("line", f, Positions(t, f, 4), <<>>, NoAng, props)>>
    [] l.shape = "polygon" -> <<Reg("polygon", f, Positions(t, f, n), <<>>, NoAng, props)>>
    [] l.shape = "annulus" ->                        \* x y r1 r2 [r3 ...]: consecutive annuli
         [i \in 1..(n - 3) |-> Reg("cannulus", f, c, <<SizeMeaning(t[2 + i], f), SizeMeaning(t[3 + i], f)>>, NoAng, props)]
    [] l.shape \in {"ellipse", "box"} ->
         LET sz(i) == IF l.shape = "ellipse" THEN Twice(SizeMeaning(t[i], f)) ELSE SizeMeaning(t[i], f)   \* ellipse radii are semi-axes
             ang == AngleMeaning(t[n])                                                                  \* the last parameter is the angle
         IN IF n = 5 THEN <<Reg(IF l.shape = "ellipse" THEN "ellipse" ELSE "rectangle", f, c, <<sz(3), sz(4)>>, ang, props)>>
            ELSE [i \in 1..(((n - 3) \div 2) - 1) |->       \* x y a1 b1 a2 b2 [...] angle: consecutive annuli (inner a,b ; outer a,b)
                    Reg(IF l.shape = "ellipse" THEN "eannulus" ELSE "rannulus", f, c,
                        <<sz(1 + 2 * i), sz(3 + 2 * i), sz(2 + 2 * i), sz(4 + 2 * i)>>, ang, props)]
                 \* sizes order: inner_width, outer_width, inner_height, outer_height

(* ---------------- the reader state machine ---------------- *)
SignInclude(l) == [include |-> IF l.sign = "-" THEN "0" ELSE "1", zz |-> "zz"]
(* an unsupported shape (vector, panda, ...) is skipped with a warning; as a member of a composite it still carries the composite along    *)
(* ("||") or, as its last member, ends it: the regions after it are not members                                                       *)
EndsComposite(l) == l.k = "badshape" /\ ~l.cont
Skipped(l) == l.k \in {"comment", "blank", "badword"} \/ (l.k = "badshape" /\ l.cont)
Warns(l) == l.k \in {"badshape", "badword"}
ReaderState == [frame : Supported \cup {NoFrame}]
St(frame, gmeta, cmeta, out, warn) == [frame |-> frame, gmeta |-> gmeta, cmeta |-> cmeta, out |-> out, warn |-> warn]
St0 == St(NoFrame, NoProps, NoProps, <<>>, 0)
(* properties the library does not carry (arrow heads of lines, vectors, rulers, compasses) are dropped - they alone, wherever they stand in the list *)
UnsupportedKeys == {"line", "vector", "ruler", "compass"}
Supp(props) == [k \in DOMAIN props \ UnsupportedKeys |-> props[k]]
StepLine(s, l) ==
  CASE l.k = "frame" -> IF l.name \in Supported THEN [s EXCEPT !.frame = l.name]
                        ELSE [s EXCEPT !.frame = NoFrame, !.warn = s.warn + 1]          \* unsupported frame: warned, frame cleared
    [] l.k = "global" -> [s EXCEPT !.gmeta = Override(s.gmeta, l.props)]
    [] Skipped(l) -> IF Warns(l) THEN [s EXCEPT !.warn = s.warn + 1] ELSE s
    [] EndsComposite(l) -> [s EXCEPT !.warn = s.warn + 1, !.cmeta = NoProps]
    [] l.k = "composite" -> IF s.frame = NoFrame THEN [s EXCEPT !.warn = s.warn + 1]
                            ELSE [s EXCEPT !.cmeta = l.props]
    [] l.k = "region" ->
         IF s.frame = NoFrame THEN [s EXCEPT !.warn = s.warn + 1]                     \* no region without a frame
         ELSE LET props == Supp(Override(Override(Override(s.gmeta, s.cmeta), SignInclude(l)), l.props))
              IN [s EXCEPT !.out = s.out \o Regions(l, s.frame, props),
                           !.cmeta = IF l.cont THEN s.cmeta ELSE NoProps]              \* "||" keeps composite properties alive
RECURSIVE ReadFrom(_, _)
ReadFrom(s, file) == IF file = <<>> THEN s ELSE ReadFrom(StepLine(s, Head(file)), Tail(file))
ReadAll(file) == ReadFrom(St0, file)
Ds9Meaning(file) == ReadAll(file).out
=============================================================================
