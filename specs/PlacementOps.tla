----------------------------- MODULE PlacementOps ---------------------------
(* C05: applying a RegionMask to an image is exact placement of the mask array with its       *)
(* lower-left pixel at (ixmin, iymin)  (regions/core/mask.py).                                 *)
(* Weights are in halves (0, 1, 2 = 0, 1/2, 1); image data are even integers, distinct per      *)
(* pixel, so every product is an integer and a misplaced pixel is visible.  Fill values are     *)
(* tokens.  Ref operators are written pixel by pixel in image coordinates; Impl operators go    *)
(* through the overlap slices exactly as the code does; TLC checks Impl = Ref.                  *)
EXTENDS Integers, Sequences, FiniteSets, TLC

None == <<>>
Min(a, b) == IF a <= b THEN a ELSE b
Max(a, b) == IF a >= b THEN a ELSE b

(* box = <<x0, x1, y0, y1>> ; arrays are functions over 0-based index ranges: arr[y][x] *)
Weight(pat, j, i) ==                 \* weight (in halves) of mask element (row j, column i)
  CASE pat = "ones" -> 2
    [] pat = "checker" -> IF (i + j) % 2 = 0 THEN 2 ELSE 0
    [] pat = "mix" -> (i + 2 * j + 1) % 3
    [] pat = "half" -> 1
Data(y, x) == 2 * (10 * y + x + 1)
InImg(h, w, y, x) == 0 <= y /\ y < h /\ 0 <= x /\ x < w
InBox(b, y, x) == b[1] <= x /\ x < b[2] /\ b[3] <= y /\ y < b[4]
NX(b) == b[2] - b[1]
NY(b) == b[4] - b[3]
Overlap(b, h, w) == \E y \in 0..(h - 1), x \in 0..(w - 1) : InBox(b, y, x)

(* ---------------- Ref ---------------- *)
(* to_image(shape, dtype): the weights (kept doubled: 0, 1, 2 stand for 0, 1/2, 1) are cast to the requested dtype *)
Cast(dt, w2) == CASE dt = "int" -> 2 * (w2 \div 2) [] dt = "bool" -> (IF w2 > 0 THEN 2 ELSE 0) [] OTHER -> w2
ToImageRef(b, pat, h, w, dt) ==
  IF ~Overlap(b, h, w) THEN None
  ELSE [y \in 0..(h - 1) |-> [x \in 0..(w - 1) |-> IF InBox(b, y, x) THEN Cast(dt, Weight(pat, y - b[3], x - b[1])) ELSE 0]]
(* cutout element: <<"d", value>> for image data, <<"f">> for the fill value *)
CutoutRef(b, h, w) ==
  IF ~Overlap(b, h, w) THEN None
  ELSE [j \in 0..(NY(b) - 1) |-> [i \in 0..(NX(b) - 1) |->
          IF InImg(h, w, b[3] + j, b[1] + i) THEN <<"d", Data(b[3] + j, b[1] + i)>> ELSE <<"f">>]]
(* weighted cutout: data*weight (weights in halves: value = data*w/2) where inside the image and the  *)
(* weight is positive; elsewhere "z": 0 when the fill value is 0, otherwise the statement leaves it  *)
(* open between the fill value, fill*weight and 0 - except "zf", a cell outside the image whose      *)
(* weight is 0, which holds the fill value under every reading (cutout pixels outside the image take *)
(* the fill value; the weight does not scale it)                                                     *)
MultiplyRef(b, pat, h, w) ==
  IF ~Overlap(b, h, w) THEN None
  ELSE [j \in 0..(NY(b) - 1) |-> [i \in 0..(NX(b) - 1) |->
          IF InImg(h, w, b[3] + j, b[1] + i) /\ Weight(pat, j, i) > 0
            THEN <<"d", (Data(b[3] + j, b[1] + i) * Weight(pat, j, i)) \div 2>>
            ELSE IF ~InImg(h, w, b[3] + j, b[1] + i) /\ Weight(pat, j, i) = 0
                   THEN <<"zf">>       \* outside the image and outside the mask: the fill value itself, both readings agree
                   ELSE <<"z">>]]
Masked(mk, y, x) == mk = "alt" /\ (x + y) % 2 = 1
ValuesRef(b, pat, h, w, mk) ==       \* row-major over the common pixels
  LET pts == {<<y, x>> \in (0..(h - 1)) \X (0..(w - 1)) : InBox(b, y, x) /\ Weight(pat, y - b[3], x - b[1]) > 0 /\ ~Masked(mk, y, x)}
      RECURSIVE Build(_)
      Build(S) == IF S = {} THEN <<>>
                  ELSE LET p == CHOOSE q \in S : \A r \in S : q[1] < r[1] \/ (q[1] = r[1] /\ q[2] <= r[2])
                       IN <<(Data(p[1], p[2]) * Weight(pat, p[1] - b[3], p[2] - b[1])) \div 2>> \o Build(S \ {p})
  IN Build(pts)
(* a cutout is a view of the image exactly when the box lies fully inside it (and copy is not asked) *)
FullyInside(b, h, w) == 0 <= b[1] /\ b[2] <= w /\ 0 <= b[3] /\ b[4] <= h /\ NX(b) > 0 /\ NY(b) > 0

(* ---------------- Impl: through the overlap slices, as mask.py does ---------------- *)
Slices(b, h, w) ==
  LET xmin == b[1] xmax == b[2] ymin == b[3] ymax == b[4] IN
  IF xmin >= w \/ ymin >= h \/ xmax <= 0 \/ ymax <= 0 \/ xmin >= xmax \/ ymin >= ymax \/ h <= 0 \/ w <= 0 THEN None
  ELSE << << <<Max(ymin, 0), Min(ymax, h)>>, <<Max(xmin, 0), Min(xmax, w)>> >>,
          << <<Max(-ymin, 0), Min(ymax - ymin, h - ymin)>>, <<Max(-xmin, 0), Min(xmax - xmin, w - xmin)>> >> >>
InWin(p, v) == p[1] <= v /\ v < p[2]
ToImageImpl(b, pat, h, w, dt) ==                \* np.zeros(shape, dtype); image[slices_large] = data[slices_small] (cast on assignment)
  LET s == Slices(b, h, w) IN
  IF s = None THEN None
  ELSE LET ly == s[1][1] lx == s[1][2] sy == s[2][1] sx == s[2][2] IN
       [y \in 0..(h - 1) |-> [x \in 0..(w - 1) |->
          IF InWin(ly, y) /\ InWin(lx, x) THEN Cast(dt, Weight(pat, sy[1] + (y - ly[1]), sx[1] + (x - lx[1]))) ELSE 0]]
CutoutImpl(b, h, w) ==
  LET s == Slices(b, h, w) IN
  IF s = None THEN None
  ELSE LET ly == s[1][1] lx == s[1][2] sy == s[2][1] sx == s[2][2] IN
       IF <<sy[2] - sy[1], sx[2] - sx[1]>> = <<NY(b), NX(b)>>
         THEN [j \in 0..(NY(b) - 1) |-> [i \in 0..(NX(b) - 1) |-> <<"d", Data(ly[1] + j, lx[1] + i)>>]]     \* data[slices_large]
         ELSE [j \in 0..(NY(b) - 1) |-> [i \in 0..(NX(b) - 1) |->
                 IF InWin(sy, j) /\ InWin(sx, i) THEN <<"d", Data(ly[1] + (j - sy[1]), lx[1] + (i - sx[1]))>> ELSE <<"f">>]]
MultiplyImpl(b, pat, h, w) ==
  LET c == CutoutImpl(b, h, w) IN
  IF c = None THEN None
  ELSE [j \in 0..(NY(b) - 1) |-> [i \in 0..(NX(b) - 1) |->
          IF Weight(pat, j, i) = 0 /\ c[j][i] = <<"f">> THEN <<"zf">>
          ELSE IF Weight(pat, j, i) = 0 \/ c[j][i] = <<"f">> THEN <<"z">> ELSE <<"d", (c[j][i][2] * Weight(pat, j, i)) \div 2>>]]

=============================================================================
