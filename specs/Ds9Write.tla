------------------------------ MODULE Ds9Write ------------------------------
(* C09: the DS9 writer (regions/io/ds9/write.py, meta.py) composed with the reader of Ds9.tla.  *)
(* A user region is [cls, frame, pos, sizes, ang (canonical values as in Ds9.tla, chosen as      *)
(* exact multiples of the written precision), inc, props].  The writer is                         *)
(*   SerializeOne (+1 pixel origin shift, semi-axes for ellipses, degrees)  ;  Translate (meta     *)
(*   and visual -> DS9 keys)  ;  Hoist (items common to all regions, except tag, -> "global")  ;   *)
(*   EmitFrame (one frame line if unique, else one per region)  ;  Skip (compound regions and       *)
(*   frames without a DS9 name, with a warning).                                                    *)
(* Named deviations model what the code did before its fixes: with them switched on TLC produces   *)
(* the round-trip counterexamples without running any code.                                        *)
EXTENDS Ds9
CONSTANTS Deviations

Excl(inc) == inc \in {"F", "0"}
Serializable(u) == u.cls # "compound" /\ u.frame # "unnamed"
Ds9Name(f) == CASE f = "fk5" -> "j2000" [] f = "fk4" -> "b1950" [] f = "barycentricmeanecliptic" -> "ecliptic" [] OTHER -> f
ShapeWord(cls) == CASE cls = "rectangle" -> "box" [] cls = "cannulus" -> "annulus" [] cls = "eannulus" -> "ellipse" [] cls = "rannulus" -> "box" [] OTHER -> cls

(* canonical value -> plain token (degrees in millidegrees; pixels in millipixels, positions shifted by +1) *)
TokPos(v) == IF v.u = "mpix" THEN [n |-> "plain", v |-> v.v + 1000] ELSE [n |-> "plain", v |-> v.v \div 3600]
TokLen(v) == IF v.u = "mpix" THEN [n |-> "plain", v |-> v.v] ELSE [n |-> "plain", v |-> v.v \div 3600]
Half(v) == [u |-> v.u, v |-> v.v \div 2]
Toks(u) ==
  LET P == [i \in 1..Len(u.pos) |-> TokPos(u.pos[i])]
      L(i) == TokLen(IF u.cls \in {"ellipse", "eannulus"} THEN Half(u.sizes[i]) ELSE u.sizes[i])
  IN CASE u.cls \in {"circle", "cannulus"} -> P \o [i \in 1..Len(u.sizes) |-> L(i)]
       [] u.cls \in {"ellipse", "rectangle"} -> P \o <<L(1), L(2), TokLen(u.ang)>>
       [] u.cls \in {"eannulus", "rannulus"} -> P \o <<L(1), L(3), L(2), L(4), TokLen(u.ang)>>     \* inner w,h then outer w,h
       [] OTHER -> P
(* Translate: the DS9 properties of one region *)
IncludeProp(u) ==
  IF u.inc = "absent" THEN NoProps
  ELSE IF "IncludeVerbatim" \in Deviations /\ u.inc \in {"T", "F"} THEN [include |-> IF u.inc = "T" THEN "True" ELSE "False", zz |-> "zz"]
  ELSE [include |-> IF Excl(u.inc) THEN "0" ELSE "1", zz |-> "zz"]
MetaOf(u) == Override(IncludeProp(u), u.props)
(* Hoist: items shared by every written region, except tag (and the include flag, which the reader takes from the sign) *)
Hoistable(k) == k \notin {"tag", "zz"} /\ (k # "include" \/ "HoistInclude" \in Deviations)
Common(ms) == {k \in DOMAIN ms[1] : Hoistable(k) /\ \A i \in 1..Len(ms) : k \in DOMAIN ms[i] /\ ms[i][k] = ms[1][k]}
Restrict(f, S) == [k \in S |-> f[k]]
Write(L) ==
  LET W == SelectSeq(L, Serializable)
      ms == [i \in 1..Len(W) |-> MetaOf(W[i])]
      com == IF Len(W) = 0 THEN {} ELSE Common(ms)
      oneframe == Len(W) > 0 /\ \A i \in 1..Len(W) : W[i].frame = W[1].frame
      regline(i) == [k |-> "region", shape |-> ShapeWord(W[i].cls), sign |-> "", toks |-> Toks(W[i]),
                     props |-> Restrict(ms[i], (DOMAIN ms[i] \ com) \cup {"zz"}), cont |-> FALSE]
      RECURSIVE Body(_)
      Body(i) == IF i > Len(W) THEN <<>>
                 ELSE (IF oneframe THEN <<>> ELSE <<[k |-> "frame", name |-> Ds9Name(W[i].frame)]>>) \o <<regline(i)>> \o Body(i + 1)
  IN (IF com = {} THEN <<>> ELSE <<[k |-> "global", props |-> Restrict(ms[1], com \cup {"zz"})]>>)
     \o (IF oneframe THEN <<[k |-> "frame", name |-> Ds9Name(W[1].frame)]>> ELSE <<>>)
     \o Body(1)
Skips(L) == Len(L) - Len(SelectSeq(L, Serializable))          \* one warning each

(* what a serialisable region must come back as *)
Expressible(u) == [cls |-> u.cls, frame |-> u.frame, pos |-> u.pos, sizes |-> u.sizes, ang |-> u.ang,
                   inc |-> IF Excl(u.inc) THEN "0" ELSE "1", props |-> u.props]
Back(r) == [cls |-> r.cls, frame |-> r.frame, pos |-> r.pos, sizes |-> r.sizes, ang |-> r.ang, inc |-> r.props.include,
            props |-> Restrict(r.props, DOMAIN r.props \ {"include"})]
(* a parsed region seen as a user region again (for the parse -> serialise -> parse fixed point) *)
Lift(r) == [cls |-> r.cls, frame |-> r.frame, pos |-> r.pos, sizes |-> r.sizes, ang |-> r.ang, inc |-> r.props.include,
            props |-> Restrict(r.props, DOMAIN r.props \ {"include"})]
=============================================================================
