------------------------------ MODULE MC_Overlap ------------------------------
(* Internal consistency of the bracket on families of circles/ellipses: the number of sub-cell     *)
(* centres that are members lies inside the bracket (a fully inside sub-cell has its centre inside, *)
(* a surely outside one has it outside), Lower <= Upper, and pixels of the model's bounding box       *)
(* cover every pixel with a positive lower bound.                                                     *)
EXTENDS Overlap
CONSTANTS M
U == 4 * M
Circle(cx, cy, r) == [k |-> "circle", cx |-> cx, cy |-> cy, r |-> r, inc |-> "absent"]
Ell(cx, cy, w, h, d) == [k |-> "ellipse", cx |-> cx, cy |-> cy, w |-> w, h |-> h, d |-> d, inc |-> "absent"]
SmallDirs == {<<1, 0, 1>>, <<0, 1, 1>>, <<3, 4, 5>>, <<4, 3, 5>>, <<-3, 4, 5>>, <<4, -3, 5>>}
Shapes == {Circle(cx, cy, r) : cx \in {0, 2, U \div 2}, cy \in {0, 3}, r \in {U \div 4, U, (3 * U) \div 2, 2 * U + 2}}
          \cup {Ell(cx, 0, w, h, d) : cx \in {0, 2}, w \in {U, 3 * U}, h \in {U \div 2, 2 * U}, d \in SmallDirs}
VARIABLES s, ix, iy, lo, hi, pc
vars == <<s, ix, iy, lo, hi, pc>>
Init == s \in Shapes /\ ix \in (-3)..3 /\ iy \in (-3)..3 /\ lo = 0 /\ hi = 0 /\ pc = "call"
Bracket == pc = "call" /\ pc' = "ret" /\ lo' = Lower(s, ix, iy, U, M) /\ hi' = Upper(s, ix, iy, U, M) /\ UNCHANGED <<s, ix, iy>>
Next == Bracket
Spec == Init /\ [][Next]_vars
Done == pc = "ret"
Centres == LET x0 == ix * U - (U \div 2)  y0 == iy * U - (U \div 2) IN
           Cardinality({<<a, b>> \in (0..(M - 1)) \X (0..(M - 1)) : Member(s, <<x0 + 4 * a + 2, y0 + 4 * b + 2>>) = "IN"})
EdgeCentres == LET x0 == ix * U - (U \div 2)  y0 == iy * U - (U \div 2) IN
           Cardinality({<<a, b>> \in (0..(M - 1)) \X (0..(M - 1)) : Member(s, <<x0 + 4 * a + 2, y0 + 4 * b + 2>>) = "EDGE"})
BracketSound == Done => lo <= hi /\ lo <= Centres + EdgeCentres /\ Centres <= hi
InBoxIfPositive == Done /\ lo > 0 => LET b == BoxOf(s, U).box IN b[1] <= ix /\ ix < b[2] /\ b[3] <= iy /\ iy < b[4]
=============================================================================
