------------------------------ MODULE Trace_Wcs ------------------------------
(* Validates conversion walks recorded from real regions: a sequence of to_sky / to_pixel /     *)
(* copy steps.  Wcs.tla says ToPixel(ToSky(r)) = r and that conversions and copies keep class,   *)
(* meta, visual and include flag; so along a walk every state has the class, meta and visual of   *)
(* the start, and every pixel state equals the start's geometry (logged in 1e-6 pixel / 1e-6 rad, *)
(* compared to 1e-6 relative as the property states).                                             *)
EXTENDS Integers, Sequences, FiniteSets, TLC, Json, IOUtils
Traces == JsonDeserialize(IOEnv.TRACE_FILE)
Abs(x) == IF x < 0 THEN -x ELSE x
TwoPi == 6283185
CloseLen(a, b) == Abs(a - b) <= 2 + Abs(b) \div 1000000
CloseAng(a, b) == Abs(a - b) <= 2 \/ Abs(Abs(a - b) - TwoPi) <= 2
GeomSame(e, s) == /\ Len(e.p) = Len(s.p) /\ \A i \in 1..Len(e.p) : CloseLen(e.p[i], s.p[i])
                  /\ Len(e.a) = Len(s.a) /\ \A i \in 1..Len(e.a) : CloseAng(e.a[i], s.a[i])
StepOK(t, i) ==
  LET e == t[i]  s == t[1] IN
  /\ e.cls = s.cls /\ e.meta = s.meta /\ e.visual = s.visual
  /\ (i > 1 => (e.sky # t[i - 1].sky) = (e.op = "convert"))
  /\ (~e.sky => GeomSame(e, s))
Clause(t, i) ==
  LET e == t[i]  s == t[1] IN
  IF e.cls # s.cls THEN "class_changed"
  ELSE IF e.meta # s.meta \/ e.visual # s.visual THEN "meta_or_visual_changed"
  ELSE IF i > 1 /\ (e.sky # t[i - 1].sky) # (e.op = "convert") THEN "wrong_kind_of_region"
  ELSE "geometry_drifted"
FirstBad(t) == LET bad == {i \in 1..Len(t) : ~StepOK(t, i)} IN IF bad = {} THEN 0 ELSE CHOOSE i \in bad : \A j \in bad : i <= j
VARIABLES tid, at, verdict
Init == /\ tid \in 1..Len(Traces) /\ at = FirstBad(Traces[tid])
        /\ verdict = IF FirstBad(Traces[tid]) = 0 THEN "ok" ELSE Clause(Traces[tid], FirstBad(Traces[tid]))
Next == UNCHANGED <<tid, at, verdict>>
Spec == Init /\ [][Next]_<<tid, at, verdict>>
=============================================================================
