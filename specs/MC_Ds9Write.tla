---------------------------- MODULE MC_Ds9Write ----------------------------
EXTENDS Ds9Write
CONSTANTS Pool, MaxLen
V(u, v) == [u |-> u, v |-> v]
U(cls, frame, pos, sizes, ang, inc, kv) == [cls |-> cls, frame |-> frame, pos |-> pos, sizes |-> sizes, ang |-> ang, inc |-> inc, props |-> Override(NoProps, kv)]
SkyPos == <<V("mas", 540900000), V("mas", -73800000)>>
PixPos == <<V("mpix", 10500), V("mpix", -3250)>>
PoolAll == {
  U("circle", "image", PixPos, <<V("mpix", 3000)>>, NoAng, "absent", NoProps),
  U("circle", "image", PixPos, <<V("mpix", 3000)>>, NoAng, "F", [color |-> "red"]),
  U("circle", "image", PixPos, <<V("mpix", 4000)>>, NoAng, "0", [color |-> "red"]),
  U("ellipse", "image", PixPos, <<V("mpix", 6000), V("mpix", 2000)>>, V("mas", 108000000), "T", [color |-> "red", tag |-> "t1"]),
  U("rectangle", "fk5", SkyPos, <<V("mas", 7200000), V("mas", 3600000)>>, V("mas", 36000000), "absent", [text |-> "a b"]),
  U("circle", "fk5", SkyPos, <<V("mas", 3600000)>>, NoAng, "1", [color |-> "red"]),
  U("cannulus", "galactic", SkyPos, <<V("mas", 3600000), V("mas", 7200000)>>, NoAng, "F", NoProps),
  U("eannulus", "icrs", SkyPos, <<V("mas", 7200000), V("mas", 14400000), V("mas", 3600000), V("mas", 10800000)>>, V("mas", 0), "absent", [width |-> "2"]),
  U("polygon", "barycentricmeanecliptic", SkyPos \o <<V("mas", 540936000), V("mas", -73440000), V("mas", 540000000), V("mas", -72000000)>>, <<>>, NoAng, "0", NoProps),
  U("text", "fk4", SkyPos, <<>>, NoAng, "absent", [text |-> "123"]),
  U("point", "image", PixPos, <<>>, NoAng, "absent", [color |-> "red"]),
  (* texts whose first/last character is a delimiter of another kind, and the empty text followed by other properties *)
  U("circle", "image", PixPos, <<V("mpix", 5000)>>, NoAng, "F", [text |-> "", color |-> "red"]),
  U("text", "image", PixPos, <<>>, NoAng, "absent", [text |-> "2\" beam"]),
  U("circle", "fk5", SkyPos, <<V("mas", 1800000)>>, NoAng, "absent", [text |-> "FOV 5'", tag |-> "t1"]),
  U("point", "galactic", SkyPos, <<>>, NoAng, "0", [text |-> "\"quoted\""]),
  U("circle", "icrs", SkyPos, <<V("mas", 900000)>>, NoAng, "absent", [text |-> ";lead; tail;"]),
  U("rectangle", "image", PixPos, <<V("mpix", 6000), V("mpix", 2000)>>, V("mas", 36000000), "absent", [text |-> "obs #3", width |-> "2"]),   \* ' #' in a text that is hoisted
  U("line", "image", PixPos \o <<V("mpix", 0), V("mpix", 7000)>>, <<>>, NoAng, "F", [color |-> "red"]),
  U("compound", "image", <<>>, <<>>, NoAng, "absent", NoProps),
  U("circle", "unnamed", SkyPos, <<V("mas", 3600000)>>, NoAng, "absent", NoProps) }
NoDev == {}
OldCode == {"IncludeVerbatim", "HoistInclude"}

VARIABLES lst, lines, back, pc
vars == <<lst, lines, back, pc>>
Lists == UNION {[1..n -> Pool] : n \in 1..MaxLen}
Init == lst \in Lists /\ lines = <<>> /\ back = <<>> /\ pc = "write"
DoWrite == pc = "write" /\ lines' = Write(lst) /\ pc' = "read" /\ UNCHANGED <<lst, back>>
DoRead == pc = "read" /\ back' = ReadAll(lines) /\ pc' = "done" /\ UNCHANGED <<lst, lines>>
Next == DoWrite \/ DoRead
Spec == Init /\ [][Next]_vars
Done == pc = "done"
Kept == SelectSeq(lst, Serializable)
(* serialise -> parse returns exactly one region per serialisable region: same class, frame, geometry, include sense, text, tags *)
RoundTrip == Done => /\ Len(back.out) = Len(Kept) /\ back.warn = 0
                     /\ \A i \in 1..Len(Kept) : Back(back.out[i]) = Expressible(Kept[i])
(* regions DS9 cannot express are skipped without altering the output for the others *)
SkipDoesNotAlter == pc # "write" => lines = Write(Kept)
(* parse -> serialise -> parse is a fixed point *)
FixedPoint == Done => LET l2 == [i \in 1..Len(back.out) |-> Lift(back.out[i])] IN ReadAll(Write(l2)).out = back.out
=============================================================================
