------------------------------ MODULE PixCoord ------------------------------
(* C20: a PixCoord behaves as a pair of broadcast numpy arrays (regions/core/pixcoord.py).     *)
(* An array is [shape |-> <<n1, ..>>, f |-> function from 0-based index tuples to integers];    *)
(* a scalar has shape <<>>.  Ref operators restate the numpy rules the class promises to follow *)
(* (broadcasting, basic and advanced indexing on the first axes, iteration, length) and the     *)
(* algebraic laws (component-wise +/-, Euclidean separation, rotation as an isometry that       *)
(* composes by multiplying rational directions, origin-shift law of the WCS round trip).        *)
EXTENDS Integers, Sequences, FiniteSets, TLC

Err == [shape |-> <<-1>>, f |-> <<>>]            \* the operation raises
None == -99                                        \* absent slice bound
Abs(x) == IF x < 0 THEN -x ELSE x
Max(a, b) == IF a >= b THEN a ELSE b
Min(a, b) == IF a <= b THEN a ELSE b

RECURSIVE Indices(_)
Indices(shape) == IF shape = <<>> THEN {<<>>}
                  ELSE {<<i>> \o r : i \in 0..(shape[1] - 1), r \in Indices(Tail(shape))}
Size(shape) == Cardinality(Indices(shape))
(* value fill used by the configs: element number (row-major) of an index tuple *)
RECURSIVE Flat(_, _)
Flat(idx, shape) == IF idx = <<>> THEN 0 ELSE idx[1] * Size(Tail(shape)) + Flat(Tail(idx), Tail(shape))
MkArr(shape, a, b) == [shape |-> shape, f |-> [idx \in Indices(shape) |-> a * Flat(idx, shape) + b]]

(* ---------------- broadcasting ---------------- *)
PadLeft(s, n) == [i \in 1..n |-> IF i <= n - Len(s) THEN 1 ELSE s[i - (n - Len(s))]]
BShape(s1, s2) ==
  LET n == Max(Len(s1), Len(s2))  a == PadLeft(s1, n)  b == PadLeft(s2, n)
  IN IF \E i \in 1..n : a[i] # b[i] /\ a[i] # 1 /\ b[i] # 1 THEN <<-1>>
     ELSE [i \in 1..n |-> IF a[i] = 1 THEN b[i] ELSE a[i]]
(* index of the source element that lands at idx of the broadcast result *)
Project(idx, s) == LET n == Len(idx)  k == n - Len(s) IN [i \in 1..Len(s) |-> IF s[i] = 1 THEN 0 ELSE idx[i + k]]
BroadcastTo(arr, shape) == [shape |-> shape, f |-> [idx \in Indices(shape) |-> arr.f[Project(idx, arr.shape)]]]
(* PixCoord(x, y): both components hold the broadcast values; incompatible shapes raise *)
Construct(x, y) == LET s == BShape(x.shape, y.shape) IN
                   IF s = <<-1>> THEN <<Err, Err>> ELSE <<BroadcastTo(x, s), BroadcastTo(y, s)>>

(* ---------------- indexing along the first axis ---------------- *)
Norm(k, n) == IF k < 0 THEN k + n ELSE k
(* python slice(start, stop, step).indices(n) -> sequence of selected positions *)
SliceSel(start, stop, step, n) ==
  LET lo == IF step > 0 THEN 0 ELSE -1
      hi == IF step > 0 THEN n ELSE n - 1
      clamp(v) == IF v < 0 THEN Max(v + n, lo) ELSE Min(v, hi)
      st == IF start = None THEN (IF step > 0 THEN 0 ELSE n - 1) ELSE clamp(start)
      sp == IF stop = None THEN (IF step > 0 THEN n ELSE -1) ELSE clamp(stop)
      cnt == IF step > 0 THEN (IF sp > st THEN (sp - st + step - 1) \div step ELSE 0)
             ELSE (IF st > sp THEN (st - sp - step - 1) \div (-step) ELSE 0)
  IN [i \in 1..cnt |-> st + (i - 1) * step]
TakeRows(arr, sel) ==       \* new first axis of length Len(sel) holding rows sel[i]
  [shape |-> <<Len(sel)>> \o Tail(arr.shape),
   f |-> [idx \in Indices(<<Len(sel)>> \o Tail(arr.shape)) |-> arr.f[<<sel[idx[1] + 1]>> \o Tail(idx)]]]
IndexArr(arr, e) ==
  IF arr.shape = <<>> THEN Err                                   \* a scalar cannot be indexed
  ELSE LET n == arr.shape[1] IN
  CASE e.k = "int" -> IF Norm(e.i, n) \in 0..(n - 1)
                        THEN [shape |-> Tail(arr.shape), f |-> [idx \in Indices(Tail(arr.shape)) |-> arr.f[<<Norm(e.i, n)>> \o idx]]]
                        ELSE Err
    [] e.k = "slice" -> TakeRows(arr, SliceSel(e.start, e.stop, e.step, n))
    [] e.k = "mask" -> IF Len(e.m) # n THEN Err
                       ELSE LET RECURSIVE Sel(_)
                                Sel(i) == IF i > n THEN <<>> ELSE (IF e.m[i] THEN <<i - 1>> ELSE <<>>) \o Sel(i + 1)
                            IN TakeRows(arr, Sel(1))
    [] e.k = "ints" -> IF \E j \in 1..Len(e.is) : Norm(e.is[j], n) \notin 0..(n - 1) THEN Err
                       ELSE TakeRows(arr, [j \in 1..Len(e.is) |-> Norm(e.is[j], n)])
    [] e.k = "pair" ->       \* arr[i, j] on an array with at least two axes
         IF Len(arr.shape) < 2 THEN Err
         ELSE IF Norm(e.i, n) \notin 0..(n - 1) \/ Norm(e.j, arr.shape[2]) \notin 0..(arr.shape[2] - 1) THEN Err
         ELSE LET rest == Tail(Tail(arr.shape))
              IN [shape |-> rest, f |-> [idx \in Indices(rest) |-> arr.f[<<Norm(e.i, n), Norm(e.j, arr.shape[2])>> \o idx]]]
IsScalar(arr) == arr.shape = <<>>
LenOf(arr) == IF IsScalar(arr) THEN -1 ELSE arr.shape[1]         \* -1: TypeError
IterOf(arr) == IF IsScalar(arr) THEN <<>> ELSE [i \in 1..arr.shape[1] |-> IndexArr(arr, [k |-> "int", i |-> i - 1])]

(* ---------------- arithmetic ---------------- *)
Bin(a, b, op(_, _)) == LET s == BShape(a.shape, b.shape) IN
                       IF s = <<-1>> THEN Err
                       ELSE [shape |-> s, f |-> [idx \in Indices(s) |-> op(a.f[Project(idx, a.shape)], b.f[Project(idx, b.shape)])]]
Plus(u, v) == u + v
Minus(u, v) == u - v
Add(p, q) == <<Bin(p[1], q[1], Plus), Bin(p[2], q[2], Plus)>>
Sub(p, q) == <<Bin(p[1], q[1], Minus), Bin(p[2], q[2], Minus)>>
SqDist(u, v) == u * u + v * v
Sep2(p, q) == LET dx == Bin(q[1], p[1], Minus)  dy == Bin(q[2], p[2], Minus) IN Bin(dx, dy, SqDist)      \* squared separation

(* rotation about a scalar centre by the rational direction <<c, s, h>>: result scaled by h *)
RotX(p, cx, cy, d) == [shape |-> p[1].shape, f |-> [idx \in Indices(p[1].shape) |->
                         cx * d[3] + d[1] * (p[1].f[idx] - cx) - d[2] * (p[2].f[idx] - cy)]]
RotY(p, cx, cy, d) == [shape |-> p[1].shape, f |-> [idx \in Indices(p[1].shape) |->
                         cy * d[3] + d[2] * (p[1].f[idx] - cx) + d[1] * (p[2].f[idx] - cy)]]
Rotate(p, cx, cy, d) == <<RotX(p, cx, cy, d), RotY(p, cx, cy, d)>>
DirMul(d, e) == <<d[1] * e[1] - d[2] * e[2], d[2] * e[1] + d[1] * e[2], d[3] * e[3]>>
Scaled(arr, m) == [shape |-> arr.shape, f |-> [idx \in Indices(arr.shape) |-> arr.f[idx] * m]]

(* ---------------- WCS origin law (conformal affine WCS, FITS reference pixel is 1-based) ---------------- *)
(* world = M * (p + (1 - origin) - crpix), so from_sky(to_sky(p, o1), o2) = p + (o2 - o1) *)
RoundTrip(v, o1, o2) == v + (o2 - o1)
=============================================================================
