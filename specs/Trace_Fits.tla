----------------------------- MODULE Trace_Fits -----------------------------
(* Validates recorded FITS serialise/parse calls against Fits.tla.  Event: [items, rows, back]: *)
(* the list given to the writer, the rows of the real table and the regions the real reader     *)
(* returned, all in the model's encoding.                                                        *)
EXTENDS Integers, Sequences, FiniteSets, TLC, Json, IOUtils
Events == JsonDeserialize(IOEnv.TRACE_FILE)
F == INSTANCE Fits WITH Pool <- {}, MaxLen <- 0, Deviations <- {}, items <- <<>>, table <- <<>>, back <- <<>>, pc <- ""
Norm(it) == IF it.cls \in F!Supported THEN it ELSE [cls |-> it.cls]
Verdict(e) ==
  LET its == [i \in 1..Len(e.items) |-> Norm(e.items[i])]
      kept == SelectSeq(its, F!IsRegion)
      t == F!Table(its)
  IN IF Len(t) # Len(e.rows) THEN "table:row_count"
     ELSE IF \E i \in 1..Len(t) : t[i].shape # e.rows[i].shape THEN "table:shape_name"
     ELSE IF \E i \in 1..Len(t) : t[i].x # e.rows[i].x \/ t[i].y # e.rows[i].y \/ t[i].r # e.rows[i].r \/ t[i].rotang # e.rows[i].rotang THEN "table:values"
     ELSE IF \E i \in 1..Len(t) : t[i].comp # e.rows[i].comp THEN "table:components"
     ELSE IF Len(e.back) # Len(kept) THEN "parse:count"
     ELSE LET bad == {i \in 1..Len(kept) :
                        LET want == F!Representable(kept[i])  got == e.back[i] IN
                        ~(got.cls = want.cls /\ got.x = want.x /\ got.y = want.y /\ got.r = want.r /\ got.ang = want.ang /\ got.inc = want.inc
                          /\ got.comp = t[i].comp)}
          IN IF bad = {} THEN "ok"
             ELSE LET i == CHOOSE j \in bad : \A k \in bad : j <= k
                      want == F!Representable(kept[i])  got == e.back[i]
                  IN IF got.cls # want.cls THEN "parse:class"
                     ELSE IF got.cls = "polygon" /\ (got.x # want.x \/ got.y # want.y) THEN "parse:polygon_vertices"
                     ELSE IF got.x # want.x \/ got.y # want.y \/ got.r # want.r \/ got.ang # want.ang THEN "parse:geometry"
                     ELSE IF got.inc # want.inc THEN "parse:include_flag"
                     ELSE "parse:component"
VARIABLES i, verdict
Init == i \in 1..Len(Events) /\ verdict = Verdict(Events[i])
Next == UNCHANGED <<i, verdict>>
Spec == Init /\ [][Next]_<<i, verdict>>
=============================================================================
