#!/venv/bin/python
"""mutsweep.py stage1 [--jobs N] [--files glob,...]   : which syntactic mutants (mutgen.py) survive the repository's test suite
   mutsweep.py stage2 [--jobs N] [--sample K] [--seed S]: run the quick checks mapped to each surviving mutant's file until one detects it

Both stages work in scratch worktrees under /tmp/ms (removed at the end) and write their results to
/verif/.work/mutsweep/{stage1,stage2}.jsonl (resumable: mutants already listed are skipped).  This is tooling for finding
gaps in the checks; it is not a registered check and nothing here touches /repo."""
import fnmatch
import json
import multiprocessing as mp
import os
import random
import re
import shutil
import subprocess
import sys
import time

ROOT = os.path.dirname(os.path.abspath(__file__))
sys.path.insert(0, ROOT)
import mutgen  # noqa

OUT = os.path.join(ROOT, '.work', 'mutsweep')
WT = '/tmp/ms'
PYTEST = ['/venv/bin/python', '-m', 'pytest', '-q', '-p', 'no:cacheprovider', '--timeout=300', '-x',
          '--ignore=regions/_geometry', '--ignore=regions/shapes/tests/test_api.py', '--ignore=regions/shapes/tests/test_masks.py',
          '--deselect', 'regions/shapes/tests/test_ellipse.py::TestEllipsePixelRegion::test_as_mpl_selector',
          '--deselect', 'regions/shapes/tests/test_ellipse.py::TestEllipsePixelRegion::test_mpl_selector_drag',
          '--deselect', 'regions/shapes/tests/test_rectangle.py::TestRectanglePixelRegion::test_as_mpl_selector',
          '--deselect', 'regions/shapes/tests/test_rectangle.py::TestRectanglePixelRegion::test_mpl_selector_drag']

# file -> checks to try, most specific first
MAP = [
    ('regions/shapes/circle.py', 'C01 C04 C02 C15 C18 C06 C07 C03 C09'),
    ('regions/shapes/ellipse.py', 'C01 C04 C02 C15 C18 C06 C07 C03 C09'),
    ('regions/shapes/rectangle.py', 'C01 C04 C02 C15 C18 C06 C07 C09'),
    ('regions/shapes/polygon.py', 'C01 C04 C02 C15 C18 C06 C12 C16 C13'),
    ('regions/shapes/annulus.py', 'C08 C01 C04 C02 C15 C18 C06 C07 C17'),
    ('regions/shapes/point.py', 'C01 C04 C18 C06 C15 C13'),
    ('regions/shapes/line.py', 'C01 C04 C18 C06 C15 C13'),
    ('regions/shapes/text.py', 'C01 C04 C18 C06 C15 C13'),
    ('regions/core/compound.py', 'C08 C01 C02 C06 C17 C16 C15'),
    ('regions/core/core.py', 'C16 C08 C13 C14 C02 C01 C18'),
    ('regions/core/attributes.py', 'C17 C16 C13'),
    ('regions/core/metadata.py', 'C17 C16 C09 C18'),
    ('regions/core/pixcoord.py', 'C20 C16 C15 C01 C17'),
    ('regions/core/regions.py', 'C16 C17 C14 C13 C09'),
    ('regions/core/registry.py', 'C14 C13'),
    ('regions/core/mask.py', 'C05 C13 C02'),
    ('regions/core/bounding_box.py', 'C19 C04 C05 C18'),
    ('regions/io/ds9/*', 'C10 C09 C14 C13'),
    ('regions/io/crtf/*', 'C11 C14 C13'),
    ('regions/io/fits/*', 'C12 C14 C13'),
    ('regions/_utils/wcs_helpers.py', 'C07 C06 C08'),
]


def checks_for(rel):
    for pat, cs in MAP:
        if fnmatch.fnmatch(rel, pat):
            return cs.split()
    return []


def sh(cmd, cwd=None, env=None, timeout=3600):
    try:
        p = subprocess.run(cmd, cwd=cwd, env=env, stdout=subprocess.PIPE, stderr=subprocess.STDOUT, text=True, timeout=timeout)
        return p.returncode, p.stdout
    except subprocess.TimeoutExpired:
        return 124, 'timeout'


def mid(rel, m):
    return f"{rel}:{m['line']}:{m['a']}:{m['kind']}:{m['new'][:30]}"


def all_mutants(files=None):
    res = []
    for rel in mutgen.targets('/repo'):
        if files and not any(fnmatch.fnmatch(rel, f) for f in files):
            continue
        text = open(os.path.join('/repo', rel)).read()
        for m in mutgen.mutants(text):
            try:
                compile(mutgen.apply(text, m), rel, 'exec')
            except SyntaxError:
                continue
            res.append((rel, m))
    return res


def done_ids(path):
    s = {}
    if os.path.exists(path):
        for l in open(path):
            try:
                r = json.loads(l)
                s[r['id']] = r
            except Exception:
                pass
    return s


def worker1(k, queue, outq):
    wt = f'{WT}/w{k}'
    if not os.path.isdir(wt):
        sh([os.path.join(ROOT, 'mkworktree.sh'), wt])
    sh(['find', wt, '-name', '__pycache__', '-prune', '-exec', 'rm', '-rf', '{}', '+'])
    env = dict(os.environ, PYTHONPATH=wt, MPLBACKEND='Agg', PYTHONDONTWRITEBYTECODE='1')
    env.pop('ASTROPY_REGIONS_VERIF', None)
    while True:
        item = queue.get()
        if item is None:
            break
        rel, m = item
        p = os.path.join(wt, rel)
        text = open(os.path.join('/repo', rel)).read()
        open(p, 'w').write(mutgen.apply(text, m))
        t0 = time.time()
        rc, out = sh(PYTEST, cwd=wt, env=env, timeout=600)
        open(p, 'w').write(text)
        tail = re.sub(r'\x1b\[[0-9;]*m', '', out.strip().splitlines()[-1]) if out.strip() else ''
        outq.put({'id': mid(rel, m), 'file': rel, 'line': m['line'], 'a': m['a'], 'b': m['b'], 'new': m['new'], 'old': m['old'], 'kind': m['kind'],
                  'survives': rc == 0, 'rc': rc, 'tail': tail[-100:], 'wall': round(time.time() - t0, 1)})


def stage1(jobs, files):
    os.makedirs(OUT, exist_ok=True)
    path = os.path.join(OUT, 'stage1.jsonl')
    done = done_ids(path)
    ms = [(rel, m) for rel, m in all_mutants(files) if mid(rel, m) not in done]
    random.Random(1).shuffle(ms)
    print(f'{len(ms)} mutants to run ({len(done)} done)', flush=True)
    q, oq = mp.Queue(), mp.Queue()
    for x in ms:
        q.put(x)
    for _ in range(jobs):
        q.put(None)
    ps = [mp.Process(target=worker1, args=(k, q, oq)) for k in range(jobs)]
    for p in ps:
        p.start()
    n = surv = 0
    with open(path, 'a') as f:
        while n < len(ms):
            r = oq.get()
            n += 1
            surv += r['survives']
            f.write(json.dumps(r) + '\n')
            f.flush()
            if n % 50 == 0:
                print(f'{n}/{len(ms)} survivors {surv}', flush=True)
    for p in ps:
        p.join()
    for k in range(jobs):
        sh(['git', '-C', '/repo', 'worktree', 'remove', '--force', f'{WT}/w{k}'])
    print('stage1 done', n, surv)


def worker2(k, queue, outq):
    wt = f'{WT}/c{k}'
    if not os.path.isdir(wt):
        sh([os.path.join(ROOT, 'mkworktree.sh'), wt])
    sh(['find', wt, '-name', '__pycache__', '-prune', '-exec', 'rm', '-rf', '{}', '+'])
    while True:
        r = queue.get()
        if r is None:
            break
        rel = r['file']
        p = os.path.join(wt, rel)
        text = open(os.path.join('/repo', rel)).read()
        open(p, 'w').write(text[:r['a']] + r['new'] + text[r['b']:])
        work = os.path.join(ROOT, '.work', f'ms2_{k}')
        cenv = dict(os.environ, VERIF_REPO=wt, VERIF_EVID=os.path.join(work, 'evidence'), VERIF_REPLAYS=os.path.join(work, 'replays'),
                    PYTHONDONTWRITEBYTECODE='1')
        res = {}
        det = None
        for c in checks_for(rel):
            t0 = time.time()
            rc, out = sh([os.path.join(ROOT, 'check'), c, '--tier', 'quick'], cwd=ROOT, env=cenv, timeout=1500)
            sigs = re.findall(r'violation\(s\) by signature: (.*)', out)
            res[c] = {'exit': rc, 'wall': round(time.time() - t0, 1), 'sig': sigs[0][:200] if sigs else (out.strip()[-200:] if rc not in (0, 1) else '')}
            if rc == 1:
                det = c
                break
        open(p, 'w').write(text)
        shutil.rmtree(work, ignore_errors=True)
        r2 = dict(r)
        r2['checks'] = res
        r2['detected_by'] = det
        outq.put(r2)


def stage2(jobs, sample, seed, files, perfile=0):
    s1 = done_ids(os.path.join(OUT, 'stage1.jsonl'))
    path = os.path.join(OUT, 'stage2.jsonl')
    done = done_ids(path)
    surv = [r for r in s1.values() if r['survives'] and r['id'] not in done and (not files or any(fnmatch.fnmatch(r['file'], f) for f in files))]
    surv.sort(key=lambda r: r['id'])
    random.Random(seed).shuffle(surv)
    if perfile:
        cnt, keep = {}, []
        for r in surv:
            if cnt.get(r['file'], 0) < perfile:
                cnt[r['file']] = cnt.get(r['file'], 0) + 1
                keep.append(r)
        surv = keep
    if sample:
        surv = surv[:sample]
    print(f'{len(surv)} survivors to check', flush=True)
    q, oq = mp.Queue(), mp.Queue()
    for x in surv:
        q.put(x)
    for _ in range(jobs):
        q.put(None)
    ps = [mp.Process(target=worker2, args=(k, q, oq)) for k in range(jobs)]
    for p in ps:
        p.start()
    n = 0
    with open(path, 'a') as f:
        while n < len(surv):
            r = oq.get()
            n += 1
            f.write(json.dumps(r) + '\n')
            f.flush()
            print(f"{n}/{len(surv)} {r['id']} old={r['old'][:40]!r} -> {r['detected_by']} {[(c, v['exit']) for c, v in r['checks'].items()]}", flush=True)
    for p in ps:
        p.join()
    for k in range(jobs):
        sh(['git', '-C', '/repo', 'worktree', 'remove', '--force', f'{WT}/c{k}'])


def main():
    a = sys.argv[1:]
    jobs = int(a[a.index('--jobs') + 1]) if '--jobs' in a else 8
    files = a[a.index('--files') + 1].split(',') if '--files' in a else None
    if a[0] == 'stage1':
        stage1(jobs, files)
    else:
        sample = int(a[a.index('--sample') + 1]) if '--sample' in a else 0
        seed = int(a[a.index('--seed') + 1]) if '--seed' in a else 0
        perfile = int(a[a.index('--perfile') + 1]) if '--perfile' in a else 0
        stage2(jobs, sample, seed, files, perfile)


if __name__ == '__main__':
    main()
