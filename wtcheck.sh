#!/bin/bash
# wtcheck.sh <worktree> <diff> <check> [more checks]: apply a diff in a scratch worktree, run quick checks against it (VERIF_REPO), undo
wt=$1; diff=$2; shift 2
cd /verif
git -C $wt checkout -q -- . ; git -C $wt apply $diff || exit 2
for c in "$@"; do
  VERIF_REPO=$wt VERIF_EVID=/verif/.work/wt_evid_$$ VERIF_REPLAYS=/verif/.work/wt_replays_$$ PYTHONDONTWRITEBYTECODE=1 ./check $c --tier quick 2>&1 | tail -2 | cut -c1-400
done
git -C $wt checkout -q -- .
rm -rf /verif/.work/wt_evid_$$ /verif/.work/wt_replays_$$
