#!/bin/bash
# seedround.sh <round-dir> <pid> <first-new-id>: confirm and check the three changes an agent left in <round-dir>/<pid>
R=$1; P=$2; B=$3
cd /verif
for i in 1 2 3; do
  needs="$(sed -n "s/^$i: //p" $R/$P/NOTES.md | head -1 | cut -c1-600)"
  ./seedtest.py $R/$P $P $i "$needs" --as $((B+i-1))
done
