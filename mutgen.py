#!/venv/bin/python
"""mutgen.py: enumerate small syntactic mutants of the package sources (operator swaps, constant changes, negated
conditions, deleted statements, swapped arguments).  Each mutant is (file, lineno, col, end_lineno, end_col, new_text, kind).
Used by mutsweep.py; nothing here is a registered check."""
import ast
import os

SKIP_FUNCS = {'__repr__', '__str__', '_repr_params'}


def targets(repo):
    out = []
    for base, _dirs, files in os.walk(os.path.join(repo, 'regions')):
        if '/tests' in base or base.endswith('tests'):
            continue
        for f in files:
            p = os.path.join(base, f)
            rel = os.path.relpath(p, repo)
            if not f.endswith('.py') or f in ('conftest.py', 'version.py', '_version.py', 'verif.py', 'examples.py', 'setup_package.py', 'optional_deps.py'):
                continue
            if f == '__init__.py':
                continue
            out.append(rel)
    return sorted(out)


CMP = {ast.Lt: '<=', ast.LtE: '<', ast.Gt: '>=', ast.GtE: '>', ast.Eq: '!=', ast.NotEq: '==', ast.Is: 'is not', ast.IsNot: 'is',
       ast.In: 'not in', ast.NotIn: 'in'}
CMPTXT = {ast.Lt: '<', ast.LtE: '<=', ast.Gt: '>', ast.GtE: '>=', ast.Eq: '==', ast.NotEq: '!=', ast.Is: 'is', ast.IsNot: 'is not',
          ast.In: 'in', ast.NotIn: 'not in'}
BIN = {ast.Add: ('+', '-'), ast.Sub: ('-', '+'), ast.Mult: ('*', '/'), ast.Div: ('/', '*'), ast.FloorDiv: ('//', '/'),
       ast.Mod: ('%', '//'), ast.BitAnd: ('&', '|'), ast.BitOr: ('|', '&'), ast.BitXor: ('^', '|'), ast.Pow: ('**', '*')}


class Src:
    def __init__(self, text):
        self.lines = text.split('\n')
        self.off = [0]
        for l in self.lines:
            self.off.append(self.off[-1] + len(l) + 1)
        self.text = text

    def pos(self, lineno, col):
        # ast col offsets are utf8 bytes; sources here are ascii apart from a few comments
        line = self.lines[lineno - 1]
        b = line.encode('utf8')
        return self.off[lineno - 1] + len(b[:col].decode('utf8', 'ignore'))

    def seg(self, node):
        return self.text[self.pos(node.lineno, node.col_offset):self.pos(node.end_lineno, node.end_col_offset)]


def between(src, a_end, b_start, old):
    """find operator text `old` between two absolute offsets"""
    s = src.text[a_end:b_start]
    i = s.find(old)
    if i < 0:
        return None
    # make sure no other occurrence (e.g. comments) confuses
    return a_end + i, a_end + i + len(old)


def mutants(text):
    src = Src(text)
    tree = ast.parse(text)
    out = []

    def add(a, b, new, kind, lineno):
        out.append({'a': a, 'b': b, 'new': new, 'kind': kind, 'line': lineno, 'old': src.text[a:b]})

    parents = {}
    funcs = {}
    for node in ast.walk(tree):
        for ch in ast.iter_child_nodes(node):
            parents[ch] = node

    def infunc(node):
        n = node
        while n in parents:
            n = parents[n]
            if isinstance(n, (ast.FunctionDef, ast.AsyncFunctionDef)):
                return n.name
        return None

    for node in ast.walk(tree):
        fn = infunc(node)
        if fn in SKIP_FUNCS:
            continue
        if isinstance(node, ast.Compare):
            left = node.left
            for op, right in zip(node.ops, node.comparators):
                t = CMPTXT.get(type(op))
                if t:
                    r = between(src, src.pos(left.end_lineno, left.end_col_offset), src.pos(right.lineno, right.col_offset), t)
                    if r:
                        add(r[0], r[1], CMP[type(op)], 'cmp', node.lineno)
                left = right
        elif isinstance(node, ast.BinOp) and type(node.op) in BIN:
            if isinstance(node.left, ast.Constant) and isinstance(node.left.value, str):
                continue
            if isinstance(node.op, ast.Mod) and isinstance(node.left, (ast.Constant, ast.JoinedStr)):
                continue
            old, new = BIN[type(node.op)]
            r = between(src, src.pos(node.left.end_lineno, node.left.end_col_offset), src.pos(node.right.lineno, node.right.col_offset), old)
            if r:
                add(r[0], r[1], new, 'bin', node.lineno)
        elif isinstance(node, ast.AugAssign) and type(node.op) in BIN:
            old, new = BIN[type(node.op)]
            r = between(src, src.pos(node.target.end_lineno, node.target.end_col_offset), src.pos(node.value.lineno, node.value.col_offset), old + '=')
            if r:
                add(r[0], r[1], new + '=', 'aug', node.lineno)
        elif isinstance(node, ast.BoolOp):
            old = 'and' if isinstance(node.op, ast.And) else 'or'
            new = 'or' if old == 'and' else 'and'
            for x, y in zip(node.values, node.values[1:]):
                r = between(src, src.pos(x.end_lineno, x.end_col_offset), src.pos(y.lineno, y.col_offset), old)
                if r:
                    add(r[0], r[1], new, 'bool', node.lineno)
        elif isinstance(node, ast.UnaryOp):
            a = src.pos(node.lineno, node.col_offset)
            b = src.pos(node.operand.lineno, node.operand.col_offset)
            if isinstance(node.op, ast.Not):
                add(a, b, '', 'not', node.lineno)
            elif isinstance(node.op, ast.USub) and not isinstance(node.operand, ast.Constant):
                add(a, b, '', 'neg', node.lineno)
            elif isinstance(node.op, ast.Invert):
                add(a, b, '', 'inv', node.lineno)
        elif isinstance(node, ast.Constant):
            par = parents.get(node)
            if isinstance(par, ast.Expr):      # docstring
                continue
            a = src.pos(node.lineno, node.col_offset)
            b = src.pos(node.end_lineno, node.end_col_offset)
            v = node.value
            if v is True:
                add(a, b, 'False', 'const', node.lineno)
            elif v is False:
                add(a, b, 'True', 'const', node.lineno)
            elif isinstance(v, int) and not isinstance(v, bool):
                add(a, b, str(v + 1), 'const', node.lineno)
                if v != 0:
                    add(a, b, str(v - 1), 'const', node.lineno)
            elif isinstance(v, float):
                add(a, b, repr(v * 2), 'const', node.lineno)
                add(a, b, repr(v + 1.0), 'const', node.lineno)
            elif v is None and isinstance(par, ast.Compare):
                pass
        elif isinstance(node, (ast.If, ast.While, ast.IfExp)):
            t = node.test
            if not isinstance(t, (ast.Compare, ast.BoolOp)) and not (isinstance(t, ast.UnaryOp) and isinstance(t.op, ast.Not)):
                a = src.pos(t.lineno, t.col_offset)
                b = src.pos(t.end_lineno, t.end_col_offset)
                add(a, b, 'not (' + src.text[a:b] + ')', 'negcond', node.lineno)
        elif isinstance(node, ast.Call):
            if len(node.args) >= 2 and not any(isinstance(x, ast.Starred) for x in node.args[:2]):
                x, y = node.args[0], node.args[1]
                sx, sy = src.seg(x), src.seg(y)
                if sx != sy and not (isinstance(x, ast.Constant) and isinstance(x.value, str)):
                    a = src.pos(x.lineno, x.col_offset)
                    b = src.pos(y.end_lineno, y.end_col_offset)
                    mid = src.text[src.pos(x.end_lineno, x.end_col_offset):src.pos(y.lineno, y.col_offset)]
                    add(a, b, sy + mid + sx, 'swapargs', node.lineno)
        if isinstance(node, (ast.Expr, ast.Assign, ast.AugAssign, ast.Continue, ast.Break, ast.Raise)) and fn is not None:
            if isinstance(node, ast.Expr) and isinstance(node.value, ast.Constant):
                continue
            if isinstance(node, ast.Raise):
                continue
            par = parents.get(node)
            a = src.pos(node.lineno, node.col_offset)
            b = src.pos(node.end_lineno, node.end_col_offset)
            if isinstance(node, ast.Assign):
                # deleting an assignment mostly gives NameError; keep only attribute / subscript targets and re-assignments
                tg = node.targets[0]
                if not isinstance(tg, (ast.Attribute, ast.Subscript)):
                    continue
            add(a, b, 'pass', 'delstmt', node.lineno)
        if isinstance(node, ast.Return) and node.value is not None and fn is not None:
            v = node.value
            if isinstance(v, ast.UnaryOp) and isinstance(v.op, (ast.Not, ast.Invert)):
                continue
    # unique
    seen = set()
    res = []
    for m in out:
        k = (m['a'], m['b'], m['new'])
        if k in seen or m['old'] == m['new']:
            continue
        seen.add(k)
        res.append(m)
    res.sort(key=lambda m: (m['a'], m['new']))
    return res


def apply(text, m):
    return text[:m['a']] + m['new'] + text[m['b']:]


if __name__ == '__main__':
    import sys
    repo = sys.argv[1] if len(sys.argv) > 1 else '/repo'
    tot = 0
    for rel in targets(repo):
        ms = mutants(open(os.path.join(repo, rel)).read())
        ok = 0
        for m in ms:
            try:
                ast.parse(apply(open(os.path.join(repo, rel)).read(), m))
                ok += 1
            except SyntaxError:
                pass
        kinds = {}
        for m in ms:
            kinds[m['kind']] = kinds.get(m['kind'], 0) + 1
        print(f'{rel:40s} {len(ms):5d} ({ok} parse) {kinds}')
        tot += len(ms)
    print('total', tot)
