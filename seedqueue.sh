#!/bin/bash
# seedqueue.sh: run seedround.sh for each line "<round-dir> <pid> <first-id>" appended to .work/seedqueue.txt, one after the other
cd /verif; touch .work/seedqueue.txt; n=0
while true; do
  total=$(wc -l < .work/seedqueue.txt)
  if [ $n -lt $total ]; then
    n=$((n+1)); line=$(sed -n "${n}p" .work/seedqueue.txt); set -- $line
    [ "$1" = "STOP" ] && exit 0
    git -C $1/$2 checkout -q -- . ; git -C $1/$2 checkout -q --detach $(git -C /repo rev-parse HEAD)
    ./seedround.sh $1 $2 $3 > .work/seed_$2_$(basename $1).log 2>&1
  else sleep 15; fi
done
